/-
  Concurrent protocol of `Store::append` and `Store::read` (src/store/mod.rs), as a labelled
  transition system at the granularity of the verif sync points:

    append.id        writer took the append lock and was assigned an id
    append.commit    its frame is stored (skipped for ephemeral frames)
    append.broadcast it was handed to every subscription; lock released
    read.subscribed  reader subscribed (under the same lock) and fixed its cut
    hist.send        history thread delivers its next frame
    hist.end / done  history thread finished: threshold, hand-off to the live task
    live.recv        live task took the next frame of its subscription
    live.end         live task ended
    pulse            heartbeat

  One reader is modelled (readers do not interact); any number of writers is covered because
  only the lock holder is ever mid-append.  TTL expiry and removal during a follow are not
  part of this LTS (C09/C08 cover them on the sequential model).
-/
import XsModel.Frame
namespace Xs.Follow

/-- read options -/
structure ROpts where
  follow : Bool
  heartbeat : Bool := false
  tail : Bool := false
  last : Option Nat := none
  limit : Option Nat := none
  ctx : Option Nat := none
  deriving Repr, DecidableEq

/-- what a reader receives -/
inductive Out where
  | frame (f : Frame)
  | threshold
  | pulse
  deriving Repr, DecidableEq

inductive HPhase where
  | scanning      -- history thread running
  | handed        -- sent `done`: live task may start
  | stopped       -- returned without `done` (limit met / not following): no live delivery
  | none          -- tail: no history thread
  deriving Repr, DecidableEq

inductive LPhase where
  | waiting | running | ended | absent
  deriving Repr, DecidableEq

structure Reader where
  opts : ROpts
  /-- id fixed at subscription: history delivers ids ≤ cut, the subscription ids > cut -/
  cut : Option Nat
  /-- what the live task compares against (`done` carries the cut; a tail read has no `done`) -/
  dedupe : Option Nat
  /-- frames broadcast since the subscription and not yet taken by the live task -/
  queue : List Frame
  lagged : Bool
  /-- last id the scan passed -/
  cursor : Option Nat
  hcount : Nat
  hphase : HPhase
  lcount : Nat
  lphase : LPhase
  hbAlive : Bool
  out : List Out
  /-- ghost: length of the broadcast log at subscription -/
  subAt : Nat
  /-- ghost: stored frames at subscription -/
  snap : List Frame
  /-- ghost: frames delivered by the history thread, in order -/
  hout : List Frame := []
  /-- ghost: frames the live task took from its subscription, in order -/
  taken : List Frame := []
  /-- ghost: frames delivered by the live task, in order -/
  lout : List Frame := []
  deriving Repr

structure Sys where
  /-- stored frames, ascending id -/
  committed : List Frame := []
  /-- every id assigned so far is ≤ this -/
  lastId : Nat := 0
  /-- the append in flight (holder of the append lock) and whether it is stored yet -/
  lock : Option (Frame × Bool) := none
  /-- every frame broadcast so far, oldest first -/
  bcast : List Frame := []
  reader : Option Reader := none
  /-- capacity of the broadcast channel (1024 in the code) -/
  cap : Nat := 1024
  deriving Repr

/-- reader-side actions -/
inductive RAct where
  | histSend
  | histEnd
  | liveRecv
  | liveEnd
  | pulse
  deriving Repr, DecidableEq

inductive Act where
  | appendId (f : Frame) (id : Nat)
  | appendCommit
  | appendBroadcast
  | appendAbort
  | subscribe (o : ROpts) (cutId : Nat)
  | r (a : RAct)
  deriving Repr

def inScope (ctx : Option Nat) (f : Frame) : Bool :=
  match ctx with
  | none => true
  | some c => decide (f.ctx = c)

def afterId (last : Option Nat) (f : Frame) : Bool :=
  match last with
  | none => true
  | some l => decide (l < f.id)

/-- `iter_frames(ctx, last)` on the live store: the next stored frame after the cursor -/
def nextFrame (committed : List Frame) (ctx : Option Nat) (cursor : Option Nat) : Option Frame :=
  committed.find? (fun f => inScope ctx f && afterId cursor f)

def limitReached (limit : Option Nat) (count : Nat) : Bool :=
  match limit with
  | some l => decide (l ≤ count)
  | none => false

/-- the frame is beyond the reader's cut (appended after it subscribed) -/
def beyondCut (cut : Option Nat) (f : Frame) : Bool :=
  match cut with
  | some c => decide (c < f.id)
  | none => false

/-- the live task's dedupe test -/
def dupOfHistory (dedupe : Option Nat) (f : Frame) : Bool :=
  match dedupe with
  | some c => decide (f.id ≤ c)
  | none => false

/-- is there still a historical frame for the scan to look at (within the cut) -/
def moreHistory (committed : List Frame) (r : Reader) : Bool :=
  match nextFrame committed r.opts.ctx r.cursor with
  | none => false
  | some f => !beyondCut r.cut f

/-- a subscription receives a broadcast frame (or lags if its buffer is full) -/
def Reader.receive (cap : Nat) (r : Reader) (f : Frame) : Reader :=
  if r.opts.follow && r.lphase ≠ .ended && !r.lagged then
    if r.queue.length < cap then { r with queue := r.queue ++ [f] }
    else { r with lagged := true }
  else r

/-- reader-side transition; `committed` is the store the history scan iterates live -/
def stepReader (committed : List Frame) (r : Reader) : RAct → Option Reader
  | .histSend =>
    if r.hphase ≠ .scanning then none else
    match nextFrame committed r.opts.ctx r.cursor with
    | none => none
    | some f =>
      -- appended after we subscribed: the scan stops (handled by histEnd)
      if beyondCut r.cut f then none
      -- limit check *before* the send: return without `done`
      else if limitReached r.opts.limit r.hcount then none
      else some { r with cursor := some f.id, hcount := r.hcount + 1, out := r.out ++ [Out.frame f], hout := r.hout ++ [f] }
  | .histEnd =>
    if r.hphase ≠ .scanning then none else
    let more := moreHistory committed r
    let lim := limitReached r.opts.limit r.hcount
    if more && !lim then none   -- still frames to send
    else if lim then
      -- limit met by history (in the loop or right after it): no threshold, no hand-off;
      -- the live task sees the cancelled `done` and ends, which stops the heartbeat
      let lp := if r.opts.follow then LPhase.ended else LPhase.absent
      some { r with hphase := .stopped, lphase := lp, hbAlive := false }
    else if r.opts.follow then
      let o := if r.opts.limit.isNone then r.out ++ [Out.threshold] else r.out
      some { r with hphase := .handed, lphase := .running, lcount := r.hcount, out := o }
    else some { r with hphase := .stopped }
  | .liveRecv =>
    if r.lphase ≠ .running || r.lagged then none else
    match r.queue with
    | [] => none
    | f :: q =>
      let r := { r with queue := q, taken := r.taken ++ [f] }
      if !inScope r.opts.ctx f then some r
      else if dupOfHistory r.dedupe f then some r
      else
        let r := { r with out := r.out ++ [Out.frame f], lout := r.lout ++ [f], lcount := r.lcount + 1 }
        if limitReached r.opts.limit r.lcount then some { r with lphase := .ended, hbAlive := false }
        else some r
  | .liveEnd =>
    -- the live task ends when its subscription lagged
    if r.lphase = .running && r.lagged then some { r with lphase := .ended, hbAlive := false } else none
  | .pulse =>
    if r.hbAlive then some { r with out := r.out ++ [Out.pulse] } else none

/-- one transition; `none` = the action is not enabled in this state -/
def step (s : Sys) : Act → Option Sys
  | .appendId f id =>
    if s.lock.isSome || id ≤ s.lastId then none
    else some { s with lock := some ({ f with id := id }, false), lastId := id }
  | .appendCommit =>
    match s.lock with
    | some (f, false) =>
      if f.ttl = some .ephemeral then none
      else some { s with committed := s.committed ++ [f], lock := some (f, true) }
    | _ => none
  | .appendAbort =>
    -- the append failed after taking the lock (rejected context / NUL topic): nothing stored
    match s.lock with
    | some (_, false) => some { s with lock := none }
    | _ => none
  | .appendBroadcast =>
    match s.lock with
    | some (f, stored) =>
      if !stored && f.ttl ≠ some .ephemeral then none
      else some { s with bcast := s.bcast ++ [f], lock := none, reader := s.reader.map (fun r => r.receive s.cap f) }
    | none => none
  | .subscribe o cutId =>
    if (o.follow && s.lock.isSome) || s.reader.isSome || (o.follow && cutId ≤ s.lastId) then none
    else
      some { s with
        lastId := if o.follow then cutId else s.lastId
        reader := some {
          opts := o
          cut := if o.follow then some cutId else none
          dedupe := if o.follow && !o.tail then some cutId else none
          queue := []
          lagged := false
          cursor := o.last
          hcount := 0
          hphase := if o.tail then .none else .scanning
          lcount := 0
          lphase := if o.follow then (if o.tail then .running else .waiting) else .absent
          hbAlive := o.follow && o.heartbeat
          out := []
          subAt := s.bcast.length
          snap := s.committed } }
  | .r a =>
    match s.reader with
    | some r => (stepReader s.committed r a).map (fun r' => { s with reader := some r' })
    | none => none

/-- run a schedule; `none` if some action was not enabled -/
def run (s : Sys) : List Act → Option Sys
  | [] => some s
  | a :: as => match step s a with
    | some s' => run s' as
    | none => none

/-- the stream is closed: every sender is gone -/
def Reader.closed (r : Reader) : Bool :=
  (r.hphase = .stopped || r.hphase = .handed || r.hphase = .none) &&
  (r.lphase = .ended || r.lphase = .absent) && !r.hbAlive

def realFrames (o : List Out) : List Frame :=
  o.filterMap (fun x => match x with | .frame f => some f | _ => none)

end Xs.Follow
