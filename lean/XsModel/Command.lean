/-
  The command serve loop (src/commands/serve.rs) and one call (`execute_command`).

    * history up to the threshold: only `<name>.define` frames are looked at; live: defines and
      calls.  A valid definition replaces the entry of (context, name); an invalid one leaves
      the table alone and is reported by `<name>.error` naming the define frame.
    * a live `<name>.call` whose (context, name) is defined runs the closure on a fresh clone of
      the definition's engine: explicit `.append`s happen while it runs (stamped with
      command_id / frame_id, which user meta cannot override), then one `<name><suffix>` per
      value of the result in order, then `<name>.complete`; a failing closure yields
      `<name>.error` instead.  Calls met in the history are never run.
  The closure is a parameter: `eval : Def → SFrame → CallRes`.
-/
import XsModel.Registry
namespace Xs.Serve

def sDefine : List Char := ['d', 'e', 'f', 'i', 'n', 'e']
def sCall : List Char := ['c', 'a', 'l', 'l']
def sRecv : List Char := ['r', 'e', 'c', 'v']
def sComplete : List Char := ['c', 'o', 'm', 'p', 'l', 'e', 't', 'e']
def sError : List Char := ['e', 'r', 'r', 'o', 'r']

/-- a registered definition -/
structure CDef where
  /-- id of the `.define` frame = command id -/
  id : Nat
  ctx : Nat
  name : String
  suffix : String := ".recv"
  ttl : Option TTL := none
  deriving Repr

inductive CallRes where
  /-- explicit appends made while it ran, then the values of the result (JSON texts) -/
  | ok (appends : List OutReq) (values : List String)
  /-- the closure failed - at once (`values = []`) or while the result was being produced (the
      values before the failure are results); the appends made before the failure have happened -/
  | error (appends : List OutReq) (values : List String) (msg : String)
  deriving Repr

def cstamp (m : Option (List (String × String))) (cid fid : Nat) : Option (List (String × String)) :=
  some (metaSet (metaSet (m.getD []) "command_id" (idText cid)) "frame_id" (idText fid))

/-- an explicit `.append` inside a command: the call's context unless `--context` names another -/
def cemit (d : CDef) (call : SFrame) (o : OutReq) : SFrame :=
  { topic := o.topic, ctx := o.ctxReq.getD call.ctx, id := 0, mdata := cstamp o.mdata d.id call.id, ttl := o.ttl,
    content := o.content }

def crecv (d : CDef) (call : SFrame) (v : String) : SFrame :=
  { topic := d.name ++ d.suffix, ctx := call.ctx, id := 0, mdata := cstamp none d.id call.id, ttl := d.ttl,
    content := some v }

def ccomplete (d : CDef) (call : SFrame) : SFrame :=
  { topic := topicOf d.name sComplete, ctx := call.ctx, id := 0, mdata := cstamp none d.id call.id }

def cerror (d : CDef) (call : SFrame) (msg : String) : SFrame :=
  { topic := topicOf d.name sError, ctx := call.ctx, id := 0,
    mdata := some [("command_id", idText d.id), ("frame_id", idText call.id), ("error", msg)] }

/-- everything one call produces, in order -/
def callOutputs (d : CDef) (call : SFrame) : CallRes → List SFrame
  | .ok appends values => appends.map (cemit d call) ++ values.map (crecv d call) ++ [ccomplete d call]
  | .error appends values msg => appends.map (cemit d call) ++ values.map (crecv d call) ++ [cerror d call msg]

/-- `<name>.error` for a definition that does not parse -/
def defineError (name : String) (f : SFrame) (msg : String) : SFrame :=
  { topic := topicOf name sError, ctx := f.ctx, id := 0,
    mdata := some [("command_id", idText f.id), ("error", msg)] }

structure CEntry where
  key : Key
  d : CDef
  deriving Repr

def ctblGet (t : List CEntry) (k : Key) : Option CDef := (t.find? (fun e => e.key = k)).map (·.d)
def ctblInsert (t : List CEntry) (k : Key) (d : CDef) : List CEntry := t.filter (fun e => e.key ≠ k) ++ [⟨k, d⟩]

inductive CKind where
  | define | call | other
  deriving Repr, DecidableEq

/-- `strip_suffix(".define")` / `strip_suffix(".call")` -/
def cclassify (topic : String) : Option (String × CKind) :=
  match rsplitDot topic.toList with
  | none => none
  | some (a, b) =>
    if b = sDefine then some (String.ofList a, .define)
    else if b = sCall then some (String.ofList a, .call)
    else some (String.ofList a, .other)

/-- one frame of the loop's subscription; `live = false` before the threshold.  Returns the
    table and what is appended because of this frame (for a call: by the task it starts) -/
def cmdStep (parse : SFrame → Except String CDef) (eval : CDef → SFrame → CallRes) (live : Bool)
    (t : List CEntry) (f : SFrame) : List CEntry × List SFrame :=
  match cclassify f.topic with
  | some (name, .define) =>
    match parse f with
    | .ok d => (ctblInsert t (f.ctx, name) d, [])
    | .error e => (t, [defineError name f e])
  | some (name, .call) =>
    if live then
      match ctblGet t (f.ctx, name) with
      | some d => (t, callOutputs d f (eval d f))
      | none => (t, [])
    else (t, [])
  | _ => (t, [])

/-- the loop over a list of frames: final table and, per frame that caused any, its outputs -/
def cmdRun (parse : SFrame → Except String CDef) (eval : CDef → SFrame → CallRes) (live : Bool) :
    List CEntry → List SFrame → List CEntry × List (SFrame × List SFrame)
  | t, [] => (t, [])
  | t, f :: rest =>
    let (t1, outs) := cmdStep parse eval live t f
    let (t2, more) := cmdRun parse eval live t1 rest
    (t2, (if outs.isEmpty then [] else [(f, outs)]) ++ more)

/-- a whole server lifetime: the stored history first, then the live frames -/
def cmdServe (parse : SFrame → Except String CDef) (eval : CDef → SFrame → CallRes)
    (history live : List SFrame) : List CEntry × List (SFrame × List SFrame) :=
  let (t1, o1) := cmdRun parse eval false [] history
  let (t2, o2) := cmdRun parse eval true t1 live
  (t2, o1 ++ o2)

end Xs.Serve
