/-
  One started handler instance together with the stream it lives in: clients (and other
  handlers) append frames, the instance is handed the frames of its subscription one at a time
  and whatever it emits is appended to the same stream - where it will be handed to it again
  (and skipped).  This closes the loop that `Handler.run` leaves open: `run` takes the
  subscription as given, here the subscription grows with the instance's own output.

  `pre` is what the subscription starts with (the history part and the threshold marker);
  `live` is everything appended to the stream since the instance subscribed.
-/
import XsModel.Registry
namespace Xs.Serve

structure LiveSys (σ : Type) where
  /-- frames appended since the instance subscribed, in order -/
  live : List SFrame
  /-- how many frames of its subscription the instance has been handed -/
  pos : Nat
  st : HState
  env : σ
  /-- ghost: everything the instance emitted, in order -/
  outs : List SFrame

inductive LAct where
  /-- somebody else appends a frame -/
  | envAppend (f : SFrame)
  /-- the instance is handed the next frame of its subscription -/
  | instStep
  deriving Repr

/-- the subscription so far -/
def LiveSys.input {σ : Type} (cfg : HCfg) (pre : List SFrame) (s : LiveSys σ) : List SFrame :=
  pre ++ s.live.filter (fun f => f.ctx = cfg.ctx)

/-- a `<name>.unregistered` naming this instance, in its context -/
def announces (cfg : HCfg) (g : SFrame) : Bool :=
  g.topic = topicOf cfg.name sUnregistered && g.ctx = cfg.ctx &&
    metaGet g.mdata "handler_id" = some (idText cfg.id)

/-- one transition; `none` = not enabled.  Nobody but the instance writes its announcement
    (`envAppend` of such a frame is not a transition of this system). -/
def lstep {σ : Type} (cfg : HCfg) (eval : σ → SFrame → σ × EvalRes) (pre : List SFrame) (s : LiveSys σ) :
    LAct → Option (LiveSys σ)
  | .envAppend f => if announces cfg f then none else some { s with live := s.live ++ [f] }
  | .instStep =>
    match (s.input cfg pre)[s.pos]? with
    | none => none
    | some f =>
      let r := step cfg eval s.st s.env f
      some { live := s.live ++ r.2.2.1, pos := s.pos + 1, st := r.1, env := r.2.1, outs := s.outs ++ r.2.2.1 }

def lrun {σ : Type} (cfg : HCfg) (eval : σ → SFrame → σ × EvalRes) (pre : List SFrame) (s : LiveSys σ) :
    List LAct → Option (LiveSys σ)
  | [] => some s
  | a :: as => match lstep cfg eval pre s a with
    | some s' => lrun cfg eval pre s' as
    | none => none

def LiveSys.init {σ : Type} (env : σ) : LiveSys σ := { live := [], pos := 0, st := .running, env := env, outs := [] }

/-- nothing left to hand to the instance -/
def LiveSys.quiescent {σ : Type} (cfg : HCfg) (pre : List SFrame) (s : LiveSys σ) : Prop :=
  s.pos = (s.input cfg pre).length

end Xs.Serve
