/-
  Query strings: `ReadOptions::{to_query_string, from_query}` (src/store/mod.rs:54-148),
  `TTL::{to_query, from_query}` (ttl.rs), over form-urlencoded text.
-/
import XsModel.Ttl
namespace Xs.Wire

/-! ### ids as text: 25 base-36 digits (`Scru128Id: Display / FromStr`) -/

def b36Char (d : Nat) : Nat := if d < 10 then 48 + d else 87 + d   -- 0-9, a-z

/-- digit value of a character, case-insensitive -/
def b36Val (c : Nat) : Option Nat :=
  if 48 ≤ c ∧ c ≤ 57 then some (c - 48)
  else if 97 ≤ c ∧ c ≤ 122 then some (c - 87)
  else if 65 ≤ c ∧ c ≤ 90 then some (c - 55)
  else none

def showB36 : Nat → Nat → Text
  | 0, _ => []
  | w+1, n => showB36 w (n / 36) ++ [b36Char (n % 36)]

def showId (n : Nat) : Text := showB36 25 n

def b36Step (acc : Option Nat) (c : Nat) : Option Nat :=
  match acc, b36Val c with
  | some a, some d => some (a * 36 + d)
  | _, _ => none

def parseB36 (s : Text) : Option Nat := s.foldl b36Step (some 0)

/-- `Scru128Id::from_str`: exactly 25 base-36 digits, value below 2^128 -/
def parseId (s : Text) : Option Nat :=
  if s.length ≠ 25 then none
  else match parseB36 s with
    | some n => if n < 2 ^ 128 then some n else none
    | none => none

/-! ### form-urlencoded text -/

def splitOn (sep : Nat) : Text → List Text
  | [] => [[]]
  | c :: r =>
    if c = sep then [] :: splitOn sep r
    else match splitOn sep r with
      | h :: t => (c :: h) :: t
      | [] => [[c]]

/-- split at the first `=` -/
def splitKV : Text → Text × Text
  | [] => ([], [])
  | c :: r => if c = 61 then ([], r) else let (k, v) := splitKV r; (c :: k, v)

def hexVal (c : Nat) : Option Nat :=
  if 48 ≤ c ∧ c ≤ 57 then some (c - 48)
  else if 97 ≤ c ∧ c ≤ 102 then some (c - 87)
  else if 65 ≤ c ∧ c ≤ 70 then some (c - 55)
  else none

/-- percent-decoding as `form_urlencoded::parse` does it: `+` is a space, `%XX` a byte,
    a malformed escape is kept literally -/
def pctDecode : Text → Text
  | [] => []
  | 43 :: r => 32 :: pctDecode r
  | 37 :: a :: b :: r =>
    (match hexVal a, hexVal b with
     | some x, some y => (x * 16 + y) :: pctDecode r
     | _, _ => 37 :: pctDecode (a :: b :: r))
  | c :: r => c :: pctDecode r

/-- `form_urlencoded::parse`: segments between `&` (empty ones skipped), split at the first `=` -/
def parseQuery (q : Text) : List (Text × Text) :=
  ((splitOn 38 q).filter (fun s => !s.isEmpty)).map (fun seg =>
    let (k, v) := splitKV seg; (pctDecode k, pctDecode v))

/-- characters the serializer leaves alone (`*-._` and alphanumerics); everything this
    module prints is made of them plus `:` -/
def plainChar (c : Nat) : Bool :=
  (48 ≤ c && c ≤ 57) || (97 ≤ c && c ≤ 122) || (65 ≤ c && c ≤ 90) || c = 45 || c = 46 || c = 95 || c = 42

def hexDigitUpper (d : Nat) : Nat := if d < 10 then 48 + d else 55 + d

/-- `form_urlencoded::byte_serialize` -/
def pctEncode : Text → Text
  | [] => []
  | c :: r =>
    if plainChar c then c :: pctEncode r
    else if c = 32 then 43 :: pctEncode r
    else 37 :: hexDigitUpper (c / 16) :: hexDigitUpper (c % 16) :: pctEncode r

def renderPair (kv : Text × Text) : Text := pctEncode kv.1 ++ [61] ++ pctEncode kv.2

def renderQuery : List (Text × Text) → Text
  | [] => []
  | [kv] => renderPair kv
  | kv :: rest => renderPair kv ++ [38] ++ renderQuery rest

/-! ### ReadOptions -/

inductive FollowOpt where
  | off | on | heartbeat (ms : Nat)
  deriving DecidableEq, Repr

structure ReadOpts where
  follow : FollowOpt := .off
  tail : Bool := false
  lastId : Option Nat := none
  limit : Option Nat := none
  contextId : Option Nat := none
  deriving DecidableEq, Repr

def kFollow : Text := [102, 111, 108, 108, 111, 119]
def kTail : Text := [116, 97, 105, 108]
def kLastId : Text := [108, 97, 115, 116, 45, 105, 100]
def kLimit : Text := [108, 105, 109, 105, 116]
def kContextId : Text := [99, 111, 110, 116, 101, 120, 116, 45, 105, 100]
def sTrue : Text := [116, 114, 117, 101]
def sFalse : Text := [102, 97, 108, 115, 101]
def sYes : Text := [121, 101, 115]
def sNo : Text := [110, 111]

/-- `ReadOptions::to_query_string`: the pairs, in the order the code pushes them -/
def optsPairs (o : ReadOpts) : List (Text × Text) :=
  (match o.follow with
    | .off => []
    | .on => [(kFollow, sTrue)]
    | .heartbeat ms => [(kFollow, showNat ms)]) ++
  (match o.contextId with | some c => [(kContextId, showId c)] | none => []) ++
  (if o.tail then [(kTail, sTrue)] else []) ++
  (match o.lastId with | some l => [(kLastId, showId l)] | none => []) ++
  (match o.limit with | some n => [(kLimit, showNat n)] | none => [])

def toQuery (o : ReadOpts) : Text := renderQuery (optsPairs o)

inductive QErr where
  | duplicate | badFollow | badId | badLimit
  deriving DecidableEq, Repr

inductive QRes (α : Type) where
  | ok (a : α)
  | err (e : QErr)
  deriving DecidableEq, Repr

/-- `FollowOption::deserialize` -/
def parseFollow (s : Text) : Option FollowOpt :=
  if s.isEmpty || s = sYes then some .on
  else match parseUnsigned u64Max s with
    | some ms => some (.heartbeat ms)
    | none =>
      if s = sTrue then some .on
      else if s = sFalse || s = sNo then some .off
      else none

/-- `deserialize_bool` -/
def parseTail (s : Text) : Bool := !(s = sFalse || s = sNo || s = [48])

/-- partially filled struct while serde walks the pairs -/
structure Acc where
  follow : Option FollowOpt := none
  tail : Option Bool := none
  lastId : Option Nat := none
  limit : Option Nat := none
  contextId : Option Nat := none
  deriving DecidableEq, Repr

def accStep (a : Acc) (kv : Text × Text) : QRes Acc :=
  let (k, v) := kv
  if k = kFollow then
    if a.follow.isSome then .err .duplicate
    else match parseFollow v with
      | some f => .ok { a with follow := some f }
      | none => .err .badFollow
  else if k = kTail then
    if a.tail.isSome then .err .duplicate else .ok { a with tail := some (parseTail v) }
  else if k = kLastId then
    if a.lastId.isSome then .err .duplicate
    else match parseId v with
      | some i => .ok { a with lastId := some i }
      | none => .err .badId
  else if k = kLimit then
    if a.limit.isSome then .err .duplicate
    else match parseUnsigned u64Max v with
      | some n => .ok { a with limit := some n }
      | none => .err .badLimit
  else if k = kContextId then
    if a.contextId.isSome then .err .duplicate
    else match parseId v with
      | some i => .ok { a with contextId := some i }
      | none => .err .badId
  else .ok a      -- unknown keys are ignored

def accRun : Acc → List (Text × Text) → QRes Acc
  | a, [] => .ok a
  | a, kv :: rest => match accStep a kv with
    | .ok a' => accRun a' rest
    | .err e => .err e

def Acc.finish (a : Acc) : ReadOpts :=
  { follow := a.follow.getD .off, tail := a.tail.getD false, lastId := a.lastId, limit := a.limit,
    contextId := a.contextId }

/-- `ReadOptions::from_query(Some(q))` -/
def fromQuery (q : Text) : QRes ReadOpts :=
  match accRun {} (parseQuery q) with
  | .ok a => .ok a.finish
  | .err e => .err e

def WfOpts (o : ReadOpts) : Prop :=
  (∀ ms, o.follow = .heartbeat ms → ms ≤ u64Max) ∧ (∀ i, o.lastId = some i → i < 2 ^ 128) ∧
  (∀ i, o.contextId = some i → i < 2 ^ 128) ∧ (∀ n, o.limit = some n → n ≤ u64Max)

end Xs.Wire
