/-
  Durability: every store operation is ONE fjall batch followed by `persist(SyncAll)`
  (src/store/mod.rs: insert_frame, remove). The journal contract (fjall's, assumed): a batch is
  recovered iff it was written completely (its end marker is on disk); a torn tail is discarded.
-/
import XsModel.Run
namespace Xs.Journal

/-- one item of a write batch -/
inductive Item where
  | putStream (k : Key) (f : Frame)
  | delStream (k : Key)
  | putT (k : Key)
  | delT (k : Key)
  | putC (k : Key)
  | delC (k : Key)
  deriving Repr

abbrev Batch := List Item

/-- the three partitions -/
structure Parts where
  stream : Part Frame := []
  idxT : Part Unit := []
  idxC : Part Unit := []
  deriving Repr

def Parts.ofState (s : State) : Parts := { stream := s.stream, idxT := s.idxT, idxC := s.idxC }

def applyItem (p : Parts) : Item → Parts
  | .putStream k f => { p with stream := Part.insert k f p.stream }
  | .delStream k => { p with stream := Part.erase k p.stream }
  | .putT k => { p with idxT := Part.insert k () p.idxT }
  | .delT k => { p with idxT := Part.erase k p.idxT }
  | .putC k => { p with idxC := Part.insert k () p.idxC }
  | .delC k => { p with idxC := Part.erase k p.idxC }

def applyBatch (p : Parts) (b : Batch) : Parts := b.foldl applyItem p

/-- the batch `insert_frame` commits (tombstones for a replaced frame's index keys first) -/
def insertBatch (s : State) (f : Frame) : Batch :=
  let tk := topicKey f.ctx f.topic f.id
  let ck := ctxKey f.ctx f.id
  (match s.get f.id with
    | none => []
    | some o =>
      (if !hasNul o.topic && topicKey o.ctx o.topic o.id ≠ tk then [Item.delT (topicKey o.ctx o.topic o.id)] else []) ++
      (if ctxKey o.ctx o.id ≠ ck then [Item.delC (ctxKey o.ctx o.id)] else [])) ++
  [Item.putStream (idKey f.id) f, Item.putT tk, Item.putC ck]

/-- the batch `remove` commits -/
def removeBatch (s : State) (id : Nat) : Batch :=
  match s.get id with
  | none => []
  | some f =>
    if hasNul f.topic then []
    else [Item.delStream (idKey id), Item.delT (topicKey f.ctx f.topic f.id), Item.delC (ctxKey f.ctx f.id)]

/-- the batches one operation commits, in order (a gc task may commit several: one per
    removed frame; reads, restarts, rejected and ephemeral appends commit nothing) -/
def removesBatches : State → List Nat → List Batch
  | _, [] => []
  | s, id :: rest => removeBatch s id :: removesBatches (s.remove id) rest

def taskBatches (s : State) : GCTask → List Batch
  | .remove id => [removeBatch s id]
  | .checkHead c t keep =>
    removesBatches s (((Part.scanPrefix (topicPrefix c t) s.idxT).reverse.drop keep).map (fun kv => idOfTopicKey kv.1))

def tasksBatches : State → List GCTask → List Batch
  | _, [] => []
  | s, t :: rest => taskBatches s t ++ tasksBatches (s.applyTask t) rest

def opBatches (s : State) : Op → List Batch
  | .append f id => match s.append f id with
    | .ok (_, f') => if f'.ttl = some .ephemeral then [] else [insertBatch s f']
    | .error _ => []
  | .importF f => match s.insertFrame f with
    | .ok _ => [insertBatch s f]
    | .error _ => []
  | .remove id => [removeBatch s id]
  | .gc => match s.gcq with
    | [] => []
    | t :: q => taskBatches { s with gcq := q } t
  | .drain => tasksBatches { s with gcq := [] } s.gcq
  | _ => []

/-- the journal a history writes: one entry per committed batch -/
def journal : State → List Op → List Batch
  | _, [] => []
  | s, op :: rest => opBatches s op ++ journal (s.step op) rest

/-- what is on disk after a crash: the batches written completely, then possibly a torn one -/
structure Image where
  complete : List Batch
  torn : Option Batch    -- a prefix of the batch in flight (never recovered)

/-- fjall's recovery: replay the complete batches, discard a torn tail -/
def recover (i : Image) : Parts := i.complete.foldl applyBatch {}

end Xs.Journal
