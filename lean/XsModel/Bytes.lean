/-
  Byte strings and key encodings (mirror of src/store/mod.rs:624-669).

  Bytes are modelled as `List Nat`; keys are compared lexicographically
  (core `List` order), which is the order fjall keeps its partitions in.
-/
namespace Xs

/-- big-endian base-256 digits of `n`, exactly `w` of them (`Scru128Id::as_bytes`, w = 16) -/
def be : Nat → Nat → List Nat
  | 0, _ => []
  | w+1, n => be w (n / 256) ++ [n % 256]

/-- inverse of `be` (`Scru128Id::from_bytes`) -/
def unbe (l : List Nat) : Nat := l.foldl (fun a b => a * 256 + b) 0

/-- 2^128: ids and context ids are 128-bit -/
def idBound : Nat := 256 ^ 16

/-- key of the `stream` partition -/
def idKey (id : Nat) : List Nat := be 16 id

/-- key of the `idx_context` partition: ctx ‖ id (`idx_context_key_from_frame`) -/
def ctxKey (c i : Nat) : List Nat := be 16 c ++ be 16 i

/-- `idx_topic_key_prefix`: ctx ‖ topic ‖ 0x00 -/
def topicPrefix (c : Nat) (t : List Nat) : List Nat := be 16 c ++ (t ++ [0])

/-- `idx_topic_key_from_frame` (without the NUL check, which is in `Store.insertFrame`) -/
def topicKey (c : Nat) (t : List Nat) (i : Nat) : List Nat := topicPrefix c t ++ be 16 i

/-- `idx_topic_frame_id_from_key`: the last 16 bytes -/
def idOfTopicKey (k : List Nat) : Nat := unbe (k.drop (k.length - 16))

/-- id part of an `idx_context` key: bytes 16.. (iter_frames: `&key[16..]`) -/
def idOfCtxKey (k : List Nat) : Nat := unbe (k.drop 16)

/-- `idx_context_key_range_end`: ctx + 1, saturating at u128::MAX -/
def ctxRangeEnd (c : Nat) : List Nat := be 16 (if c + 1 < idBound then c + 1 else idBound - 1)

/-- timestamp (ms) of a scru128 id: the top 48 of 128 bits -/
def tsOf (id : Nat) : Nat := id / 2 ^ 80

/-- a topic the store accepts: no NUL byte -/
def NulFree (t : List Nat) : Prop := ∀ b ∈ t, b ≠ 0

instance (t : List Nat) : Decidable (NulFree t) := by unfold NulFree; infer_instance

end Xs
