/-
  Contract for one fjall partition: a byte-ordered map.
  Representation: association list kept strictly ascending by key.
  Scans are *defined* as filters of that list, so "a scan returns exactly the
  keys in range, in key order" is definitional.
-/
namespace Xs

abbrev Key := List Nat

/-- one partition -/
abbrev Part (V : Type) := List (Key × V)

namespace Part

variable {V : Type}

def get (k : Key) : Part V → Option V
  | [] => none
  | (k', v) :: r => if k = k' then some v else get k r

/-- insert or overwrite, keeping ascending key order -/
def insert (k : Key) (v : V) : Part V → Part V
  | [] => [(k, v)]
  | (k', v') :: r =>
    if k < k' then (k, v) :: (k', v') :: r
    else if k = k' then (k, v) :: r
    else (k', v') :: insert k v r

/-- tombstone -/
def erase (k : Key) : Part V → Part V
  | [] => []
  | (k', v') :: r => if k = k' then r else (k', v') :: erase k r

/-- lower / upper bound of a range scan (`std::ops::Bound`) -/
inductive Bound where
  | unbounded
  | included (k : Key)
  | excluded (k : Key)

def Bound.lowerOk : Bound → Key → Bool
  | .unbounded, _ => true
  | .included b, k => decide (b ≤ k)
  | .excluded b, k => decide (b < k)

def Bound.upperOk : Bound → Key → Bool
  | .unbounded, _ => true
  | .included b, k => decide (k ≤ b)
  | .excluded b, k => decide (k < b)

/-- `partition.range((lo, hi))`, ascending -/
def range (lo hi : Bound) (p : Part V) : Part V :=
  p.filter (fun kv => lo.lowerOk kv.1 && hi.upperOk kv.1)

/-- `partition.prefix(pre)`, ascending -/
def scanPrefix (pre : Key) (p : Part V) : Part V :=
  p.filter (fun kv => pre.isPrefixOf kv.1)

end Part
end Xs
