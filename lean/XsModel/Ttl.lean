/-
  Text forms of TTLs and unsigned numbers (mirror of src/store/ttl.rs and of Rust's
  `u64::from_str` / `u32::from_str` / `Display for u64`).  Text is a list of character
  codes (everything here is ASCII).
-/
import XsModel.Frame
namespace Xs.Wire

abbrev Text := List Nat

def isDigit (c : Nat) : Bool := decide (48 ≤ c ∧ c ≤ 57)

/-- `Display for u64`: decimal, no sign, no leading zeros -/
def showNat (n : Nat) : Text :=
  if n < 10 then [48 + n] else showNat (n / 10) ++ [48 + n % 10]
termination_by n
decreasing_by omega

def digitsVal (ds : Text) : Nat := ds.foldl (fun a c => a * 10 + (c - 48)) 0

/-- a leading `+` is accepted by `uN::from_str` -/
def stripPlus : Text → Text
  | 43 :: r => r
  | r => r

/-- `uN::from_str`: an optional `+`, then one or more ASCII digits, value ≤ max -/
def parseUnsigned (max : Nat) (s : Text) : Option Nat :=
  if (stripPlus s).isEmpty then none
  else if (stripPlus s).all isDigit then
    if digitsVal (stripPlus s) ≤ max then some (digitsVal (stripPlus s)) else none
  else none

def u64Max : Nat := 2 ^ 64 - 1
def u32Max : Nat := 2 ^ 32 - 1

def sForever : Text := [102, 111, 114, 101, 118, 101, 114]
def sEphemeral : Text := [101, 112, 104, 101, 109, 101, 114, 97, 108]
def sTime : Text := [116, 105, 109, 101, 58]   -- "time:"
def sHead : Text := [104, 101, 97, 100, 58]    -- "head:"

/-- `TTL::serialize` / the value part of `to_query` -/
def printTTL : TTL → Text
  | .forever => sForever
  | .ephemeral => sEphemeral
  | .time ms => sTime ++ showNat ms
  | .head n => sHead ++ showNat n

inductive TtlErr where
  | badDuration | badHeadN | headZero | badFormat
  deriving DecidableEq, Repr

inductive Res (α : Type) where
  | ok (a : α)
  | err (e : TtlErr)
  deriving DecidableEq, Repr

def stripPrefix (p s : Text) : Option Text :=
  if p.isPrefixOf s then some (s.drop p.length) else none

/-- `parse_ttl` -/
def parseTTL (s : Text) : Res TTL :=
  if s = sForever then .ok .forever
  else if s = sEphemeral then .ok .ephemeral
  else match stripPrefix sTime s with
    | some rest =>
      (match parseUnsigned u64Max rest with
       | some ms => .ok (.time ms)
       | none => .err .badDuration)
    | none =>
      match stripPrefix sHead s with
      | some rest =>
        (match parseUnsigned u32Max rest with
         | some n => if n < 1 then .err .headZero else .ok (.head n)
         | none => .err .badHeadN)
      | none => .err .badFormat

/-- TTL values the type can hold -/
def WfTTL : TTL → Prop
  | .time ms => ms ≤ u64Max
  | .head n => 1 ≤ n ∧ n ≤ u32Max
  | _ => True

end Xs.Wire
