/-
  Histories: the store operations as data, and the state after a history.
-/
import XsModel.Store
namespace Xs

inductive Op where
  /-- `Store::append(frame)`; `id` = what `scru128::new()` returned -/
  | append (f : Frame) (id : Nat)
  /-- `POST /import` = `Store::insert_frame` -/
  | importF (f : Frame)
  | remove (id : Nat)
  | readSync (ctx last : Option Nat) (limit : Option Nat) (now : Nat)
  | readHist (ctx last : Option Nat) (limit : Option Nat) (now : Nat)
  /-- the gc worker handles one queued task -/
  | gc
  /-- `wait_for_gc` -/
  | drain
  /-- process restart (clean or by kill) -/
  | reopen

/-- one operation; a rejected append / import leaves the state as it was -/
def State.step (s : State) : Op → State
  | .append f id => match s.append f id with
    | .ok (s', _) => s'
    | .error _ => s
  | .importF f => match s.insertFrame f with
    | .ok s' => s'
    | .error _ => s
  | .remove id => s.remove id
  | .readSync c l n now => (s.readSync c l n now).1
  | .readHist c l n now => (s.readHist c l n now).1
  | .gc => s.gcStep
  | .drain => s.drain
  | .reopen => s.reopen

def State.run (s : State) (ops : List Op) : State := ops.foldl State.step s

end Xs
