/-
  Concrete store model: three partitions + context registry + GC queue.
  Mirror of src/store/mod.rs (Store::{new, append, insert_frame, remove, get,
  head, read_sync, read (history part), iter_frames} and the gc worker),
  one function per Rust function, same order of checks.
-/
import XsModel.Part
import XsModel.Frame
namespace Xs

inductive GCTask where
  | remove (id : Nat)
  | checkHead (ctx : Nat) (topic : List Nat) (keep : Nat)
  deriving DecidableEq, Repr

inductive Err where
  | invalidContext
  | ctxFrameNotZero
  | nulInTopic
  | undecodable
  deriving DecidableEq, Repr

structure State where
  stream : Part Frame := []
  idxT : Part Unit := []
  idxC : Part Unit := []
  /-- `contexts: HashSet<Scru128Id>` -/
  contexts : List Nat := [0]
  /-- pending tasks of the gc worker (unbounded mpsc), oldest first -/
  gcq : List GCTask := []
  /-- history variable: every frame handed to `broadcast_tx.send`, oldest first -/
  bcast : List Frame := []
  deriving Repr

def State.init : State := {}

def hasNul (t : List Nat) : Bool := t.contains 0

/-- `Store::get` -/
def State.get (s : State) (id : Nat) : Option Frame := Part.get (idKey id) s.stream

/-- `HashSet::insert` -/
def ctxInsert (c : Nat) (l : List Nat) : List Nat := if c ∈ l then l else c :: l

/-- the frame is a context registration: `xs.context` in the zero context -/
def Frame.isReg (f : Frame) : Bool := f.topic = xsContext && f.ctx = 0

/-- `Store::insert_frame` after the NUL check: one batch (tombstones for the index keys of
    a frame being overwritten, then the three inserts), then the registry update -/
def State.insertFrameCore (s : State) (f : Frame) : State :=
  let tk := topicKey f.ctx f.topic f.id
  let ck := ctxKey f.ctx f.id
  let old := s.get f.id
  let idxT := match old with
    | none => s.idxT
    | some o =>
      let otk := topicKey o.ctx o.topic o.id
      if !hasNul o.topic && otk ≠ tk then Part.erase otk s.idxT else s.idxT
  let idxC := match old with
    | none => s.idxC
    | some o =>
      let ock := ctxKey o.ctx o.id
      if ock ≠ ck then Part.erase ock s.idxC else s.idxC
  let contexts := match old with
    | none => s.contexts
    | some o => if o.isReg && o.id ≠ 0 then s.contexts.erase o.id else s.contexts
  { s with
    stream := Part.insert (idKey f.id) f s.stream
    idxT := Part.insert tk () idxT
    idxC := Part.insert ck () idxC
    contexts := if f.isReg then ctxInsert f.id contexts else contexts }

/-- `Store::insert_frame` (also the whole of `POST /import`) -/
def State.insertFrame (s : State) (f : Frame) : Except Err State :=
  if !f.decodable then .error .undecodable
  else if hasNul f.topic then .error .nulInTopic else .ok (s.insertFrameCore f)

/-- `Store::append`, first part: the `xs.context` branch / the registry check -/
def State.appendPre (s : State) (f : Frame) : Except Err (State × Frame) :=
  if f.topic = xsContext then
    if f.ctx ≠ 0 then .error .ctxFrameNotZero
    else .ok (s, { f with ttl := some .forever })
  else if f.ctx ∈ s.contexts then .ok (s, f)
  else .error .invalidContext

/-- the gc task `append` queues for a stored frame -/
def headTask (f : Frame) : List GCTask :=
  match f.ttl with
  | some (.head n) => [GCTask.checkHead f.ctx f.topic n]
  | _ => []

/-- `Store::append`, second part: NUL check, store unless ephemeral, queue the head
    check, broadcast -/
def State.appendStore (s : State) (f : Frame) : Except Err (State × Frame) :=
  if hasNul f.topic then .error .nulInTopic
  else if f.ttl = some .ephemeral then
    .ok ({ s with bcast := s.bcast ++ [f] }, f)
  else if !f.decodable then .error .undecodable
  else
    let s1 := s.insertFrameCore f
    .ok ({ s1 with gcq := s1.gcq ++ headTask f, bcast := s1.bcast ++ [f] }, f)

/-- `Store::append`; `id` is what `scru128::new()` returned -/
def State.append (s : State) (f0 : Frame) (id : Nat) : Except Err (State × Frame) :=
  match s.appendPre { f0 with id := id } with
  | .error e => .error e
  | .ok (s1, f) => s1.appendStore f

/-- `Store::remove` -/
def State.remove (s : State) (id : Nat) : State :=
  match s.get id with
  | none => s
  | some f =>
    if hasNul f.topic then s   -- `idx_topic_key_from_frame(&frame)?` fails: nothing removed
    else { s with
      stream := Part.erase (idKey id) s.stream
      idxT := Part.erase (topicKey f.ctx f.topic f.id) s.idxT
      idxC := Part.erase (ctxKey f.ctx f.id) s.idxC
      contexts := if f.isReg && f.id ≠ 0 then s.contexts.erase f.id else s.contexts }

/-- `Store::head`: reverse prefix scan, `find_map` over `get` -/
def State.head (s : State) (t : List Nat) (c : Nat) : Option Frame :=
  if hasNul t then none else
  (Part.scanPrefix (topicPrefix c t) s.idxT).reverse.findSome?
    (fun kv => s.get (idOfTopicKey kv.1))

/-- start bound of the context-index scan: `Excluded(ctx‖last)` or `Included(ctx)` -/
def ctxLower (c : Nat) (last : Option Nat) : Part.Bound :=
  match last with
  | some l => .excluded (be 16 c ++ be 16 l)
  | none => .included (be 16 c)

/-- end bound of a context-scoped scan: the key prefix of the next context; for the last
    possible context id nothing sorts after its keys and the range is open-ended -/
def ctxUpper (c : Nat) : Part.Bound :=
  if c + 1 < idBound then .excluded (be 16 (c + 1)) else .unbounded

/-- start bound of the all-contexts scan: `Excluded(last)` or unbounded -/
def allLower (last : Option Nat) : Part.Bound :=
  match last with
  | some l => .excluded (idKey l)
  | none => .unbounded

/-- `Store::iter_frames` -/
def State.iterFrames (s : State) (ctx : Option Nat) (last : Option Nat) : List Frame :=
  match ctx with
  | some c =>
    (Part.range (ctxLower c last) (ctxUpper c) s.idxC).filterMap
      (fun kv => if kv.1.length = 32 then s.get (idOfCtxKey kv.1) else none)
  | none =>
    (Part.range (allLower last) .unbounded s.stream).map (·.2)

/-- `.filter(expired → enqueue Remove, drop).take(limit)` pulled to exhaustion:
    returns the frames and the `Remove` tasks enqueued while pulling. -/
def readSyncGo (now : Nat) : Nat → List Frame → List Frame × List GCTask
  | 0, _ => ([], [])
  | _, [] => ([], [])
  | n+1, f :: r =>
    if f.expired now then
      let (o, g) := readSyncGo now (n+1) r
      (o, .remove f.id :: g)
    else
      let (o, g) := readSyncGo now n r
      (f :: o, g)

/-- `Store::read_sync(last_id, limit, context_id)` collected -/
def State.readSync (s : State) (ctx last : Option Nat) (limit : Option Nat) (now : Nat) :
    State × List Frame :=
  let fs := s.iterFrames ctx last
  let (o, g) := readSyncGo now (limit.getD fs.length) fs
  ({ s with gcq := s.gcq ++ g }, o)

/-- history thread of `Store::read` (mod.rs:266-306) for a non-following read:
    expired → enqueue, continue; then limit check *before* send. -/
def readHistGo (now : Nat) (limit : Option Nat) : Nat → List Frame → List Frame × List GCTask
  | _, [] => ([], [])
  | count, f :: r =>
    if f.expired now then
      let (o, g) := readHistGo now limit count r
      (o, .remove f.id :: g)
    else if (match limit with | some l => decide (l ≤ count) | none => false) then ([], [])
    else
      let (o, g) := readHistGo now limit (count + 1) r
      (f :: o, g)

/-- `Store::read` with `follow = Off` collected until the channel closes -/
def State.readHist (s : State) (ctx last : Option Nat) (limit : Option Nat) (now : Nat) :
    State × List Frame :=
  let (o, g) := readHistGo now limit 0 (s.iterFrames ctx last)
  ({ s with gcq := s.gcq ++ g }, o)

/-- effect of one gc task on the partitions -/
def State.applyTask (s : State) : GCTask → State
  | .remove id => s.remove id
  | .checkHead c t keep =>
    let ids := ((Part.scanPrefix (topicPrefix c t) s.idxT).reverse.drop keep).map
      (fun kv => idOfTopicKey kv.1)
    ids.foldl State.remove s

/-- the gc worker handles its oldest task -/
def State.gcStep (s : State) : State :=
  match s.gcq with
  | [] => s
  | t :: q => ({ s with gcq := q }).applyTask t

/-- `wait_for_gc`: every queued task has been handled -/
def State.drain (s : State) : State :=
  s.gcq.foldl State.applyTask { s with gcq := [] }

/-- process restart: `Store::new` on the same directory. The registry is rebuilt
    from every stored zero-context frame; the gc queue is in-memory and starts empty. -/
def State.reopen (s : State) : State :=
  { s with
    contexts := ((s.iterFrames (some 0) none).filter (fun f => f.topic = xsContext)).foldl
      (fun l f => ctxInsert f.id l) [0]
    gcq := []
    bcast := [] }

/-- the history scan of the streaming read (`Store::read`) with the wall clock read afresh for
    every frame: `clock j` is the time at which the scan examines the j-th frame it is handed
    (`readHistGo` is the special case of a clock that stands still) -/
def scanClock (clock : Nat → Nat) : Nat → List Frame → List Frame
  | _, [] => []
  | j, f :: rest => if f.expired (clock j) then scanClock clock (j + 1) rest else f :: scanClock clock (j + 1) rest

end Xs
