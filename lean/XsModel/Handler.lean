/-
  One handler instance (src/handlers/handler.rs: `Handler::serve`, `process_frame`): what it is
  invoked for, what it emits, when it stops.  The nushell closure is a parameter `eval`: for
  every frame it either fails or returns the buffered `.append` requests (in call order) and
  a return value.  Frames are seen through `classify` (topic = `<base>.<suffix>`).
-/
import XsModel.Frame
namespace Xs.Serve

/-- a frame as the serve loops see it -/
structure SFrame where
  topic : String
  ctx : Nat
  id : Nat
  /-- meta object: key ↦ JSON text of the value (none = no meta) -/
  mdata : Option (List (String × String)) := none
  ttl : Option TTL := none
  /-- content text (none = no hash) -/
  content : Option String := none
  /-- would the frame, encoded, read back (serde_json's nesting limit; computed by the glue from the
      meta's JSON text, see XsModel/Json.lean)?  `insert_frame` refuses to store one that would not -/
  decodable : Bool := true
  deriving Repr, DecidableEq

/-- ids travel in meta as their 25-character text; the model keeps the number and the glue
    renders it -/
def idText (n : Nat) : String := "id:" ++ toString n

def sRegister : List Char := ['r', 'e', 'g', 'i', 's', 't', 'e', 'r']
def sUnregister : List Char := ['u', 'n', 'r', 'e', 'g', 'i', 's', 't', 'e', 'r']
def sUnregistered : List Char := ['u', 'n', 'r', 'e', 'g', 'i', 's', 't', 'e', 'r', 'e', 'd']

/-- `format!("{}.register", name)` -/
def topicOf (name : String) (suffix : List Char) : String := name ++ String.ofList ('.' :: suffix)

def metaGet (m : Option (List (String × String))) (k : String) : Option String :=
  match m with
  | none => none
  | some l => (l.find? (fun kv => kv.1 = k)).map (·.2)

/-- `serde_json::Map::insert`: the key now maps to `v`, other keys are untouched (a JSON object
    is unordered: the new pair is put last) -/
def metaSet (l : List (String × String)) (k v : String) : List (String × String) :=
  l.filter (fun kv => kv.1 ≠ k) ++ [(k, v)]

structure HCfg where
  /-- id of the `.register` frame = handler id -/
  id : Nat
  ctx : Nat
  /-- `<name>` of `<name>.register` -/
  name : String
  suffix : String := ".out"
  ttl : Option TTL := none
  deriving Repr

/-- one `.append` call inside the closure -/
structure OutReq where
  topic : String
  mdata : Option (List (String × String)) := none
  ttl : Option TTL := none
  /-- `--context`: accepted by the command, overridden by the handler -/
  ctxReq : Option Nat := none
  content : Option String := none
  /-- its meta nests deeper than a frame can carry and still be read back -/
  decodable : Bool := true
  deriving Repr

inductive Ret where
  | nothing
  /-- any other value: its JSON text becomes the content of `<name><suffix>` -/
  | value (json : String)
  deriving Repr

inductive EvalRes where
  | ok (appends : List OutReq) (ret : Ret)
  | error (msg : String)
  deriving Repr

/-- stamp `handler_id` and `frame_id` (after the user's meta, so they cannot be overridden) -/
def stamp (m : Option (List (String × String))) (hid fid : Nat) : Option (List (String × String)) :=
  some (metaSet (metaSet (m.getD []) "handler_id" (idText hid)) "frame_id" (idText fid))

/-- an output request becomes a frame handed to `store.append` (id assigned there) -/
def emit (cfg : HCfg) (trigger : SFrame) (o : OutReq) : SFrame :=
  { topic := o.topic, ctx := cfg.ctx, id := 0, mdata := stamp o.mdata cfg.id trigger.id, ttl := o.ttl,
    content := o.content, decodable := o.decodable }

def returnFrame (cfg : HCfg) (trigger : SFrame) (json : String) : SFrame :=
  { topic := cfg.name ++ cfg.suffix, ctx := cfg.ctx, id := 0, mdata := stamp none cfg.id trigger.id,
    ttl := cfg.ttl, content := some json }

def unregistered (cfg : HCfg) (trigger : SFrame) (err : Option String) : SFrame :=
  { topic := topicOf cfg.name sUnregistered, ctx := cfg.ctx, id := 0,
    mdata := some ([("handler_id", idText cfg.id), ("frame_id", idText trigger.id)] ++
      (match err with | some e => [("error", e)] | none => [])) }

inductive HState where
  | running | stopped
  deriving Repr, DecidableEq

def isRegTraffic (cfg : HCfg) (f : SFrame) : Bool :=
  f.topic = topicOf cfg.name sRegister || f.topic = topicOf cfg.name sUnregister

def isOwn (cfg : HCfg) (f : SFrame) : Bool := metaGet f.mdata "handler_id" = some (idText cfg.id)

/-- what the serve loop does with one frame of its subscription -/
inductive Action where
  | skip
  | stop (out : SFrame)
  | invoke
  deriving Repr

def dispatch (cfg : HCfg) (f : SFrame) : Action :=
  if isRegTraffic cfg f && f.id ≤ cfg.id then .skip          -- registration traffic that preceded it
  else if isRegTraffic cfg f then .stop (unregistered cfg f none)  -- replaced / unregistered
  else if isOwn cfg f then .skip                              -- its own output
  else .invoke

/-- the frame carrying the return value, if there is one -/
def retFrames (cfg : HCfg) (trigger : SFrame) : Ret → List SFrame
  | .nothing => []
  | .value j => [returnFrame cfg trigger j]

def sXsContext : String := String.ofList ['x', 's', '.', 'c', 'o', 'n', 't', 'e', 'x', 't']

/-- `Store::check_append` for an output frame (already forced into the handler's context, which
    is registered - the handler was handed frames of it): no NUL in the topic, `xs.context`
    only from the zero context, and - unless it is ephemeral and never stored - a frame that
    reads back once encoded -/
def storable (f : SFrame) : Bool :=
  !f.topic.toList.contains (Char.ofNat 0) && (f.topic != sXsContext || f.ctx = 0) &&
    (f.decodable || f.ttl = some .ephemeral)

/-- `Handler::serve`, one frame: new state, closure environment, frames emitted (in order),
    was the closure invoked. `σ` is the engine state that `merge_env` carries from one call
    to the next (EngineWorker: one thread, one frame at a time). -/
def step {σ : Type} (cfg : HCfg) (eval : σ → SFrame → σ × EvalRes) (st : HState) (env : σ) (f : SFrame) :
    HState × σ × List SFrame × Bool :=
  match st with
  | .stopped => (.stopped, env, [], false)
  | .running =>
    match dispatch cfg f with
    | .skip => (.running, env, [], false)
    | .stop out => (.stopped, env, [out], false)
    | .invoke =>
      match eval env f with
      | (env', .error msg) => (.stopped, env', [unregistered cfg f (some msg)], true)
      | (env', .ok appends ret) =>
        -- all-or-nothing: the frames of the call are checked before any is appended
        if (appends.map (emit cfg f) ++ retFrames cfg f ret).all storable then
          (.running, env', appends.map (emit cfg f) ++ retFrames cfg f ret, true)
        else (.stopped, env', [unregistered cfg f (some "unstorable output")], true)

/-- the instance over its whole subscription: final state, emitted frames, and the list of
    (environment given, frame) of every invocation -/
def run {σ : Type} (cfg : HCfg) (eval : σ → SFrame → σ × EvalRes) :
    HState → σ → List SFrame → HState × σ × List SFrame × List (σ × SFrame)
  | st, env, [] => (st, env, [], [])
  | st, env, f :: rest =>
    let (st1, env1, out1, inv) := step cfg eval st env f
    let (st2, env2, out2, invs) := run cfg eval st1 env1 rest
    (st2, env2, out1 ++ out2, (if inv then [(env, f)] else []) ++ invs)

/-- `resume_from` of the handler's configuration -/
inductive Resume where
  | head | tail | after (id : Nat)
  deriving Repr, DecidableEq

/-- what the instance's context-scoped follow read hands it (`configure_read_options`, and
    C02/C03/C06 for the store): the frames of its context stored when it subscribed (`hist`,
    after the resume point), then the threshold marker, then the frames of its context appended
    afterwards (`live`); a tail subscription has neither history nor marker -/
def subscription (cfg : HCfg) (resume : Resume) (hist live : List SFrame) (thr : SFrame) : List SFrame :=
  match resume with
  | .tail => live.filter (fun f => f.ctx = cfg.ctx)
  | .head => hist.filter (fun f => f.ctx = cfg.ctx) ++ thr :: live.filter (fun f => f.ctx = cfg.ctx)
  | .after id => (hist.filter (fun f => f.ctx = cfg.ctx)).filter (fun f => id < f.id) ++
      thr :: live.filter (fun f => f.ctx = cfg.ctx)

/-- is the closure run for this frame (by a running instance)? -/
def isInvoke (cfg : HCfg) (f : SFrame) : Bool := !isRegTraffic cfg f && !isOwn cfg f

end Xs.Serve
