/-
  The handler serve loop (src/handlers/serve.rs): the start-up compaction of historical
  registrations and the order in which handlers are started and announced.

    * topics are split at the last '.' (`rsplit_once('.')`) into (name, suffix)
    * history up to the threshold: `<name>.register` replaces the entry of (context, name);
      `<name>.unregister` drops it; `<name>.unregistered` drops it when its meta.handler_id is
      the id of the entry's register frame
    * the retained registrations are started in id order, then every live `.register` is
-/
import XsModel.Handler
namespace Xs.Serve

/-- scan of the reversed topic: the part after the last '.' accumulates in `acc` -/
def rsplitDotAux : List Char → List Char → Option (List Char × List Char)
  | [], _ => none
  | c :: rest, acc => if c = '.' then some (rest.reverse, acc) else rsplitDotAux rest (c :: acc)

/-- `str::rsplit_once('.')` -/
def rsplitDot (s : List Char) : Option (List Char × List Char) := rsplitDotAux s.reverse []

inductive Kind where
  | register | unregister | unregistered | other
  deriving Repr, DecidableEq

def kindOf (suffix : List Char) : Kind :=
  if suffix = sRegister then .register
  else if suffix = sUnregister then .unregister
  else if suffix = sUnregistered then .unregistered
  else .other

/-- (name, kind) of a topic; a topic without '.' is no registry traffic -/
def classify (topic : String) : Option (String × Kind) :=
  match rsplitDot topic.toList with
  | none => none
  | some (a, b) => some (String.ofList a, kindOf b)

abbrev Key := Nat × String

structure Entry where
  key : Key
  reg : SFrame
  deriving Repr

def tblGet (t : List Entry) (k : Key) : Option SFrame := (t.find? (fun e => e.key = k)).map (·.reg)
def tblRemove (t : List Entry) (k : Key) : List Entry := t.filter (fun e => e.key ≠ k)
/-- `HashMap::insert`: the previous entry of the key is replaced -/
def tblInsert (t : List Entry) (k : Key) (f : SFrame) : List Entry := tblRemove t k ++ [⟨k, f⟩]

/-- one historical frame of the start-up scan -/
def compactStep (t : List Entry) (f : SFrame) : List Entry :=
  match classify f.topic with
  | some (name, .register) => tblInsert t (f.ctx, name) f
  | some (name, .unregister) => tblRemove t (f.ctx, name)
  | some (name, .unregistered) =>
    match metaGet f.mdata "handler_id", tblGet t (f.ctx, name) with
    | some h, some r => if h = idText r.id then tblRemove t (f.ctx, name) else t
    | _, _ => t
  | _ => t

def compactTable (history : List SFrame) : List Entry := history.foldl compactStep []

def insertById (f : SFrame) : List SFrame → List SFrame
  | [] => [f]
  | g :: rest => if f.id ≤ g.id then f :: g :: rest else g :: insertById f rest

/-- `sort_by_key(register_frame.id)` -/
def sortById (l : List SFrame) : List SFrame := l.foldr insertById []

/-- the registrations that are started when the server comes up on `history` -/
def compact (history : List SFrame) : List SFrame := sortById ((compactTable history).map (·.reg))

def isRegister (f : SFrame) : Bool :=
  match classify f.topic with
  | some (_, .register) => true
  | _ => false

/-- the `.register` frames the serve loop starts a handler for, in the order it does: the
    compacted history, then every live one -/
def startOrder (history live : List SFrame) : List SFrame := compact history ++ live.filter isRegister

/-- what `start_handler` announces for one of them: `<name>.registered` when the script is
    valid (after the handler has subscribed), `<name>.unregistered` with the error otherwise -/
inductive Announce where
  | registered (hid : Nat)
  | unregistered (hid : Nat)
  deriving Repr, DecidableEq

def announce (valid : SFrame → Bool) (r : SFrame) : Announce :=
  if valid r then .registered r.id else .unregistered r.id

def announcements (valid : SFrame → Bool) (history live : List SFrame) : List Announce :=
  (startOrder history live).map (announce valid)

def sRegistered : List Char := ['r', 'e', 'g', 'i', 's', 't', 'e', 'r', 'e', 'd']

/-- a started instance: its configuration and how many frames the stream held when it
    subscribed (everything from there on is the live part of its subscription) -/
structure Started where
  cfg : HCfg
  resume : Resume
  subAt : Nat
  deriving Repr

def registeredFrame (cfg : HCfg) : SFrame :=
  { topic := topicOf cfg.name sRegistered, ctx := cfg.ctx, id := 0,
    mdata := some [("handler_id", idText cfg.id)] }

/-- `start_handler` for a script that does not parse / validate: `<name>.unregistered` naming
    the register frame, in its context -/
def rejectedFrame (name : String) (r : SFrame) (err : String) : SFrame :=
  { topic := topicOf name sUnregistered, ctx := r.ctx, id := 0,
    mdata := some [("handler_id", idText r.id), ("error", err)] }

/-- the first `.register` / `.unregister` of the handler's name and context stored after its own
    `.register` (`read_sync(last_id = self.id, context).find(..)` in `Handler::spawn`) -/
def laterTraffic (cfg : HCfg) (stream : List SFrame) : Option SFrame :=
  stream.find? (fun f => f.ctx = cfg.ctx && cfg.id < f.id && isRegTraffic cfg f)

/-- `start_handler` / `Handler::spawn` on the stream as it is: subscribe; a tail handler whose
    name was registered again or unregistered in the meantime announces its own stop and never
    starts; otherwise announce `<name>.registered`.  `parse` is `Handler::from_frame` (script
    evaluation), a parameter. -/
def startHandler (parse : SFrame → Except String (HCfg × Resume)) (name : String) (stream : List SFrame)
    (r : SFrame) : List SFrame × Option Started :=
  match parse r with
  | .ok (cfg, resume) =>
    match (if resume = .tail then laterTraffic cfg stream else none) with
    | some f => (stream ++ [unregistered cfg f none], none)
    | none => (stream ++ [registeredFrame cfg], some ⟨cfg, resume, stream.length⟩)
  | .error e => (stream ++ [rejectedFrame name r e], none)

/-- what the serve loop may announce for a `.register` it gets to: the decision for a tail
    handler depends on how much of the stream was stored when it looked -/
structure StartInfo where
  hid : Nat
  valid : Bool
  /-- the frame that supersedes it, if any is ever stored (tail handlers only) -/
  supersededBy : Option Nat
  deriving Repr

end Xs.Serve
