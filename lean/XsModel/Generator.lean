/-
  The generator serve loop (src/generators/serve.rs).

    * a live `<name>.spawn` whose (context, name) is not in the table, that has content and whose
      expression parses is accepted: the task enters the table and one lifecycle starts; any other `.spawn` yields
      one `<name>.spawn.error` naming it
    * a lifecycle: `<name>.start`, one `<name>.recv` per string the pipeline produces (in order,
      the string as content), `<name>.stop` - all with meta.source_id = the spawn's id, in the
      spawn's context.  A duplex task reads, as its input, the content of every `<name>.send`
      of its context stored after its `.start`, in order, and never stops by itself.
    * a live `<name>.stop` of a task in the table starts the next lifecycle (a second later)
    * start-up: the last `.spawn` / `.spawn.error` per (context, name) is kept; those that are
      spawns are started
  The pipeline is a parameter: a lifecycle is given the list of strings it produced (values
  that are not strings produce nothing).
-/
import XsModel.Command
namespace Xs.Serve

def sSpawn : List Char := ['s', 'p', 'a', 'w', 'n']
def sSpawnError : List Char := ['s', 'p', 'a', 'w', 'n', '.', 'e', 'r', 'r', 'o', 'r']
def sStart : List Char := ['s', 't', 'a', 'r', 't']
def sStop : List Char := ['s', 't', 'o', 'p']
def sSend : List Char := ['s', 'e', 'n', 'd']

structure GTask where
  /-- id of the `.spawn` frame -/
  id : Nat
  ctx : Nat
  name : String
  duplex : Bool := false
  deriving Repr, DecidableEq

def gmeta (t : GTask) : Option (List (String × String)) := some [("source_id", idText t.id)]

def gframe (t : GTask) (suffix : List Char) (content : Option String) : SFrame :=
  { topic := topicOf t.name suffix, ctx := t.ctx, id := 0, mdata := gmeta t, content := content }

/-- one lifecycle of a task whose pipeline produced `strings` -/
def lifecycle (t : GTask) (strings : List String) : List SFrame :=
  gframe t sStart none :: strings.map (fun s => gframe t sRecv (some s)) ++ [gframe t sStop none]

/-- a duplex lifecycle never ends by itself -/
def duplexLifecycle (t : GTask) (strings : List String) : List SFrame :=
  gframe t sStart none :: strings.map (fun s => gframe t sRecv (some s))

/-- what a duplex instance reads: the content of the `<name>.send` frames of its context
    stored after its `.start`, in order -/
def duplexInput (t : GTask) (startId : Nat) (stream : List SFrame) : List String :=
  (stream.filter (fun f => f.ctx = t.ctx && startId < f.id && f.topic = topicOf t.name sSend)).filterMap (·.content)

def spawnError (name : String) (f : SFrame) (reason : String) : SFrame :=
  { topic := topicOf name sSpawnError, ctx := f.ctx, id := 0,
    mdata := some [("source_id", idText f.id), ("reason", reason)] }

inductive GKind where
  | spawn | spawnError | stop | other
  deriving Repr, DecidableEq

/-- `strip_suffix(".spawn.error")`, else `strip_suffix(".spawn")`, else `strip_suffix(".stop")` -/
def gclassify (topic : String) : Option (String × GKind) :=
  match rsplitDot topic.toList with
  | none => none
  | some (a, b) =>
    if b = sSpawn then some (String.ofList a, .spawn)
    else if b = sStop then some (String.ofList a, .stop)
    else if b = sError then
      match rsplitDot a with
      | some (a', b') => if b' = sSpawn then some (String.ofList a', .spawnError) else some (String.ofList a, .other)
      | none => some (String.ofList a, .other)
    else some (String.ofList a, .other)

inductive GAct where
  /-- a lifecycle of the task starts -/
  | start (t : GTask)
  | reject (err : SFrame)
  deriving Repr

def gtblHas (tbl : List GTask) (k : Key) : Option GTask := tbl.find? (fun t => (t.ctx, t.name) = k)

/-- one live frame of the loop's subscription.  `duplexOf f` = its meta says duplex;
    `parses f` = its expression parses (nushell's parser is a parameter). -/
def genStep (duplexOf parses : SFrame → Bool) (tbl : List GTask) (f : SFrame) : List GTask × Option GAct :=
  match gclassify f.topic with
  | some (name, .spawn) =>
    match gtblHas tbl (f.ctx, name) with
    | some _ => (tbl, some (.reject (spawnError name f "Updating existing generator is not implemented")))
    | none =>
      match f.content with
      | none => (tbl, some (.reject (spawnError name f "Missing hash")))
      | some _ =>
        if parses f then
          let t : GTask := { id := f.id, ctx := f.ctx, name := name, duplex := duplexOf f }
          (tbl ++ [t], some (.start t))
        else (tbl, some (.reject (spawnError name f "Parse error")))
  | some (name, .stop) =>
    match gtblHas tbl (f.ctx, name) with
    | some t => (tbl, some (.start t))
    | none => (tbl, none)
  | _ => (tbl, none)

def genRun (duplexOf parses : SFrame → Bool) : List GTask → List SFrame → List GTask × List GAct
  | tbl, [] => (tbl, [])
  | tbl, f :: rest =>
    let (t1, a) := genStep duplexOf parses tbl f
    let (t2, more) := genRun duplexOf parses t1 rest
    (t2, a.toList ++ more)

structure GEntry where
  key : Key
  frame : SFrame
  isSpawn : Bool
  deriving Repr

/-- start-up scan: the last `.spawn` / `.spawn.error` per key -/
def gcompactStep (t : List GEntry) (f : SFrame) : List GEntry :=
  match gclassify f.topic with
  | some (name, .spawn) => t.filter (fun e => e.key ≠ (f.ctx, name)) ++ [⟨(f.ctx, name), f, true⟩]
  | some (name, .spawnError) => t.filter (fun e => e.key ≠ (f.ctx, name)) ++ [⟨(f.ctx, name), f, false⟩]
  | _ => t

/-- the `.spawn` frames that are started again when the server comes up on `history` -/
def gcompact (history : List SFrame) : List SFrame :=
  ((history.foldl gcompactStep []).filter (·.isSpawn)).map (·.frame)

end Xs.Serve
