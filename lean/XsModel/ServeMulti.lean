/-
  The handler serve loop and all the instances it starts, together with the stream they share
  (src/handlers/serve.rs + handler.rs, live part).  Clients append frames; the serve loop walks
  the stream and starts a handler for every `.register` it gets to (`startHandler`); every
  started instance is handed the frames of its own subscription one at a time and appends what
  it emits to the same stream - where the serve loop and every instance (itself included) will
  come across it.  `ServeSys.lean` closes the loop for one instance; here several instances of
  the same and of different names run side by side, each at its own pace.

  Ids are assigned by the store on append, in stream order: the frame at position `i` has id
  `i + 1` (`push`).
-/
import XsModel.Registry
namespace Xs.Serve

/-- `store.append`: the id is assigned by the store, larger than every id so far -/
def push (s : List SFrame) (f : SFrame) : List SFrame := s ++ [{ f with id := s.length + 1 }]

def pushAll (s : List SFrame) : List SFrame → List SFrame
  | [] => s
  | f :: rest => pushAll (push s f) rest

structure Inst (σ : Type) where
  cfg : HCfg
  resume : Resume
  /-- length of the stream when the instance subscribed -/
  subAt : Nat
  /-- how many frames of its subscription it has been handed -/
  pos : Nat
  st : HState
  env : σ

structure MSys (σ : Type) where
  stream : List SFrame
  /-- how far the serve loop has got -/
  dpos : Nat
  insts : List (Inst σ)

inductive MAct where
  /-- a client appends a frame (any topic, any meta, any context) -/
  | client (f : SFrame)
  /-- the serve loop takes the next frame of the stream -/
  | serve
  /-- instance `i` is handed the next frame of its subscription -/
  | inst (i : Nat)
  deriving Repr

/-- the instance after one more frame of its subscription: `r` is what `step` returned -/
def Inst.advance {σ : Type} (x : Inst σ) (r : HState × σ × List SFrame × Bool) : Inst σ :=
  ⟨x.cfg, x.resume, x.subAt, x.pos + 1, r.1, r.2.1⟩

/-- the subscription of an instance on the stream as it is now -/
def Inst.sub {σ : Type} (thr : SFrame) (stream : List SFrame) (i : Inst σ) : List SFrame :=
  subscription i.cfg i.resume (stream.take i.subAt) (stream.drop i.subAt) thr

structure MCfg (σ : Type) where
  /-- `Handler::from_frame`: the script of a `.register` evaluated -/
  parse : SFrame → Except String (HCfg × Resume)
  /-- the closure of the handler made from a given `.register` -/
  eval : HCfg → σ → SFrame → σ × EvalRes
  /-- the environment its configuration script leaves -/
  env0 : HCfg → σ
  /-- the threshold marker of a subscription -/
  thr : SFrame

def mstep {σ : Type} (m : MCfg σ) (s : MSys σ) : MAct → Option (MSys σ)
  | .client f => some { s with stream := push s.stream f }
  | .serve =>
    match s.stream[s.dpos]? with
    | none => none
    | some r =>
      match classify r.topic with
      | some (name, .register) =>
        match m.parse r with
        | .ok (cfg, resume) =>
          match (if resume = .tail then laterTraffic cfg s.stream else none) with
          | some f => some { s with stream := push s.stream (unregistered cfg f none), dpos := s.dpos + 1 }
          | none => some { stream := push s.stream (registeredFrame cfg), dpos := s.dpos + 1,
                           insts := s.insts ++ [⟨cfg, resume, s.stream.length, 0, .running, m.env0 cfg⟩] }
        | .error e => some { s with stream := push s.stream (rejectedFrame name r e), dpos := s.dpos + 1 }
      | _ => some { s with dpos := s.dpos + 1 }
  | .inst i =>
    match s.insts[i]? with
    | none => none
    | some x =>
      match (x.sub m.thr s.stream)[x.pos]? with
      | none => none
      | some f =>
        let r := step x.cfg (m.eval x.cfg) x.st x.env f
        some { s with stream := pushAll s.stream r.2.2.1,
                      insts := s.insts.set i (x.advance r) }

def mrun {σ : Type} (m : MCfg σ) (s : MSys σ) : List MAct → Option (MSys σ)
  | [] => some s
  | a :: as => match mstep m s a with
    | some s' => mrun m s' as
    | none => none

def MSys.init {σ : Type} : MSys σ := { stream := [], dpos := 0, insts := [] }

/-- the instance has been handed everything its subscription holds so far -/
def Inst.caughtUp {σ : Type} (thr : SFrame) (stream : List SFrame) (i : Inst σ) : Prop :=
  i.pos = (i.sub thr stream).length

end Xs.Serve
