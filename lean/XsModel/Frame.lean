/-
  Frames, TTLs and expiry (mirror of src/store/mod.rs:26-37, ttl.rs:8-14, mod.rs:613-622).
-/
import XsModel.Bytes
namespace Xs

inductive TTL where
  | forever
  | ephemeral
  | time (ms : Nat)
  | head (n : Nat)
  deriving DecidableEq, Repr, Inhabited

/-- A frame. `hash` and `meta` are opaque to the store (text of the ssri hash /
    of the JSON value); topics are UTF-8 bytes. -/
structure Frame where
  topic : List Nat
  ctx : Nat
  id : Nat
  hash : Option String
  mdata : Option String
  ttl : Option TTL
  /-- does the frame's JSON parse back (XsModel/Json.lean: nesting within serde_json's limit);
      computed by the driver from the meta text -/
  decodable : Bool := true
  deriving DecidableEq, Repr, Inhabited

def u64Max : Nat := 2 ^ 64 - 1

/-- `is_expired`: id timestamp + ttl (saturating u64 add) <= now -/
def isExpired (id ms now : Nat) : Bool :=
  decide (min (tsOf id + ms) u64Max ≤ now)

/-- the frame carries an elapsed `time:N` ttl at `now` -/
def Frame.expired (f : Frame) (now : Nat) : Bool :=
  match f.ttl with
  | some (.time ms) => isExpired f.id ms now
  | _ => false

/-- "xs.context" -/
def xsContext : List Nat := [120, 115, 46, 99, 111, 110, 116, 101, 120, 116]

end Xs
