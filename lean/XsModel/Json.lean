/-
  Frames as JSON trees: `#[derive(Serialize, Deserialize)] struct Frame` (src/store/mod.rs:26-37)
  at the level of serde_json's value tree.  Numbers are opaque text; strings are code points.
  The text layer (serde_json's tokenizer / printer) is trusted and fuzzed, not modelled.
-/
import XsModel.Query
namespace Xs.Wire

inductive J where
  | null
  | bool (b : Bool)
  | num (text : Text)
  | str (s : Text)
  | arr (l : List J)
  | obj (kvs : List (Text × J))
  deriving Repr, Inhabited

mutual
/-- nesting depth: how many arrays / objects enclose the innermost value -/
def J.depth : J → Nat
  | .arr l => 1 + depthList l
  | .obj kvs => 1 + depthKvs kvs
  | _ => 0
def depthList : List J → Nat
  | [] => 0
  | x :: r => max x.depth (depthList r)
def depthKvs : List (Text × J) → Nat
  | [] => 0
  | (_, x) :: r => max x.depth (depthKvs r)
end

/-- serde_json refuses input nested deeper than this (recursion limit 128: the 128th nested
    container is an error) -/
def maxDepth : Nat := 127

/-- a frame as the wire sees it -/
structure WFrame where
  topic : Text
  ctx : Nat
  id : Nat
  hash : Option Text
  mdata : Option J
  ttl : Option TTL
  deriving Repr

def kTopic : Text := [116, 111, 112, 105, 99]
def kCtx : Text := [99, 111, 110, 116, 101, 120, 116, 95, 105, 100]
def kId : Text := [105, 100]
def kHash : Text := [104, 97, 115, 104]
def kMeta : Text := [109, 101, 116, 97]
def kTtl : Text := [116, 116, 108]

def optJ (o : Option J) : J := o.getD .null

/-- `serde_json::to_value(&frame)`: all six fields, `None` as `null` -/
def encodeFrame (f : WFrame) : J :=
  .obj [ (kTopic, .str f.topic), (kCtx, .str (showId f.ctx)), (kId, .str (showId f.id)),
         (kHash, optJ (f.hash.map .str)), (kMeta, optJ f.mdata), (kTtl, optJ (f.ttl.map (fun t => .str (printTTL t)))) ]

def lookup (k : Text) : List (Text × J) → Option J
  | [] => none
  | (k', v) :: r => if k = k' then some v else lookup k r

inductive FErr where
  | tooDeep | notObject | missing (k : Text) | badType (k : Text) | badId | badTtl | badHash
  deriving Repr

/-- validity of an ssri integrity string is the ssri crate's business: a parameter -/
structure HashSpec where
  valid : Text → Bool

/-- `serde_json::from_value::<Frame>` / `from_slice`: required `topic`, `context_id`, `id`;
    optional `hash`, `meta`, `ttl` (`null` and absent both mean `None`); unknown keys ignored -/
def decodeFrame (hs : HashSpec) (j : J) : Except FErr WFrame :=
  if j.depth > maxDepth then .error .tooDeep else
  match j with
  | .obj kvs =>
    match lookup kTopic kvs, lookup kCtx kvs, lookup kId kvs with
    | some (.str topic), some (.str c), some (.str i) =>
      match parseId c, parseId i with
      | some ctx, some id =>
        let hash : Except FErr (Option Text) := match lookup kHash kvs with
          | none => .ok none
          | some .null => .ok none
          | some (.str h) => if hs.valid h then .ok (some h) else .error .badHash
          | some _ => .error (.badType kHash)
        let ttl : Except FErr (Option TTL) := match lookup kTtl kvs with
          | none => .ok none
          | some .null => .ok none
          | some (.str t) => (match parseTTL t with | .ok t => .ok (some t) | .err _ => .error .badTtl)
          | some _ => .error (.badType kTtl)
        let mdata : Option J := match lookup kMeta kvs with
          | none => none
          | some .null => none
          | some m => some m
        match hash, ttl with
        | .ok h, .ok t => .ok { topic := topic, ctx := ctx, id := id, hash := h, mdata := mdata, ttl := t }
        | .error e, _ => .error e
        | _, .error e => .error e
      | _, _ => .error .badId
    | none, _, _ => .error (.missing kTopic)
    | _, none, _ => .error (.missing kCtx)
    | _, _, none => .error (.missing kId)
    | _, _, _ => .error (.badType kTopic)
  | _ => .error .notObject

/-- frames whose JSON reads back as the same frame -/
structure WfWFrame (hs : HashSpec) (f : WFrame) : Prop where
  ctx_lt : f.ctx < 2 ^ 128
  id_lt : f.id < 2 ^ 128
  ttl_wf : ∀ t, f.ttl = some t → WfTTL t
  hash_ok : ∀ h, f.hash = some h → hs.valid h = true
  /-- `Some(Value::Null)` and `None` have the same JSON (known finding F24) -/
  meta_not_null : f.mdata ≠ some .null
  /-- the frame object adds one level to the meta's nesting -/
  meta_depth : ∀ m, f.mdata = some m → m.depth + 1 ≤ maxDepth

end Xs.Wire
