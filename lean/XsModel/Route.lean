/-
  The HTTP front end (src/api.rs): `match_route` (arm order matters) and `handle`, over the
  store model. hyper's HTTP/1.1 parsing, base64 / UTF-8 / JSON text decoding of `xs-meta`, the
  JSON text of an import body and the content hash function are inputs (pre-classified /
  supplied by the driver); the query string, ids, TTLs and read options are parsed here with
  the XsModel.Query / XsModel.Ttl functions.
-/
import XsModel.Run
import XsModel.Query
namespace Xs.Http
open Xs.Wire

inductive Method where
  | get | post | delete | other
  deriving DecidableEq, Repr

/-- what decoding the `xs-meta` header gave -/
inductive MetaIn where
  | absent
  | notAscii | badBase64 | badUtf8 | badJson
  /-- decoded JSON value (as text); `isNull` = it is the JSON `null` -/
  | value (text : String) (isNull : Bool)
  deriving Repr

/-- what decoding an import body gave -/
inductive ImportIn where
  | badJson
  | frame (f : Frame)
  deriving Repr

structure Request where
  method : Method
  /-- raw path of the request target (bytes as sent) -/
  path : Text
  /-- raw query, if the target has a `?` -/
  query : Option Text
  acceptSse : Bool := false
  xsMeta : MetaIn := .absent
  body : List Nat := []
  /-- the content hash of `body` (the CAS library's function of the bytes) -/
  bodyHash : String := ""
  /-- for `GET /cas/…`: did the path parse as a valid integrity string, and its canonical text -/
  casHash : Option String := none
  /-- for `POST /import`: the decoded body -/
  importBody : ImportIn := .badJson
  /-- for `POST /{topic}`: the id `scru128::new()` will return -/
  newId : Nat := 0
  /-- the clock used by expiry filters -/
  now : Nat := 0
  /-- would the frame built from `xs-meta` read back (nesting rule of XsModel/Json.lean) -/
  metaDecodable : Bool := true
  /-- the body cannot be read to its end (bad chunk framing, fewer bytes than announced) -/
  bodyBroken : Bool := false
  deriving Repr

inductive Route where
  | version
  | streamCat (sse : Bool) (o : ReadOpts)
  | streamAppend (topic : List Nat) (ttl : TTL) (ctx : Nat)
  | headGet (topic : List Nat) (follow : Bool) (ctx : Nat)
  | itemGet (id : Nat)
  | itemRemove (id : Nat)
  | casGet (hash : String)
  | casPost
  | importR
  | notFound
  | badRequest
  deriving Repr

def sVersion : Text := [47, 118, 101, 114, 115, 105, 111, 110]     -- "/version"
def sHeadP : Text := [47, 104, 101, 97, 100, 47]                   -- "/head/"
def sCasP : Text := [47, 99, 97, 115, 47]                          -- "/cas/"
def sCas : Text := [47, 99, 97, 115]                               -- "/cas"
def sImport : Text := [47, 105, 109, 112, 111, 114, 116]           -- "/import"
def kContext : Text := [99, 111, 110, 116, 101, 120, 116]          -- "context"

/-- `str::trim_start_matches('/')` -/
def trimSlashes : Text → Text
  | 47 :: r => trimSlashes r
  | r => r

/-- `HashMap::get` after collecting the pairs: a later duplicate wins -/
def lastParam (k : Text) (ps : List (Text × Text)) : Option Text :=
  ((ps.filter (fun kv => kv.1 = k)).getLast?).map (·.2)

/-- `params.get("context")`: absent = zero context; present must parse as an id -/
def contextParam (ps : List (Text × Text)) : Option Nat :=
  match lastParam kContext ps with
  | none => some 0
  | some c => parseId c

/-- `TTL::from_query(query)` -/
def ttlFromQuery (q : Option Text) : Option TTL :=
  match q with
  | none => some .forever
  | some q =>
    match lastParam kTtl (parseQuery q) with
    | none => some .forever
    | some t => match parseTTL t with | .ok t => some t | .err _ => none
where kTtl : Text := [116, 116, 108]

/-- `match_route` -/
def matchRoute (r : Request) : Route :=
  let params := parseQuery (r.query.getD [])
  match r.method with
  | .get =>
    if r.path = sVersion then .version
    else if r.path = [47] then
      (match r.query with
       | none => .streamCat r.acceptSse {}
       | some q => match fromQuery q with
         | .ok o => .streamCat r.acceptSse o
         | .err _ => .badRequest)
    else if sHeadP.isPrefixOf r.path then
      (match contextParam params with
       | some c => .headGet (r.path.drop 6) ((lastParam [102, 111, 108, 108, 111, 119] params).isSome) c
       | none => .badRequest)
    else if sCasP.isPrefixOf r.path then
      (match r.casHash with
       | some h => .casGet h
       | none => .badRequest)
    else
      (match parseId (trimSlashes r.path) with
       | some id => .itemGet id
       | none => .badRequest)
  | .post =>
    if r.path = sCas then .casPost
    else if r.path = sImport then .importR
    else if r.path.head? = some 47 then
      (match contextParam params with
       | none => .badRequest
       | some c => match ttlFromQuery r.query with
         | some t => .streamAppend (trimSlashes r.path) t c
         | none => .badRequest)
    else .notFound
  | .delete =>
    (match parseId (trimSlashes r.path) with
     | some id => .itemRemove id
     | none => .badRequest)
  | .other => .notFound

inductive Resp where
  | version
  | frame (f : Frame)                           -- 200 application/json
  | frames (sse : Bool) (fs : List Frame)       -- 200 ndjson / event-stream, complete
  /-- 200, stream stays open: the certain beginning, and the scope / topic filter of the
      subscription that feeds the rest -/
  | following (sse : Bool) (hist : List Frame) (threshold : Bool) (subCtx : Option Nat) (topicFilter : Option (List Nat))
  | content (bytes : List Nat)                  -- 200
  | hashText (h : String)                       -- 200 text/plain
  | noContent                                   -- 204
  | notFound                                    -- 404
  | badRequest                                  -- 400
  deriving Repr

def Resp.status : Resp → Nat
  | .noContent => 204
  | .notFound => 404
  | .badRequest => 400
  | _ => 200

structure Srv where
  store : State := {}
  /-- content store: hash ↦ bytes -/
  cas : List (String × List Nat) := []
  deriving Repr

def casGet (cas : List (String × List Nat)) (h : String) : Option (List Nat) :=
  (cas.find? (fun kv => kv.1 = h)).map (·.2)

def casPut (cas : List (String × List Nat)) (h : String) (b : List Nat) : List (String × List Nat) :=
  if (casGet cas h).isSome then cas else cas ++ [(h, b)]

/-- 200 with the frame, or 404 -/
def respOfOpt : Option Frame → Resp
  | some f => .frame f
  | none => .notFound

def followOf : FollowOpt → Bool
  | .off => false
  | _ => true

/-- `handle_stream_append`: body → CAS (zero bytes: no hash), then the `xs-meta` header,
    then `Store::append`; validation failures are 400 -/
def handleAppendRead (s : Srv) (r : Request) (topic : List Nat) (ttl : TTL) (ctx : Nat) : Srv × Resp :=
  let s1 : Srv := { s with cas := if r.body.isEmpty then s.cas else casPut s.cas r.bodyHash r.body }
  let hash := if r.body.isEmpty then none else some r.bodyHash
  let mdata : Option (Option String) := match r.xsMeta with
    | .absent => some none
    | .value t isNull => if isNull then some none else some (some t)
    | _ => none
  match mdata with
  | none => (s1, .badRequest)
  | some m =>
    let f0 : Frame := { topic := topic, ctx := ctx, id := 0, hash := hash, mdata := m, ttl := some ttl,
                        decodable := r.metaDecodable }
    match s1.store.append f0 r.newId with
    | .ok (st, f) => ({ s1 with store := st }, .frame f)
    | .error _ => (s1, .badRequest)

/-- the body is read first; if that fails nothing has been committed to the CAS and the request
    is answered 400 -/
def handleAppend (s : Srv) (r : Request) (topic : List Nat) (ttl : TTL) (ctx : Nat) : Srv × Resp :=
  if r.bodyBroken then (s, .badRequest) else handleAppendRead s r topic ttl ctx

def handleCasPostRead (s : Srv) (r : Request) : Srv × Resp :=
  if r.body.isEmpty then (s, .badRequest)
  else ({ s with cas := casPut s.cas r.bodyHash r.body }, .hashText r.bodyHash)

def handleCasPost (s : Srv) (r : Request) : Srv × Resp :=
  if r.bodyBroken then (s, .badRequest) else handleCasPostRead s r

def handleImportRead (s : Srv) (r : Request) : Srv × Resp :=
  match r.importBody with
  | .badJson => (s, .badRequest)
  | .frame f => match s.store.insertFrame f with
    | .ok st => ({ s with store := st }, .frame f)
    | .error _ => (s, .badRequest)

def handleImport (s : Srv) (r : Request) : Srv × Resp :=
  if r.bodyBroken then (s, .badRequest) else handleImportRead s r

def handleCat (s : Srv) (r : Request) (sse : Bool) (o : ReadOpts) : Srv × Resp :=
  if followOf o.follow then
    -- the stream stays open: what is certain is its beginning (C03 / C11 cover the rest)
    if o.tail then (s, .following sse [] false o.contextId none)
    else
      let (st, fs) := s.store.readHist o.contextId o.lastId o.limit r.now
      ({ s with store := st }, .following sse fs o.limit.isNone o.contextId none)
  else if o.tail then
    -- `tail` skips the historical scan; without follow nothing is left to deliver
    (s, .frames sse [])
  else
    let (st, fs) := s.store.readHist o.contextId o.lastId o.limit r.now
    ({ s with store := st }, .frames sse fs)

def handleHead (s : Srv) (topic : List Nat) (follow : Bool) (ctx : Nat) : Srv × Resp :=
  if follow then (s, .following false ((s.store.head topic ctx).toList) false (some ctx) (some topic))
  else (s, respOfOpt (s.store.head topic ctx))

/-- `handle` -/
def handle (s : Srv) (r : Request) : Srv × Resp :=
  match matchRoute r with
  | .version => (s, .version)
  | .notFound => (s, .notFound)
  | .badRequest => (s, .badRequest)
  | .streamCat sse o => handleCat s r sse o
  | .itemGet id => (s, respOfOpt (s.store.get id))
  | .itemRemove id => ({ s with store := s.store.remove id }, .noContent)
  | .headGet topic follow ctx => handleHead s topic follow ctx
  | .casGet h => (s, match casGet s.cas h with | some b => .content b | none => .notFound)
  | .casPost => handleCasPost s r
  | .importR => handleImport s r
  | .streamAppend topic ttl ctx => handleAppend s r topic ttl ctx

end Xs.Http
