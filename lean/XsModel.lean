import XsModel.Bytes
import XsModel.Part
import XsModel.Frame
import XsModel.Store
import XsModel.Run
import XsModel.Follow
