/-
  xsdrv: executes the Lean model on the same operation lines the Rust worker
  executed and prints the model's observations (JSON lines).
    xsdrv store   < trace.jsonl
  Each input line is {"op":{...},"obs":{...}} (obs = what the implementation
  answered; the model takes from it only the nondeterministic inputs: the id
  `scru128::new()` produced).  {"case":"name"} resets the model state.
-/
import Lean.Data.Json
import XsModel
open Lean Xs

def hexDigit (c : Char) : Nat :=
  if '0' ≤ c ∧ c ≤ '9' then c.toNat - '0'.toNat
  else if 'a' ≤ c ∧ c ≤ 'f' then c.toNat - 'a'.toNat + 10
  else if 'A' ≤ c ∧ c ≤ 'F' then c.toNat - 'A'.toNat + 10
  else 0

def hexToNat (s : String) : Nat := s.foldl (fun a c => a * 16 + hexDigit c) 0

def hexToBytes (s : String) : List Nat :=
  let rec go : List Char → List Nat
    | a :: b :: r => (hexDigit a * 16 + hexDigit b) :: go r
    | _ => []
  go s.toList

def nibble (n : Nat) : Char := "0123456789abcdef".toList.getD n '0'

def bytesToHex (l : List Nat) : String :=
  String.ofList (l.flatMap (fun b => [nibble (b / 16 % 16), nibble (b % 16)]))

def idToHex (n : Nat) : String := bytesToHex (be 16 n)

def ttlToString : TTL → String
  | .forever => "forever"
  | .ephemeral => "ephemeral"
  | .time ms => s!"time:{ms}"
  | .head n => s!"head:{n}"

def ttlOfString (s : String) : Option TTL :=
  if s = "forever" then some .forever
  else if s = "ephemeral" then some .ephemeral
  else if s.startsWith "time:" then (s.drop 5).toString.toNat?.map .time
  else if s.startsWith "head:" then (s.drop 5).toString.toNat?.map .head
  else none

def optStr (j : Json) (k : String) : Option String :=
  match j.getObjVal? k with
  | .ok (.str s) => some s
  | _ => none

def optNat (j : Json) (k : String) : Option Nat :=
  match j.getObjVal? k with
  | .ok v => match v.getNat? with | .ok n => some n | _ => none
  | _ => none

/-- nesting depth of a JSON value (arrays / objects) -/
partial def jsonDepth : Json → Nat
  | .arr a => 1 + a.foldl (fun m x => max m (jsonDepth x)) 0
  | .obj kvs => 1 + kvs.foldl (fun m _ v => max m (jsonDepth v)) 0
  | _ => 0

/-- does the frame's JSON read back: the frame object adds one level to the meta's nesting,
    and serde_json refuses more than `Xs.Wire.maxDepth` (XsModel/Json.lean) -/
def metaDecodable (m : Option String) : Bool :=
  match m with
  | none => true
  | some t => match Json.parse t with
    | .ok j => decide (jsonDepth j + 1 ≤ Xs.Wire.maxDepth)
    | .error _ => false

def frameOfJson (j : Json) : Frame :=
  { topic := hexToBytes ((optStr j "topic").getD "")
    ctx := hexToNat ((optStr j "ctx").getD "0")
    id := hexToNat ((optStr j "id").getD "0")
    hash := optStr j "hash"
    mdata := optStr j "meta"
    ttl := (optStr j "ttl").bind ttlOfString
    decodable := metaDecodable (optStr j "meta") }

def optJ (o : Option String) : Json := match o with | some s => .str s | none => .null

def frameToJson (f : Frame) : Json :=
  Json.mkObj [("id", .str (idToHex f.id)), ("ctx", .str (idToHex f.ctx)),
    ("topic", .str (bytesToHex f.topic)), ("hash", optJ f.hash), ("meta", optJ f.mdata),
    ("ttl", optJ (f.ttl.map ttlToString))]

def errToString : Err → String
  | .invalidContext => "invalid-context"
  | .ctxFrameNotZero => "ctx-frame-not-zero"
  | .nulInTopic => "nul-in-topic"
  | .undecodable => "undecodable"

def okJ (j : Json) : Json := Json.mkObj [("ok", j)]
def errJ (s : String) : Json := Json.mkObj [("err", .str s)]
def framesJ (l : List Frame) : Json := .arr (l.map frameToJson).toArray

def dumpJ (s : State) : Json :=
  Json.mkObj [
    ("stream", .arr (s.stream.map (fun kv => Json.arr #[.str (bytesToHex kv.1), frameToJson kv.2])).toArray),
    ("idx_topic", .arr (s.idxT.map (fun kv => Json.str (bytesToHex kv.1))).toArray),
    ("idx_context", .arr (s.idxC.map (fun kv => Json.str (bytesToHex kv.1))).toArray),
    ("contexts", .arr ((s.contexts.mergeSort (· ≤ ·)).map (fun c => Json.str (idToHex c))).toArray),
    ("gcq", .num s.gcq.length)]

def arrOf (j : Json) (k : String) : List Json :=
  match j.getObjVal? k with
  | .ok (.arr a) => a.toList
  | _ => []

/-- adopt the implementation's dumped partitions / registry (per-step refinement
    check: every step is compared from the implementation's actual pre-state);
    the gc queue and broadcast log are not observable and stay the model's. -/
def stateOfDump (d : Json) (s : State) : State :=
  { s with
    stream := (arrOf d "stream").filterMap (fun kv => match kv with
      | .arr #[.str k, fj] => some (hexToBytes k, frameOfJson fj)
      | _ => none)
    idxT := (arrOf d "idx_topic").filterMap (fun k => match k with
      | .str k => some (hexToBytes k, ()) | _ => none)
    idxC := (arrOf d "idx_context").filterMap (fun k => match k with
      | .str k => some (hexToBytes k, ()) | _ => none)
    contexts := (arrOf d "contexts").filterMap (fun k => match k with
      | .str k => some (hexToNat k) | _ => none) }

/-- one model step; returns the new state and the model's observation -/
def storeStep (s : State) (op obs : Json) : State × Json :=
  let kind := (optStr op "op").getD ""
  let ctxO := (optStr op "ctx").map hexToNat
  let lastO := (optStr op "last").map hexToNat
  let limitO := optNat op "limit"
  let now := (optNat op "now").getD 0
  match kind with
  | "open" => (s.reopen, okJ .null)
  | "exit" => (s, okJ .null)
  | "clock" => (s, okJ .null)
  | "append" =>
    -- nondeterministic input: the id the implementation assigned (if it got that far)
    let assigned : Option Nat := match obs.getObjVal? "ok" with
      | .ok fj => (optStr fj "id").map hexToNat
      | _ => none
    (match s.append (frameOfJson op) (assigned.getD 0) with
      | .ok (s', f) => (s', okJ (frameToJson f))
      | .error e => (s, errJ (errToString e)))
  | "import" =>
    (match op.getObjVal? "frame" with
      | .ok fj => (match s.insertFrame (frameOfJson fj) with
        | .ok s' => (s', okJ .null)
        | .error e => (s, errJ (errToString e)))
      | _ => (s, errJ "bad-op"))
  | "remove" => (s.remove (hexToNat ((optStr op "id").getD "0")), okJ .null)
  | "get" => (s, okJ (match s.get (hexToNat ((optStr op "id").getD "0")) with
      | some f => frameToJson f | none => .null))
  | "head" => (s, okJ (match s.head (hexToBytes ((optStr op "topic").getD "")) (ctxO.getD 0) with
      | some f => frameToJson f | none => .null))
  | "read_sync" => let (s', fs) := s.readSync ctxO lastO limitO now; (s', okJ (framesJ fs))
  | "read" => let (s', fs) := s.readHist ctxO lastO limitO now; (s', okJ (framesJ fs))
  | "gc" => ((List.range ((optNat op "n").getD 1)).foldl (fun s _ => s.gcStep) s, okJ .null)
  | "drain" => (s.drain, okJ .null)
  | "dump" => (s, okJ (dumpJ s))
  | _ => (s, errJ "bad-op")

partial def storeLoop (h : IO.FS.Stream) (s : State) (now : Nat) (i : Nat) : IO Unit := do
  let line ← h.getLine
  if line.isEmpty then return ()
  match Json.parse line with
  | .error e => IO.println (Json.mkObj [("i", .num i), ("parse-error", .str e)]).compress; storeLoop h s now (i+1)
  | .ok j =>
    match j.getObjVal? "case" with
    | .ok c => IO.println (Json.mkObj [("case", c)]).compress; storeLoop h State.init 0 0
    | _ =>
      let op := (j.getObjVal? "op").toOption.getD .null
      let obs := (j.getObjVal? "obs").toOption.getD .null
      -- the clock is part of the trace: `clock`/`open` set it, reads use it
      let now : Nat := match optStr op "op", optNat op "now" with
        | some "clock", some n => n
        | some "open", some n => n
        | _, _ => now
      let op' := op.setObjVal! "now" (.num now)
      let (s', m) := storeStep s op' obs
      -- {"quiet":true}: a step of a long set-up history; its post-state is not asked for
      let quiet := match j.getObjVal? "quiet" with | .ok (.bool b) => b | _ => false
      if quiet then IO.println (Json.mkObj [("i", .num i), ("model", m)]).compress
      else IO.println (Json.mkObj [("i", .num i), ("model", m), ("post", dumpJ s')]).compress
      let s'' := match j.getObjVal? "dump" with
        | .ok d => stateOfDump d s'
        | _ => s'
      storeLoop h s'' now (i+1)

/-! ### follow LTS driver -/
open Xs.Follow in
def roptsOfJson (j : Json) : ROpts :=
  let follow := match j.getObjVal? "follow" with
    | .ok (.str "on") => (true, false)
    | .ok (.num _) => (true, true)
    | _ => (false, false)
  { follow := follow.1, heartbeat := follow.2
    tail := (match j.getObjVal? "tail" with | .ok (.bool b) => b | _ => false)
    last := (optStr j "last").map hexToNat
    limit := optNat j "limit"
    ctx := (optStr j "ctx").map hexToNat }

open Xs.Follow in
def outJ : Out → Json
  | .frame f => Json.mkObj [("frame", .str (idToHex f.id))]
  | .threshold => Json.mkObj [("threshold", .bool true)]
  | .pulse => Json.mkObj [("pulse", .bool true)]

open Xs.Follow in
def followFinalJ (s : Sys) : Json :=
  match s.reader with
  | none => Json.mkObj [("reader", .null)]
  | some r => Json.mkObj [
      ("out", .arr (r.out.map outJ).toArray), ("closed", .bool r.closed), ("lagged", .bool r.lagged),
      ("queue", .num r.queue.length), ("committed", .arr (s.committed.map (fun f => Json.str (idToHex f.id))).toArray),
      ("bcast", .arr (s.bcast.map (fun f => Json.str (idToHex f.id))).toArray)]

open Xs.Follow in
partial def followLoop (h : IO.FS.Stream) (s : Sys) (i : Nat) : IO Unit := do
  let line ← h.getLine
  if line.isEmpty then return ()
  match Json.parse line with
  | .error e => IO.println (Json.mkObj [("i", .num i), ("parse-error", .str e)]).compress; followLoop h s (i+1)
  | .ok j =>
    match j.getObjVal? "case" with
    | .ok c =>
      IO.println (Json.mkObj [("case", c)]).compress
      let hist := (arrOf j "history").map frameOfJson
      let cap := (optNat j "cap").getD 1024
      let s0 : Sys := { committed := hist, lastId := hist.foldl (fun m f => max m f.id) 0, bcast := hist, cap := cap }
      followLoop h s0 0
    | _ =>
      match optStr j "act" with
      | some "final" =>
        IO.println (Json.mkObj [("i", .num i), ("final", followFinalJ s)]).compress
        followLoop h s (i+1)
      | some a =>
        let act : Option Act := match a with
          | "appendId" => (j.getObjVal? "frame").toOption.map (fun fj => let f := frameOfJson fj; Act.appendId f f.id)
          | "appendCommit" => some .appendCommit
          | "appendBroadcast" => some .appendBroadcast
          | "appendAbort" => some .appendAbort
          | "subscribe" => some (.subscribe (roptsOfJson ((j.getObjVal? "opts").toOption.getD .null)) (s.lastId + 1))
          | "histSend" => some (.r .histSend)
          | "histEnd" => some (.r .histEnd)
          | "liveRecv" => some (.r .liveRecv)
          | "liveEnd" => some (.r .liveEnd)
          | "pulse" => some (.r .pulse)
          | _ => none
        match act with
        | none => IO.println (Json.mkObj [("i", .num i), ("bad-act", .str a)]).compress; followLoop h s (i+1)
        | some act =>
          -- what the model expects the implementation to be handling at this point
          let expect : Json := match act, s.reader with
            | .r .histSend, some r => (match nextFrame s.committed r.opts.ctx r.cursor with
                | some f => .str (idToHex f.id) | none => .null)
            | .r .liveRecv, some r => (match r.queue with | f :: _ => .str (idToHex f.id) | [] => .null)
            | _, _ => .null
          match step s act with
          | some s' =>
            IO.println (Json.mkObj [("i", .num i), ("enabled", .bool true), ("expect", expect)]).compress
            followLoop h s' (i+1)
          | none =>
            IO.println (Json.mkObj [("i", .num i), ("enabled", .bool false), ("expect", expect)]).compress
            followLoop h s (i+1)
      | none => followLoop h s (i+1)

/-! ### wire formats driver -/
open Xs.Wire in
def textOf (s : String) : Text := s.toList.map Char.toNat
open Xs.Wire in
def stringOf (t : Text) : String := String.ofList (t.map Char.ofNat)

open Xs.Wire in
partial def jOfJson : Json → J
  | .null => .null
  | .bool b => .bool b
  | .num n => .num (textOf (toString n))
  | .str s => .str (textOf s)
  | .arr a => .arr (a.toList.map jOfJson)
  | .obj kvs => .obj (kvs.toList.map (fun (k, v) => (textOf k, jOfJson v)))

open Xs.Wire in
def ttlJ (t : TTL) : Json := .str (stringOf (printTTL t))

open Xs.Wire in
def optsJ (o : ReadOpts) : Json :=
  Json.mkObj [
    ("follow", match o.follow with | .off => .str "off" | .on => .str "on" | .heartbeat ms => .num ms),
    ("tail", .bool o.tail),
    ("last", match o.lastId with | some i => .str (idToHex i) | none => .null),
    ("limit", match o.limit with | some n => .num n | none => .null),
    ("ctx", match o.contextId with | some i => .str (idToHex i) | none => .null)]

open Xs.Wire in
/-- `TTL::from_query`: the pairs go into a HashMap (a later duplicate wins); no `ttl` = default -/
def ttlFromQuery (q : Text) : Res TTL :=
  match ((parseQuery q).filter (fun kv => kv.1 = kTtl)).getLast? with
  | some kv => parseTTL kv.2
  | none => .ok .forever

open Xs.Wire in
def wireStep (j : Json) : Json :=
  let kind := (optStr j "kind").getD ""
  let s := (optStr j "s").getD ""
  let bad (e : String) := Json.mkObj [("err", .str e)]
  match kind with
  | "ttl" => (match parseTTL (textOf s) with | .ok t => okJ (ttlJ t) | .err _ => bad "bad-ttl")
  | "ttl_query" => (match ttlFromQuery (textOf s) with | .ok t => okJ (ttlJ t) | .err _ => bad "bad-ttl")
  | "opts_query" => (match fromQuery (textOf s) with | .ok o => okJ (optsJ o) | .err _ => bad "bad-query")
  | "opts_print" =>
    let oj := (j.getObjVal? "opts").toOption.getD .null
    let o : ReadOpts := {
      follow := (match oj.getObjVal? "follow" with
        | .ok (.str "on") => .on
        | .ok (.num n) => .heartbeat n.mantissa.toNat
        | _ => .off)
      tail := (match oj.getObjVal? "tail" with | .ok (.bool b) => b | _ => false)
      lastId := (optStr oj "last").map hexToNat
      limit := optNat oj "limit"
      contextId := (optStr oj "ctx").map hexToNat }
    okJ (.str (stringOf (toQuery o)))
  | "id" => (match parseId (textOf s) with | some i => okJ (.str (idToHex i)) | none => bad "bad-id")
  | "frame_json" =>
    (match Json.parse s with
     | .error _ => bad "bad-json"
     | .ok fj =>
       -- hash validity is the ssri crate's: the harness tells us what it accepted
       let hs : HashSpec := ⟨fun _ => (match j.getObjVal? "hash_valid" with | .ok (.bool b) => b | _ => true)⟩
       match decodeFrame hs (jOfJson fj) with
       | .ok f => okJ (Json.mkObj [("id", .str (idToHex f.id)), ("ctx", .str (idToHex f.ctx)),
           ("topic", .str (bytesToHex ((stringOf f.topic).toUTF8.toList.map (·.toNat)))),
           ("hash", match f.hash with | some h => .str (stringOf h) | none => .null),
           ("meta", match f.mdata with | some _ => (fj.getObjVal? "meta").toOption.getD .null | none => .null),
           ("ttl", match f.ttl with | some t => ttlJ t | none => .null)])
       | .error _ => bad "bad-json")
  | _ => bad "unknown-kind"

partial def wireLoop (h : IO.FS.Stream) : IO Unit := do
  let line ← h.getLine
  if line.isEmpty then return ()
  match Json.parse line with
  | .error e => IO.println (Json.mkObj [("parse-error", .str e)]).compress
  | .ok j => IO.println (wireStep j).compress
  wireLoop h

/-! ### HTTP front-end driver -/
open Xs.Http Xs.Wire in
def respJ : Resp → Json
  | .version => Json.mkObj [("status", .num 200), ("kind", .str "version")]
  | .frame f => Json.mkObj [("status", .num 200), ("kind", .str "frame"), ("frame", frameToJson f)]
  | .frames sse fs => Json.mkObj [("status", .num 200), ("kind", .str "frames"), ("sse", .bool sse), ("frames", framesJ fs)]
  | .following sse hist th c t => Json.mkObj [("status", .num 200), ("kind", .str "following"), ("sse", .bool sse),
      ("frames", framesJ hist), ("threshold", .bool th),
      ("sub_ctx", match c with | some c => .str (idToHex c) | none => .null),
      ("topic_filter", match t with | some t => .str (bytesToHex t) | none => .null)]
  | .content b => Json.mkObj [("status", .num 200), ("kind", .str "content"), ("body_hex", .str (bytesToHex b))]
  | .hashText h => Json.mkObj [("status", .num 200), ("kind", .str "hash"), ("hash", .str h)]
  | .noContent => Json.mkObj [("status", .num 204), ("kind", .str "empty")]
  | .notFound => Json.mkObj [("status", .num 404), ("kind", .str "empty")]
  | .badRequest => Json.mkObj [("status", .num 400), ("kind", .str "error")]

open Xs.Http Xs.Wire in
def requestOfJson (j : Json) (now : Nat) : Request :=
  let target := (optStr j "target").getD "/"
  let (path, query) := match target.splitOn "?" with
    | [p] => (p, none)
    | p :: rest => (p, some ("?".intercalate rest))
    | [] => ("/", none)
  let method := match (optStr j "method").getD "GET" with
    | "GET" => Method.get | "POST" => .post | "DELETE" => .delete | _ => .other
  let hx := j.getObjVal? "hx" |>.toOption |>.getD .null
  let xsMeta : MetaIn := match (optStr hx "meta_class").getD "absent" with
    | "absent" => .absent
    | "notAscii" => .notAscii
    | "badBase64" => .badBase64
    | "badUtf8" => .badUtf8
    | "badJson" => .badJson
    | _ => .value ((optStr hx "meta_text").getD "null") ((match hx.getObjVal? "meta_null" with | .ok (.bool b) => b | _ => false))
  let metaText := optStr hx "meta_text"
  let importBody : ImportIn := match optStr hx "import_text" with
    | none => .badJson
    | some t => match Json.parse t with
      | .error _ => .badJson
      | .ok fj =>
        let hs : HashSpec := ⟨fun _ => (match hx.getObjVal? "hash_valid" with | .ok (.bool b) => b | _ => true)⟩
        match decodeFrame hs (jOfJson fj) with
        | .error _ => .badJson
        | .ok f =>
          let metaT : Option String := match f.mdata with
            | some _ => (fj.getObjVal? "meta").toOption.map (·.compress)
            | none => none
          .frame { topic := (stringOf f.topic).toUTF8.toList.map (·.toNat), ctx := f.ctx, id := f.id,
                   hash := f.hash.map stringOf, mdata := metaT, ttl := f.ttl, decodable := metaDecodable metaT }
  { method := method, path := textOf path, query := query.map textOf,
    acceptSse := (match hx.getObjVal? "sse" with | .ok (.bool b) => b | _ => false),
    xsMeta := xsMeta, body := hexToBytes ((optStr j "body_hex").getD ""),
    bodyHash := (optStr hx "body_hash").getD "", casHash := optStr hx "cas_hash",
    importBody := importBody, newId := hexToNat ((optStr hx "new_id").getD "0"), now := now,
    metaDecodable := metaDecodable (match xsMeta with | .value t false => some t | _ => none),
    bodyBroken := (match hx.getObjVal? "body_broken" with | .ok (.bool b) => b | _ => false) }

open Xs.Http in
partial def httpLoop (h : IO.FS.Stream) (s : Srv) (now : Nat) (i : Nat) : IO Unit := do
  let line ← h.getLine
  if line.isEmpty then return ()
  match Json.parse line with
  | .error e => IO.println (Json.mkObj [("i", .num i), ("parse-error", .str e)]).compress; httpLoop h s now (i+1)
  | .ok j =>
    match j.getObjVal? "case" with
    | .ok c => IO.println (Json.mkObj [("case", c)]).compress; httpLoop h {} 0 0
    | _ =>
      let op := (j.getObjVal? "op").toOption.getD .null
      let obs := (j.getObjVal? "obs").toOption.getD .null
      let now : Nat := match optStr op "op", optNat op "now" with
        | some "clock", some n => n
        | some "open", some n => n
        | _, _ => now
      let (s', m) : Srv × Json := match optStr op "op" with
        | some "http" =>
          let (s', r) := handle s (requestOfJson op now)
          (s', respJ r)
        | some "http_bg" =>
          let (s', r) := handle s (requestOfJson op now)
          (s', respJ r)
        | some "http_collect" => (s, okJ .null)
        | some "serve" =>
          -- `api::serve` appends an `xs.start` frame before it listens
          let f0 : Frame := { topic := [120, 115, 46, 115, 116, 97, 114, 116], ctx := 0, id := 0, hash := none, mdata := none, ttl := none }
          let assigned : Nat := match obs.getObjVal? "ok" with
            | .ok fj => hexToNat ((optStr fj "id").getD "0")
            | _ => 0
          (match s.store.append f0 assigned with
           | .ok (st, f) => ({ s with store := st }, okJ (frameToJson f))
           | .error e => (s, errJ (errToString e)))
        | some "cas_has" =>
          (s, okJ (match casGet s.cas ((optStr op "hash").getD "") with | some b => .str (bytesToHex b) | none => .null))
        | _ =>
          let (st, m) := storeStep s.store (op.setObjVal! "now" (.num now)) obs
          ({ s with store := st }, m)
      IO.println (Json.mkObj [("i", .num i), ("model", m), ("post", dumpJ s'.store)]).compress
      let s'' := match j.getObjVal? "dump" with
        | .ok d => { s' with store := stateOfDump d s'.store }
        | _ => s'
      httpLoop h s'' now (i+1)

/-! ### serve mode: handler instances and the start-up scan (XsModel/Handler, XsModel/Registry) -/
section ServeMode
open Xs.Serve

def sMetaOfJson (j : Json) : Option (List (String × String)) :=
  match j with
  | .arr a => some (a.toList.filterMap (fun kv => match kv with
      | .arr #[.str k, .str v] => some (k, v)
      | _ => none))
  | _ => none

def sframeOfJson (j : Json) : SFrame :=
  { topic := (optStr j "topic").getD "", ctx := hexToNat ((optStr j "ctx").getD "0"),
    id := hexToNat ((optStr j "id").getD "0"),
    mdata := match j.getObjVal? "meta" with | .ok m => sMetaOfJson m | _ => none,
    ttl := (optStr j "ttl").bind ttlOfString,
    content := optStr j "content" }

def sMetaJ (m : Option (List (String × String))) : Json :=
  match m with
  | none => .null
  | some l => .arr (l.map (fun kv => Json.arr #[.str kv.1, .str kv.2])).toArray

def sframeJ (f : SFrame) : Json :=
  Json.mkObj [("topic", .str f.topic), ("ctx", .str (idToHex f.ctx)), ("id", .str (idToHex f.id)),
    ("meta", sMetaJ f.mdata), ("ttl", match f.ttl with | some t => .str (ttlToString t) | none => .null),
    ("content", optJ f.content)]

/-- the behaviour table a generated nushell closure is rendered from -/
structure Rule where
  topic : String            -- "" = any topic
  appends : List OutReq
  ret : Ret
  fail : Bool

def substN (n : Nat) (s : String) : String := s.replace "{n}" (toString n)

/-- meta values travel as JSON text: the meta object adds one level to their nesting, the frame
    another; serde_json reads back at most `Xs.Wire.maxDepth` levels -/
def sMetaDecodable (m : Option (List (String × String))) : Bool :=
  match m with
  | none => true
  | some l => l.all (fun kv => match Json.parse kv.2 with
      | .ok j => decide (jsonDepth j + 2 ≤ Xs.Wire.maxDepth)
      | .error _ => true)

def outReqOfJson (j : Json) : OutReq :=
  let m := match j.getObjVal? "meta" with | .ok m => sMetaOfJson m | _ => none
  { topic := (optStr j "topic").getD "", mdata := m,
    ttl := (optStr j "ttl").bind ttlOfString, ctxReq := (optStr j "ctx").map hexToNat,
    content := optStr j "content", decodable := sMetaDecodable m }

def ruleOfJson (j : Json) : Rule :=
  { topic := (optStr j "topic").getD "", appends := (arrOf j "appends").map outReqOfJson,
    ret := match optStr j "ret" with | some v => .value v | none => .nothing,
    fail := match j.getObjVal? "fail" with | .ok (.bool b) => b | _ => false }

/-- every call counts (`$env.n = $env.n + 1`); the first matching rule decides -/
def evalRules (rules : List Rule) (env : Nat) (f : SFrame) : Nat × EvalRes :=
  let n := env + 1
  match rules.find? (fun r => r.topic == "" || r.topic == f.topic) with
  | none => (n, .ok [] .nothing)
  | some r =>
    if r.fail then (n, .error "boom")
    else (n, .ok (r.appends.map (fun o => { o with content := o.content.map (substN n) }))
      (match r.ret with | .value v => .value (substN n v) | .nothing => .nothing))

def hcfgOfJson (j : Json) : HCfg :=
  { id := hexToNat ((optStr j "id").getD "0"), ctx := hexToNat ((optStr j "ctx").getD "0"),
    name := (optStr j "name").getD "", suffix := (optStr j "suffix").getD ".out",
    ttl := (optStr j "ttl").bind ttlOfString }

def serveStep (j : Json) : Json :=
  match optStr j "q" with
  | some "handler" =>
    let cfg := hcfgOfJson ((j.getObjVal? "cfg").toOption.getD .null)
    let rules := (arrOf j "rules").map ruleOfJson
    let env0 := (optNat j "env0").getD 0
    let hist := (arrOf j "hist").map sframeOfJson
    let live := (arrOf j "live").map sframeOfJson
    let resume : Resume := match j.getObjVal? "resume" with
      | .ok (.str "head") => .head
      | .ok (.str "tail") => .tail
      | .ok o => match optStr o "after" with | some h => .after (hexToNat h) | none => .tail
      | _ => .tail
    let thr : SFrame := { topic := "xs.threshold", ctx := cfg.ctx, id := 0, ttl := some .ephemeral }
    let input := subscription cfg resume hist live thr
    let r := run cfg (evalRules rules) .running env0 input
    Json.mkObj [("state", .str (match r.1 with | .running => "running" | .stopped => "stopped")),
      ("env", .num r.2.1), ("outs", .arr (r.2.2.1.map sframeJ).toArray),
      ("invoked", .arr (r.2.2.2.map (fun p => Json.str (idToHex p.2.id))).toArray)]
  | some "compact" =>
    let history := (arrOf j "history").map sframeOfJson
    let live := (arrOf j "live").map sframeOfJson
    let invalid := (arrOf j "invalid").filterMap (fun x => match x with | .str s => some (hexToNat s) | _ => none)
    let tails := (arrOf j "tail").filterMap (fun x => match x with | .str s => some (hexToNat s) | _ => none)
    let infos : List StartInfo := (startOrder history live).map (fun r =>
      let valid := !invalid.contains r.id
      let name := match classify r.topic with | some (n, _) => n | none => ""
      let cfg : HCfg := { id := r.id, ctx := r.ctx, name := name }
      { hid := r.id, valid := valid,
        supersededBy := if valid && tails.contains r.id then (laterTraffic cfg (history ++ live)).map (·.id) else none })
    Json.mkObj [("starts", .arr (infos.map (fun i => Json.mkObj [("hid", .str (idToHex i.hid)), ("valid", .bool i.valid),
      ("superseded_by", match i.supersededBy with | some f => .str (idToHex f) | none => .null)])).toArray),
      ("n_history", .num (compact history).length)]
  | some "command" =>
    -- defs: what each `.define` frame parses to (by frame id); behaviour per definition
    let defs := arrOf j "defs"
    let findDef (id : Nat) : Option Json := defs.find? (fun d => hexToNat ((optStr d "id").getD "0") == id)
    let parse : SFrame → Except String CDef := fun f =>
      match findDef f.id with
      | some d =>
        if (match d.getObjVal? "valid" with | .ok (.bool b) => b | _ => true) then
          .ok { id := f.id, ctx := f.ctx, name := (optStr d "name").getD "", suffix := (optStr d "suffix").getD ".recv", ttl := (optStr d "ttl").bind ttlOfString }
        else .error "invalid"
      | none => .error "unknown"
    let eval : CDef → SFrame → CallRes := fun d _ =>
      match findDef d.id with
      | some dj =>
        let appends := (arrOf dj "appends").map outReqOfJson
        let appends := appends.map (fun o => { o with content := o.content.map (substN 1) })
        let values := (arrOf dj "values").filterMap (fun v => match v with | .str s => some (substN 1 s) | _ => none)
        if (match dj.getObjVal? "fail" with | .ok (.bool b) => b | _ => false) then .error appends values "boom"
        else .ok appends values
      | none => .error [] [] "unknown"
    let history := (arrOf j "history").map sframeOfJson
    let live := (arrOf j "live").map sframeOfJson
    let r := cmdServe parse eval history live
    Json.mkObj [
      ("table", .arr (r.1.map (fun e => Json.mkObj [("ctx", .str (idToHex e.key.1)), ("name", .str e.key.2),
        ("id", .str (idToHex e.d.id))])).toArray),
      ("outs", .arr (r.2.map (fun p => Json.mkObj [("frame", .str (idToHex p.1.id)),
        ("outs", .arr (p.2.map sframeJ).toArray)])).toArray)]
  | some "generator" =>
    let history := (arrOf j "history").map sframeOfJson
    let live := (arrOf j "live").map sframeOfJson
    let dup := (arrOf j "duplex").filterMap (fun x => match x with | .str s => some (hexToNat s) | _ => none)
    let duplexOf : SFrame → Bool := fun f => dup.contains f.id
    let bad := (arrOf j "unparsable").filterMap (fun x => match x with | .str s => some (hexToNat s) | _ => none)
    let parses : SFrame → Bool := fun f => !bad.contains f.id
    -- start-up: the compacted spawns go through the same acceptance as live ones
    let restarted := gcompact history
    let r0 := genRun duplexOf parses [] restarted
    let r := genRun duplexOf parses r0.1 live
    let actJ : GAct → Json := fun a => match a with
      | .start t => Json.mkObj [("start", .str (idToHex t.id)), ("ctx", .str (idToHex t.ctx)), ("name", .str t.name),
          ("duplex", .bool t.duplex)]
      | .reject e => Json.mkObj [("reject", sframeJ e)]
    Json.mkObj [("restarted", .arr (restarted.map (fun f => Json.str (idToHex f.id))).toArray),
      ("startup", .arr (r0.2.map actJ).toArray), ("live", .arr (r.2.map actJ).toArray)]
  | some "lifecycle" =>
    let tj := (j.getObjVal? "task").toOption.getD .null
    let isDup : Bool := match tj.getObjVal? "duplex" with | .ok (.bool b) => b | _ => false
    let t : GTask := { id := hexToNat ((optStr tj "id").getD "0"), ctx := hexToNat ((optStr tj "ctx").getD "0"), name := (optStr tj "name").getD "", duplex := isDup }
    let strings := (arrOf j "strings").filterMap (fun v => match v with | .str s => some s | _ => none)
    let stream := (arrOf j "stream").map sframeOfJson
    let startId := hexToNat ((optStr j "start_id").getD "0")
    if t.duplex then
      let input := duplexInput t startId stream
      let prefix_ := (optStr j "prefix").getD ""
      Json.mkObj [("frames", .arr ((duplexLifecycle t (input.map (fun x => prefix_ ++ x))).map sframeJ).toArray),
        ("input", .arr (input.map Json.str).toArray)]
    else
      Json.mkObj [("frames", .arr ((lifecycle t strings).map sframeJ).toArray)]
  | _ => Json.mkObj [("err", .str "bad-q")]

partial def serveLoop (h : IO.FS.Stream) : IO Unit := do
  let line ← h.getLine
  if line.isEmpty then return ()
  if line.trimAscii.toString.isEmpty then serveLoop h else
  match Json.parse line with
  | .error e =>
    IO.println (Json.mkObj [("err", .str ("parse:" ++ e))]).compress
    (← IO.getStdout).flush
    serveLoop h
  | .ok j =>
    IO.println (serveStep j).compress
    (← IO.getStdout).flush
    serveLoop h

end ServeMode

def main (args : List String) : IO UInt32 := do
  let stdin ← IO.getStdin
  match args with
  | ["store"] => storeLoop stdin State.init 0 0; return 0
  | ["follow"] => followLoop stdin {} 0; return 0
  | ["wire"] => wireLoop stdin; return 0
  | ["http"] => httpLoop stdin {} 0 0; return 0
  | ["serve"] => serveLoop stdin; return 0
  | _ => IO.eprintln "usage: xsdrv store"; return 2
