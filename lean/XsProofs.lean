import XsProofs.Bytes
import XsProofs.Part
import XsProofs.ListAux
import XsProofs.Inv
import XsProofs.Ops
import XsProofs.Reads
