/-
  Every store operation preserves the invariant.
-/
import XsProofs.Inv
namespace Xs
open Part

attribute [local irreducible] be unbe

theorem invK_congr {s s' : State} (h : InvK s) (e1 : s'.stream = s.stream)
    (e2 : s'.idxT = s.idxT) (e3 : s'.idxC = s.idxC) : InvK s' := by
  have ef : frames s' = frames s := by simp [frames, e1]
  refine ⟨e1 ▸ h.sS, e2 ▸ h.sT, e3 ▸ h.sC, ?_, ?_, ?_⟩
  · rw [e1]; exact h.wf
  · rw [e2, ef]; exact h.tKeys
  · rw [e3, ef]; exact h.cKeys

theorem mem_ctxInsert {c a : Nat} {l : List Nat} : c ∈ ctxInsert a l ↔ c = a ∨ c ∈ l := by
  unfold ctxInsert
  split
  · rename_i h
    constructor
    · exact Or.inr
    · rintro (rfl | h'); exact h; exact h'
  · simp

theorem nodup_ctxInsert {a : Nat} {l : List Nat} (h : l.Nodup) : (ctxInsert a l).Nodup := by
  unfold ctxInsert
  split
  · exact h
  · rename_i hn; exact List.nodup_cons.2 ⟨hn, h⟩

/-- the frame stored under `f.id` before the write, if any -/
def baseOf (s : State) (f : Frame) : State :=
  match s.get f.id with
  | none => s
  | some o => rawDelete s o

theorem insertFrameCore_parts {s : State} (h : InvK s) {f : Frame} (wf : WfFrame f) :
    (s.insertFrameCore f).stream = (rawAdd (baseOf s f) f).stream ∧
    (s.insertFrameCore f).idxT = (rawAdd (baseOf s f) f).idxT ∧
    (s.insertFrameCore f).idxC = (rawAdd (baseOf s f) f).idxC := by
  unfold baseOf
  cases hg : s.get f.id with
  | none => simp [State.insertFrameCore, rawAdd, hg]
  | some o =>
    obtain ⟨ho, hk⟩ := h.get_eq_some_iff.1 hg
    have wo := h.wfFrame ho
    have hid : o.id = f.id := idKey_inj wo.id_lt wf.id_lt hk
    have hnul : hasNul o.topic = false := hasNul_eq_false_iff.2 wo.nul
    refine ⟨?_, ?_, ?_⟩
    · simp only [State.insertFrameCore, rawAdd, rawDelete, hid]
      exact (insert_erase_self h.sS).symm
    · simp only [State.insertFrameCore, rawAdd, rawDelete, hg, hnul]
      by_cases e : topicKey o.ctx o.topic o.id = topicKey f.ctx f.topic f.id
      · simp only [e, ne_eq, not_true_eq_false, decide_false, Bool.and_false, Bool.false_eq_true,
          if_false]
        exact (insert_erase_self h.sT).symm
      · simp [e]
    · simp only [State.insertFrameCore, rawAdd, rawDelete, hg]
      by_cases e : ctxKey o.ctx o.id = ctxKey f.ctx f.id
      · simp only [e, ne_eq, not_true_eq_false, if_false]
        exact (insert_erase_self h.sC).symm
      · simp [e]

theorem baseOf_invK {s : State} (h : InvK s) (f : Frame) : InvK (baseOf s f) := by
  unfold baseOf
  cases hg : s.get f.id with
  | none => exact h
  | some o => exact rawDelete_invK h (h.get_eq_some_iff.1 hg).1

theorem mem_frames_baseOf {s : State} (h : InvK s) {f : Frame} (wf : WfFrame f) (g : Frame) :
    g ∈ frames (baseOf s f) ↔ g ∈ frames s ∧ g.id ≠ f.id := by
  unfold baseOf
  cases hg : s.get f.id with
  | none =>
    have := (h.get_eq_none_iff wf.id_lt).1 hg
    exact ⟨fun hm => ⟨hm, this g hm⟩, fun hm => hm.1⟩
  | some o =>
    obtain ⟨ho, hk⟩ := h.get_eq_some_iff.1 hg
    have hid : o.id = f.id := idKey_inj (h.wfFrame ho).id_lt wf.id_lt hk
    rw [mem_frames_rawDelete h ho, hid]

/-- frames after `insert_frame`: the new frame replaces whatever had its id -/
theorem mem_frames_insertFrameCore {s : State} (h : InvK s) {f : Frame} (wf : WfFrame f)
    (g : Frame) : g ∈ frames (s.insertFrameCore f) ↔ g = f ∨ (g ∈ frames s ∧ g.id ≠ f.id) := by
  have hb := baseOf_invK h f
  have e : frames (s.insertFrameCore f) = frames (rawAdd (baseOf s f) f) := by
    simp [frames, (insertFrameCore_parts h wf).1]
  rw [e, mem_frames_rawAdd hb, mem_frames_baseOf h wf]
  constructor
  · rintro (e | ⟨⟨hg, hne⟩, _⟩)
    · exact Or.inl e
    · exact Or.inr ⟨hg, hne⟩
  · rintro (e | ⟨hg, hne⟩)
    · exact Or.inl e
    · exact Or.inr ⟨⟨hg, hne⟩, fun e => hne (idKey_inj (h.wfFrame hg).id_lt wf.id_lt e)⟩

theorem insertFrameCore_invK {s : State} (h : InvK s) {f : Frame} (wf : WfFrame f) :
    InvK (s.insertFrameCore f) := by
  have hb := baseOf_invK h f
  have fresh : ∀ g ∈ frames (baseOf s f), g.id ≠ f.id :=
    fun g hg => ((mem_frames_baseOf h wf g).1 hg).2
  obtain ⟨e1, e2, e3⟩ := insertFrameCore_parts h wf
  exact invK_congr (rawAdd_invK hb wf fresh) e1 e2 e3

/-- registry after `insert_frame`, allowing the id to have been pre-registered (append does
    `contexts.insert(id)` before storing an `xs.context` frame) -/
theorem insertFrameCore_ctxOk {s : State} (h : InvK s) {f : Frame} (wf : WfFrame f)
    (nd : s.contexts.Nodup)
    (lo : ∀ c, (c = 0 ∨ ∃ g ∈ frames s, g.id = c ∧ g.isReg = true) → c ∈ s.contexts)
    (hi : ∀ c, c ∈ s.contexts →
      c = 0 ∨ (∃ g ∈ frames s, g.id = c ∧ g.isReg = true) ∨ (f.isReg = true ∧ c = f.id)) :
    CtxOk (s.insertFrameCore f) := by
  have hmem := mem_frames_insertFrameCore h wf
  -- the contexts component, spelled out
  have hctx : (s.insertFrameCore f).contexts =
      (if f.isReg then ctxInsert f.id
        (match s.get f.id with
          | none => s.contexts
          | some o => if o.isReg && o.id ≠ 0 then s.contexts.erase o.id else s.contexts)
      else (match s.get f.id with
          | none => s.contexts
          | some o => if o.isReg && o.id ≠ 0 then s.contexts.erase o.id else s.contexts)) := rfl
  -- membership in the intermediate set C1
  have hC1 : ∀ c, c ∈ (match s.get f.id with
          | none => s.contexts
          | some o => if o.isReg && o.id ≠ 0 then s.contexts.erase o.id else s.contexts) ↔
        c ∈ s.contexts ∧ ¬ (c = f.id ∧ c ≠ 0 ∧ ∃ o ∈ frames s, o.id = f.id ∧ o.isReg = true) := by
    intro c
    cases hg : s.get f.id with
    | none =>
      have := (h.get_eq_none_iff wf.id_lt).1 hg
      simp only
      constructor
      · intro hc; exact ⟨hc, fun ⟨_, _, o, ho, e, _⟩ => this o ho e⟩
      · exact fun hc => hc.1
    | some o =>
      obtain ⟨ho, hk⟩ := h.get_eq_some_iff.1 hg
      have hid : o.id = f.id := idKey_inj (h.wfFrame ho).id_lt wf.id_lt hk
      simp only
      by_cases hr : (o.isReg && decide (o.id ≠ 0)) = true
      · simp only [hr, if_true]
        rw [List.Nodup.mem_erase_iff nd]
        simp only [Bool.and_eq_true, decide_eq_true_eq] at hr
        constructor
        · rintro ⟨hne, hc⟩
          exact ⟨hc, fun ⟨e, _, _⟩ => hne (by rw [e, hid])⟩
        · rintro ⟨hc, hn⟩
          refine ⟨fun e => hn ⟨by rw [e, hid], by rw [e]; exact hr.2, o, ho, hid, hr.1⟩, hc⟩
      · simp only [hr, if_false]
        constructor
        · intro hc
          refine ⟨hc, fun ⟨e, hc0, o', ho', e', hr'⟩ => hr ?_⟩
          have : o' = o := h.frame_unique ho' ho (by rw [e', hid])
          subst this
          simp only [Bool.and_eq_true, decide_eq_true_eq]
          exact ⟨hr', by rw [hid, ← e]; exact hc0⟩
        · exact fun hc => hc.1
  refine ⟨?_, ?_⟩
  · rw [hctx]
    have ndC1 : (match s.get f.id with
          | none => s.contexts
          | some o => if o.isReg && o.id ≠ 0 then s.contexts.erase o.id else s.contexts).Nodup := by
      cases s.get f.id with
      | none => exact nd
      | some o =>
        simp only
        split
        · exact List.Nodup.erase _ nd
        · exact nd
    split
    · exact nodup_ctxInsert ndC1
    · exact ndC1
  · intro c
    rw [hctx]
    have key : (c ∈ s.contexts ∧ ¬ (c = f.id ∧ c ≠ 0 ∧ ∃ o ∈ frames s, o.id = f.id ∧ o.isReg = true))
        ∨ (f.isReg = true ∧ c = f.id) ↔
        (c = 0 ∨ ∃ g ∈ frames (s.insertFrameCore f), g.id = c ∧ g.isReg = true) := by
      constructor
      · rintro (⟨hc, hn⟩ | ⟨hr, e⟩)
        · rcases hi c hc with e | ⟨g, hg, e, hr⟩ | ⟨hr, e⟩
          · exact Or.inl e
          · by_cases hcf : c = f.id
            · by_cases hc0 : c = 0
              · exact Or.inl hc0
              · exact absurd ⟨hcf, hc0, g, hg, by rw [e, hcf], hr⟩ hn
            · exact Or.inr ⟨g, (hmem g).2 (Or.inr ⟨hg, by rw [e]; exact hcf⟩), e, hr⟩
          · exact Or.inr ⟨f, (hmem f).2 (Or.inl rfl), e.symm, hr⟩
        · exact Or.inr ⟨f, (hmem f).2 (Or.inl rfl), e.symm, hr⟩
      · rintro (e | ⟨g, hg, e, hr⟩)
        · by_cases hrf : f.isReg = true ∧ c = f.id
          · exact Or.inr hrf
          · exact Or.inl ⟨lo c (Or.inl e), fun ⟨_, hc0, _⟩ => hc0 e⟩
        · rcases (hmem g).1 hg with e' | ⟨hg', hne⟩
          · subst e'; exact Or.inr ⟨hr, e.symm⟩
          · exact Or.inl ⟨lo c (Or.inr ⟨g, hg', e, hr⟩), fun ⟨e', _, _⟩ => hne (by rw [e, e'])⟩
    by_cases hr : f.isReg = true
    · simp only [hr, if_true, mem_ctxInsert, hC1]
      rw [← key]
      constructor
      · rintro (e | h'); exact Or.inr ⟨hr, e⟩; exact Or.inl h'
      · rintro (h' | ⟨_, e⟩); exact Or.inr h'; exact Or.inl e
    · have hr' : f.isReg = false := by simpa using hr
      simp only [hr', Bool.false_eq_true, if_false, hC1]
      rw [← key]
      constructor
      · exact Or.inl
      · rintro (h' | ⟨hr', _⟩); exact h'; exact absurd hr' hr

theorem insertFrameCore_inv {s : State} (h : Inv s) {f : Frame} (wf : WfFrame f) :
    Inv (s.insertFrameCore f) :=
  ⟨insertFrameCore_invK h.k wf,
   insertFrameCore_ctxOk h.k wf h.c.nodup (fun c hc => (h.c.iff c).2 hc)
     (fun c hc => by rcases (h.c.iff c).1 hc with e | e; exact Or.inl e; exact Or.inr (Or.inl e))⟩

/-- `POST /import` / `insert_frame`: accepted iff the topic has no NUL; then the invariant holds -/
theorem insertFrame_inv {s s' : State} (h : Inv s) {f : Frame} (hid : f.id < idBound)
    (hctx : f.ctx < idBound) (e : s.insertFrame f = .ok s') : Inv s' := by
  unfold State.insertFrame at e
  split at e
  · cases e
  · rename_i hn
    injection e with e; subst e
    exact insertFrameCore_inv h ⟨hid, hctx, hasNul_eq_false_iff.1 (by simpa using hn)⟩

/-! ### remove -/

theorem remove_eq {s : State} (h : InvK s) {id : Nat} {o : Frame} (hg : s.get id = some o) :
    (s.remove id).stream = (rawDelete s o).stream ∧ (s.remove id).idxT = (rawDelete s o).idxT ∧
    (s.remove id).idxC = (rawDelete s o).idxC ∧
    (s.remove id).contexts =
      (if o.isReg && o.id ≠ 0 then s.contexts.erase o.id else s.contexts) ∧
    (s.remove id).gcq = s.gcq ∧ (s.remove id).bcast = s.bcast := by
  obtain ⟨ho, hk⟩ := h.get_eq_some_iff.1 hg
  have hnul : hasNul o.topic = false := hasNul_eq_false_iff.2 (h.wfFrame ho).nul
  simp [State.remove, hg, hnul, rawDelete, hk]

theorem remove_none {s : State} {id : Nat} (hg : s.get id = none) : s.remove id = s := by
  simp [State.remove, hg]

theorem mem_frames_remove {s : State} (h : InvK s) {id : Nat} (hid : id < idBound) (g : Frame) :
    g ∈ frames (s.remove id) ↔ g ∈ frames s ∧ g.id ≠ id := by
  cases hg : s.get id with
  | none =>
    rw [remove_none hg]
    have := (h.get_eq_none_iff hid).1 hg
    exact ⟨fun hm => ⟨hm, this g hm⟩, fun hm => hm.1⟩
  | some o =>
    obtain ⟨ho, hk⟩ := h.get_eq_some_iff.1 hg
    have e : o.id = id := idKey_inj (h.wfFrame ho).id_lt hid hk
    have : frames (s.remove id) = frames (rawDelete s o) := by simp [frames, (remove_eq h hg).1]
    rw [this, mem_frames_rawDelete h ho, e]

theorem remove_inv {s : State} (h : Inv s) (id : Nat) : Inv (s.remove id) := by
  cases hg : s.get id with
  | none => rw [remove_none hg]; exact h
  | some o =>
    obtain ⟨ho, hk⟩ := h.k.get_eq_some_iff.1 hg
    obtain ⟨e1, e2, e3, e4, _, _⟩ := remove_eq h.k hg
    have hK : InvK (s.remove id) := invK_congr (rawDelete_invK h.k ho) e1 e2 e3
    have hf : ∀ g, g ∈ frames (s.remove id) ↔ g ∈ frames s ∧ g.id ≠ o.id := by
      intro g
      have : frames (s.remove id) = frames (rawDelete s o) := by simp [frames, e1]
      rw [this, mem_frames_rawDelete h.k ho]
    refine ⟨hK, ?_, ?_⟩
    · rw [e4]; split
      · exact List.Nodup.erase _ h.c.nodup
      · exact h.c.nodup
    · intro c
      rw [e4]
      by_cases hr : (o.isReg && decide (o.id ≠ 0)) = true
      · simp only [hr, if_true]
        rw [List.Nodup.mem_erase_iff h.c.nodup, h.c.iff]
        simp only [Bool.and_eq_true, decide_eq_true_eq] at hr
        constructor
        · rintro ⟨hne, e | ⟨g, hg', e, hr'⟩⟩
          · exact Or.inl e
          · exact Or.inr ⟨g, (hf g).2 ⟨hg', by rw [e]; exact hne⟩, e, hr'⟩
        · rintro (e | ⟨g, hg', e, hr'⟩)
          · exact ⟨by rw [e]; exact fun e' => hr.2 e'.symm, Or.inl e⟩
          · obtain ⟨hg'', hne⟩ := (hf g).1 hg'
            exact ⟨by rw [← e]; exact hne, Or.inr ⟨g, hg'', e, hr'⟩⟩
      · simp only [hr, Bool.false_eq_true, if_false]
        rw [h.c.iff]
        constructor
        · rintro (e | ⟨g, hg', e, hr'⟩)
          · exact Or.inl e
          · by_cases hgo : g.id = o.id
            · have : g = o := h.k.frame_unique hg' ho hgo
              subst this
              by_cases hc0 : c = 0
              · exact Or.inl hc0
              · exact absurd (by simp only [Bool.and_eq_true, decide_eq_true_eq]; exact ⟨hr', by rw [e]; exact hc0⟩) hr
            · exact Or.inr ⟨g, (hf g).2 ⟨hg', hgo⟩, e, hr'⟩
        · rintro (e | ⟨g, hg', e, hr'⟩)
          · exact Or.inl e
          · exact Or.inr ⟨g, ((hf g).1 hg').1, e, hr'⟩

/-! ### gc -/

theorem foldl_remove_inv {s : State} (h : Inv s) (ids : List Nat) :
    Inv (ids.foldl State.remove s) := by
  induction ids generalizing s with
  | nil => exact h
  | cons a l ih => exact ih (remove_inv h a)

theorem applyTask_inv {s : State} (h : Inv s) (t : GCTask) : Inv (s.applyTask t) := by
  cases t with
  | remove id => exact remove_inv h id
  | checkHead c t keep => exact foldl_remove_inv h _

theorem inv_of_parts {s s' : State} (h : Inv s) (e1 : s'.stream = s.stream)
    (e2 : s'.idxT = s.idxT) (e3 : s'.idxC = s.idxC) (e4 : s'.contexts = s.contexts) : Inv s' := by
  have ef : frames s' = frames s := by simp [frames, e1]
  exact ⟨invK_congr h.k e1 e2 e3, by rw [e4]; exact h.c.nodup, by rw [e4, ef]; exact h.c.iff⟩

theorem gcStep_inv {s : State} (h : Inv s) : Inv s.gcStep := by
  unfold State.gcStep
  split
  · exact h
  · rename_i t q _
    have h' : Inv ({ s with gcq := q }) := inv_of_parts h rfl rfl rfl rfl
    exact applyTask_inv h' t

theorem foldl_applyTask_inv {s : State} (h : Inv s) (ts : List GCTask) :
    Inv (ts.foldl State.applyTask s) := by
  induction ts generalizing s with
  | nil => exact h
  | cons a l ih => exact ih (applyTask_inv h a)

theorem drain_inv {s : State} (h : Inv s) : Inv s.drain := by
  have h' : Inv ({ s with gcq := [] }) := inv_of_parts h rfl rfl rfl rfl
  exact foldl_applyTask_inv h' s.gcq

theorem readSync_inv {s : State} (h : Inv s) (ctx last : Option Nat) (limit : Option Nat)
    (now : Nat) : Inv (s.readSync ctx last limit now).1 :=
  inv_of_parts h rfl rfl rfl rfl

theorem readHist_inv {s : State} (h : Inv s) (ctx last : Option Nat) (limit : Option Nat)
    (now : Nat) : Inv (s.readHist ctx last limit now).1 :=
  inv_of_parts h rfl rfl rfl rfl

/-! ### append -/

theorem xsContext_nulFree : hasNul xsContext = false := by decide

/-- what an accepted append did: the frame it returns is the request with the assigned id
    (ttl forced to `forever` for `xs.context`), and the new state is the old one plus that
    frame unless it is ephemeral. -/
theorem append_ok {s s' : State} {f0 f : Frame} {id : Nat} (e : s.append f0 id = .ok (s', f)) :
    hasNul f0.topic = false ∧
    f = { f0 with id := id, ttl := if f0.topic = xsContext then some .forever else f0.ttl } ∧
    (if f0.topic = xsContext then f0.ctx = 0 else f0.ctx ∈ s.contexts) ∧
    s'.bcast = s.bcast ++ [f] := by
  unfold State.append State.appendPre at e
  by_cases ht : f0.topic = xsContext
  · by_cases hc : f0.ctx = 0
    · simp only [ht, hc, ne_eq, not_true_eq_false, if_true, if_false] at e
      unfold State.appendStore at e
      simp only [xsContext_nulFree, Bool.false_eq_true, if_false] at e
      simp only [reduceCtorEq, Option.some.injEq, if_false] at e
      injection e with e; injection e with e1 e2
      subst e1 e2
      simp [ht, hc, xsContext_nulFree, State.insertFrameCore]
    · simp [ht, hc] at e
  · by_cases hc : f0.ctx ∈ s.contexts
    · simp only [ht, hc, if_true, if_false] at e
      unfold State.appendStore at e
      by_cases hn : hasNul f0.topic = true
      · simp [hn] at e
      · simp only [hn, Bool.false_eq_true, if_false] at e
        by_cases he : f0.ttl = some TTL.ephemeral
        · simp only [he, if_true] at e
          injection e with e; injection e with e1 e2
          subst e1 e2
          simp [ht, hc, he]
          simpa using hn
        · simp only [he, if_false] at e
          injection e with e; injection e with e1 e2
          subst e1 e2
          simp [ht, hc, State.insertFrameCore]
          simpa using hn
    · simp [ht, hc] at e

theorem append_inv {s s' : State} {f0 f : Frame} {id : Nat} (h : Inv s) (hid : id < idBound)
    (hctx : f0.ctx < idBound) (e : s.append f0 id = .ok (s', f)) : Inv s' := by
  obtain ⟨hn, hf, hc, _⟩ := append_ok e
  unfold State.append State.appendPre at e
  by_cases ht : f0.topic = xsContext
  · have hc0 : f0.ctx = 0 := by simpa [ht] using hc
    simp only [ht, hc0, ne_eq, not_true_eq_false, if_true, if_false] at e
    unfold State.appendStore at e
    simp only [xsContext_nulFree, Bool.false_eq_true, if_false, reduceCtorEq] at e
    injection e with e; injection e with e1 _
    subst e1
    -- pre-registered id, then insert_frame
    let s1 : State := { s with contexts := ctxInsert id s.contexts }
    let f1 : Frame := { topic := xsContext, ctx := 0, id := id, hash := f0.hash, mdata := f0.mdata,
                        ttl := some .forever }
    have wf1 : WfFrame f1 := ⟨hid, by show 0 < idBound; decide, hasNul_eq_false_iff.1 xsContext_nulFree⟩
    have hK1 : InvK s1 := invK_congr h.k rfl rfl rfl
    have hfr : frames s1 = frames s := rfl
    have hreg : f1.isReg = true := by simp [Frame.isReg, f1]
    have hI : Inv (s1.insertFrameCore f1) := by
      refine ⟨insertFrameCore_invK hK1 wf1, insertFrameCore_ctxOk hK1 wf1 (nodup_ctxInsert h.c.nodup) ?_ ?_⟩
      · intro c hcc
        show c ∈ ctxInsert id s.contexts
        rw [mem_ctxInsert]; exact Or.inr ((h.c.iff c).2 (by rw [← hfr]; exact hcc))
      · intro c hcc
        have : c ∈ ctxInsert id s.contexts := hcc
        rw [mem_ctxInsert] at this
        rcases this with e | e
        · exact Or.inr (Or.inr ⟨hreg, e⟩)
        · rcases (h.c.iff c).1 e with e' | e'
          · exact Or.inl e'
          · exact Or.inr (Or.inl e')
    have e1' : { f0 with id := id, ttl := some TTL.forever, topic := xsContext, ctx := 0 } = f1 := rfl
    cases f0 with
    | mk topic ctx id0 hash mdata ttl =>
      simp only at ht hc0
      subst ht hc0
      exact inv_of_parts hI rfl rfl rfl rfl
  · have hcc : f0.ctx ∈ s.contexts := by simpa [ht] using hc
    simp only [ht, hcc, if_true, if_false] at e
    unfold State.appendStore at e
    simp only [hn, Bool.false_eq_true, if_false] at e
    by_cases he : f0.ttl = some TTL.ephemeral
    · simp only [he, if_true] at e
      injection e with e; injection e with e1 _
      subst e1
      exact inv_of_parts h rfl rfl rfl rfl
    · simp only [he, if_false] at e
      injection e with e; injection e with e1 _
      subst e1
      have wf1 : WfFrame { f0 with id := id } := ⟨hid, hctx, hasNul_eq_false_iff.1 hn⟩
      exact inv_of_parts (insertFrameCore_inv h wf1) rfl rfl rfl rfl

theorem mem_frames_insertFrame {s s' : State} (h : Inv s) {f : Frame} (hid : f.id < idBound)
    (hctx : f.ctx < idBound) (e : s.insertFrame f = .ok s') (g : Frame) :
    g ∈ frames s' ↔ g = f ∨ (g ∈ frames s ∧ g.id ≠ f.id) := by
  unfold State.insertFrame at e
  split at e
  · cases e
  · rename_i hn
    injection e with e; subst e
    exact mem_frames_insertFrameCore h.k ⟨hid, hctx, hasNul_eq_false_iff.1 (by simpa using hn)⟩ g

theorem mem_frames_append {s s' : State} {f0 f : Frame} {id : Nat} (h : Inv s) (hid : id < idBound)
    (hctx : f0.ctx < idBound) (e : s.append f0 id = .ok (s', f)) (hne : f.ttl ≠ some .ephemeral)
    (g : Frame) : g ∈ frames s' ↔ g = f ∨ (g ∈ frames s ∧ g.id ≠ f.id) := by
  obtain ⟨hn, hf, hc, _⟩ := append_ok e
  unfold State.append State.appendPre at e
  by_cases ht : f0.topic = xsContext
  · have hc0 : f0.ctx = 0 := by simpa [ht] using hc
    cases f0 with
    | mk topic ctx id0 hash mdata ttl =>
      simp only at ht hc0
      subst ht hc0
      simp only [ne_eq, not_true_eq_false, if_true, if_false] at e
      unfold State.appendStore at e
      simp only [xsContext_nulFree, Bool.false_eq_true, if_false, reduceCtorEq] at e
      injection e with e; injection e with e1 e2
      subst e1 e2
      have wf1 : WfFrame (Frame.mk xsContext 0 id hash mdata (some .forever)) :=
        ⟨hid, by show 0 < idBound; decide, hasNul_eq_false_iff.1 xsContext_nulFree⟩
      have hK1 : InvK ({ s with contexts := ctxInsert id s.contexts }) := invK_congr h.k rfl rfl rfl
      exact mem_frames_insertFrameCore hK1 wf1 g
  · have hcc : f0.ctx ∈ s.contexts := by simpa [ht] using hc
    simp only [ht, hcc, if_true, if_false] at e
    unfold State.appendStore at e
    simp only [hn, Bool.false_eq_true, if_false] at e
    by_cases he : f0.ttl = some TTL.ephemeral
    · simp only [he, if_true] at e
      injection e with e; injection e with _ e2
      subst e2
      exact absurd rfl hne
    · simp only [he, if_false] at e
      injection e with e; injection e with e1 e2
      subst e1 e2
      exact mem_frames_insertFrameCore h.k (f := { f0 with id := id })
        ⟨hid, hctx, hasNul_eq_false_iff.1 hn⟩ g

/-- the acceptance rule of `append`, converse direction -/
theorem append_accepts {s : State} {f0 : Frame} {id : Nat} (hn : hasNul f0.topic = false)
    (hc : if f0.topic = xsContext then f0.ctx = 0 else f0.ctx ∈ s.contexts) :
    ∃ r, s.append f0 id = .ok r := by
  unfold State.append State.appendPre
  by_cases ht : f0.topic = xsContext
  · have hc0 : f0.ctx = 0 := by simpa [ht] using hc
    simp only [ht, hc0, ne_eq, not_true_eq_false, if_true, if_false]
    unfold State.appendStore
    simp [xsContext_nulFree]
  · have hcc : f0.ctx ∈ s.contexts := by simpa [ht] using hc
    simp only [ht, hcc, if_true, if_false]
    unfold State.appendStore
    simp only [hn, Bool.false_eq_true, if_false]
    by_cases he : f0.ttl = some TTL.ephemeral
    · simp [he]
    · simp [he]

end Xs
