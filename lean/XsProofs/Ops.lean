/-
  Every store operation preserves the invariant.
-/
import XsProofs.Inv
namespace Xs
open Part

attribute [local irreducible] be unbe

theorem invK_congr {s s' : State} (h : InvK s) (e1 : s'.stream = s.stream)
    (e2 : s'.idxT = s.idxT) (e3 : s'.idxC = s.idxC) : InvK s' := by
  have ef : frames s' = frames s := by simp [frames, e1]
  refine ⟨e1 ▸ h.sS, e2 ▸ h.sT, e3 ▸ h.sC, ?_, ?_, ?_⟩
  · rw [e1]; exact h.wf
  · rw [e2, ef]; exact h.tKeys
  · rw [e3, ef]; exact h.cKeys

theorem mem_ctxInsert {c a : Nat} {l : List Nat} : c ∈ ctxInsert a l ↔ c = a ∨ c ∈ l := by
  unfold ctxInsert
  split
  · rename_i h
    constructor
    · exact Or.inr
    · rintro (rfl | h'); exact h; exact h'
  · simp

theorem nodup_ctxInsert {a : Nat} {l : List Nat} (h : l.Nodup) : (ctxInsert a l).Nodup := by
  unfold ctxInsert
  split
  · exact h
  · rename_i hn; exact List.nodup_cons.2 ⟨hn, h⟩

/-- the frame stored under `f.id` before the write, if any -/
def baseOf (s : State) (f : Frame) : State :=
  match s.get f.id with
  | none => s
  | some o => rawDelete s o

theorem insertFrameCore_parts {s : State} (h : InvK s) {f : Frame} (wf : WfFrame f) :
    (s.insertFrameCore f).stream = (rawAdd (baseOf s f) f).stream ∧
    (s.insertFrameCore f).idxT = (rawAdd (baseOf s f) f).idxT ∧
    (s.insertFrameCore f).idxC = (rawAdd (baseOf s f) f).idxC := by
  unfold baseOf
  cases hg : s.get f.id with
  | none => simp [State.insertFrameCore, rawAdd, hg]
  | some o =>
    obtain ⟨ho, hk⟩ := h.get_eq_some_iff.1 hg
    have wo := h.wfFrame ho
    have hid : o.id = f.id := idKey_inj wo.id_lt wf.id_lt hk
    have hnul : hasNul o.topic = false := hasNul_eq_false_iff.2 wo.nul
    refine ⟨?_, ?_, ?_⟩
    · simp only [State.insertFrameCore, rawAdd, rawDelete, hid]
      exact (insert_erase_self h.sS).symm
    · simp only [State.insertFrameCore, rawAdd, rawDelete, hg, hnul]
      by_cases e : topicKey o.ctx o.topic o.id = topicKey f.ctx f.topic f.id
      · simp only [e, ne_eq, not_true_eq_false, decide_false, Bool.and_false, Bool.false_eq_true,
          if_false]
        exact (insert_erase_self h.sT).symm
      · simp [e]
    · simp only [State.insertFrameCore, rawAdd, rawDelete, hg]
      by_cases e : ctxKey o.ctx o.id = ctxKey f.ctx f.id
      · simp only [e, ne_eq, not_true_eq_false, if_false]
        exact (insert_erase_self h.sC).symm
      · simp [e]

theorem baseOf_invK {s : State} (h : InvK s) (f : Frame) : InvK (baseOf s f) := by
  unfold baseOf
  cases hg : s.get f.id with
  | none => exact h
  | some o => exact rawDelete_invK h (h.get_eq_some_iff.1 hg).1

theorem mem_frames_baseOf {s : State} (h : InvK s) {f : Frame} (wf : WfFrame f) (g : Frame) :
    g ∈ frames (baseOf s f) ↔ g ∈ frames s ∧ g.id ≠ f.id := by
  unfold baseOf
  cases hg : s.get f.id with
  | none =>
    have := (h.get_eq_none_iff wf.id_lt).1 hg
    exact ⟨fun hm => ⟨hm, this g hm⟩, fun hm => hm.1⟩
  | some o =>
    obtain ⟨ho, hk⟩ := h.get_eq_some_iff.1 hg
    have hid : o.id = f.id := idKey_inj (h.wfFrame ho).id_lt wf.id_lt hk
    rw [mem_frames_rawDelete h ho, hid]

/-- frames after `insert_frame`: the new frame replaces whatever had its id -/
theorem mem_frames_insertFrameCore {s : State} (h : InvK s) {f : Frame} (wf : WfFrame f)
    (g : Frame) : g ∈ frames (s.insertFrameCore f) ↔ g = f ∨ (g ∈ frames s ∧ g.id ≠ f.id) := by
  have hb := baseOf_invK h f
  have e : frames (s.insertFrameCore f) = frames (rawAdd (baseOf s f) f) := by
    simp [frames, (insertFrameCore_parts h wf).1]
  rw [e, mem_frames_rawAdd hb, mem_frames_baseOf h wf]
  constructor
  · rintro (e | ⟨⟨hg, hne⟩, _⟩)
    · exact Or.inl e
    · exact Or.inr ⟨hg, hne⟩
  · rintro (e | ⟨hg, hne⟩)
    · exact Or.inl e
    · exact Or.inr ⟨⟨hg, hne⟩, fun e => hne (idKey_inj (h.wfFrame hg).id_lt wf.id_lt e)⟩

theorem insertFrameCore_invK {s : State} (h : InvK s) {f : Frame} (wf : WfFrame f) :
    InvK (s.insertFrameCore f) := by
  have hb := baseOf_invK h f
  have fresh : ∀ g ∈ frames (baseOf s f), g.id ≠ f.id :=
    fun g hg => ((mem_frames_baseOf h wf g).1 hg).2
  obtain ⟨e1, e2, e3⟩ := insertFrameCore_parts h wf
  exact invK_congr (rawAdd_invK hb wf fresh) e1 e2 e3

/-- registry after `insert_frame`, allowing the id to have been pre-registered (append does
    `contexts.insert(id)` before storing an `xs.context` frame) -/
theorem insertFrameCore_ctxOk {s : State} (h : InvK s) {f : Frame} (wf : WfFrame f)
    (nd : s.contexts.Nodup)
    (lo : ∀ c, (c = 0 ∨ ∃ g ∈ frames s, g.id = c ∧ g.isReg = true) → c ∈ s.contexts)
    (hi : ∀ c, c ∈ s.contexts →
      c = 0 ∨ (∃ g ∈ frames s, g.id = c ∧ g.isReg = true) ∨ (f.isReg = true ∧ c = f.id)) :
    CtxOk (s.insertFrameCore f) := by
  have hmem := mem_frames_insertFrameCore h wf
  -- the contexts component, spelled out
  have hctx : (s.insertFrameCore f).contexts =
      (if f.isReg then ctxInsert f.id
        (match s.get f.id with
          | none => s.contexts
          | some o => if o.isReg && o.id ≠ 0 then s.contexts.erase o.id else s.contexts)
      else (match s.get f.id with
          | none => s.contexts
          | some o => if o.isReg && o.id ≠ 0 then s.contexts.erase o.id else s.contexts)) := rfl
  -- membership in the intermediate set C1
  have hC1 : ∀ c, c ∈ (match s.get f.id with
          | none => s.contexts
          | some o => if o.isReg && o.id ≠ 0 then s.contexts.erase o.id else s.contexts) ↔
        c ∈ s.contexts ∧ ¬ (c = f.id ∧ c ≠ 0 ∧ ∃ o ∈ frames s, o.id = f.id ∧ o.isReg = true) := by
    intro c
    cases hg : s.get f.id with
    | none =>
      have := (h.get_eq_none_iff wf.id_lt).1 hg
      simp only
      constructor
      · intro hc; exact ⟨hc, fun ⟨_, _, o, ho, e, _⟩ => this o ho e⟩
      · exact fun hc => hc.1
    | some o =>
      obtain ⟨ho, hk⟩ := h.get_eq_some_iff.1 hg
      have hid : o.id = f.id := idKey_inj (h.wfFrame ho).id_lt wf.id_lt hk
      simp only
      by_cases hr : (o.isReg && decide (o.id ≠ 0)) = true
      · simp only [hr, if_true]
        rw [List.Nodup.mem_erase_iff nd]
        simp only [Bool.and_eq_true, decide_eq_true_eq] at hr
        constructor
        · rintro ⟨hne, hc⟩
          exact ⟨hc, fun ⟨e, _, _⟩ => hne (by rw [e, hid])⟩
        · rintro ⟨hc, hn⟩
          refine ⟨fun e => hn ⟨by rw [e, hid], by rw [e]; exact hr.2, o, ho, hid, hr.1⟩, hc⟩
      · simp only [hr, if_false]
        constructor
        · intro hc
          refine ⟨hc, fun ⟨e, hc0, o', ho', e', hr'⟩ => hr ?_⟩
          have : o' = o := h.frame_unique ho' ho (by rw [e', hid])
          subst this
          simp only [Bool.and_eq_true, decide_eq_true_eq]
          exact ⟨hr', by rw [hid, ← e]; exact hc0⟩
        · exact fun hc => hc.1
  refine ⟨?_, ?_⟩
  · rw [hctx]
    have ndC1 : (match s.get f.id with
          | none => s.contexts
          | some o => if o.isReg && o.id ≠ 0 then s.contexts.erase o.id else s.contexts).Nodup := by
      cases s.get f.id with
      | none => exact nd
      | some o =>
        simp only
        split
        · exact List.Nodup.erase _ nd
        · exact nd
    split
    · exact nodup_ctxInsert ndC1
    · exact ndC1
  · intro c
    rw [hctx]
    have key : (c ∈ s.contexts ∧ ¬ (c = f.id ∧ c ≠ 0 ∧ ∃ o ∈ frames s, o.id = f.id ∧ o.isReg = true))
        ∨ (f.isReg = true ∧ c = f.id) ↔
        (c = 0 ∨ ∃ g ∈ frames (s.insertFrameCore f), g.id = c ∧ g.isReg = true) := by
      constructor
      · rintro (⟨hc, hn⟩ | ⟨hr, e⟩)
        · rcases hi c hc with e | ⟨g, hg, e, hr⟩ | ⟨hr, e⟩
          · exact Or.inl e
          · by_cases hcf : c = f.id
            · by_cases hc0 : c = 0
              · exact Or.inl hc0
              · exact absurd ⟨hcf, hc0, g, hg, by rw [e, hcf], hr⟩ hn
            · exact Or.inr ⟨g, (hmem g).2 (Or.inr ⟨hg, by rw [e]; exact hcf⟩), e, hr⟩
          · exact Or.inr ⟨f, (hmem f).2 (Or.inl rfl), e.symm, hr⟩
        · exact Or.inr ⟨f, (hmem f).2 (Or.inl rfl), e.symm, hr⟩
      · rintro (e | ⟨g, hg, e, hr⟩)
        · by_cases hrf : f.isReg = true ∧ c = f.id
          · exact Or.inr hrf
          · exact Or.inl ⟨lo c (Or.inl e), fun ⟨_, hc0, _⟩ => hc0 e⟩
        · rcases (hmem g).1 hg with e' | ⟨hg', hne⟩
          · subst e'; exact Or.inr ⟨hr, e.symm⟩
          · exact Or.inl ⟨lo c (Or.inr ⟨g, hg', e, hr⟩), fun ⟨e', _, _⟩ => hne (by rw [e, e'])⟩
    by_cases hr : f.isReg = true
    · simp only [hr, if_true, mem_ctxInsert, hC1]
      rw [← key]
      constructor
      · rintro (e | h'); exact Or.inr ⟨hr, e⟩; exact Or.inl h'
      · rintro (h' | ⟨_, e⟩); exact Or.inr h'; exact Or.inl e
    · have hr' : f.isReg = false := by simpa using hr
      simp only [hr', Bool.false_eq_true, if_false, hC1]
      rw [← key]
      constructor
      · exact Or.inl
      · rintro (h' | ⟨hr', _⟩); exact h'; exact absurd hr' hr

theorem insertFrameCore_inv {s : State} (h : Inv s) {f : Frame} (wf : WfFrame f) :
    Inv (s.insertFrameCore f) :=
  ⟨insertFrameCore_invK h.k wf,
   insertFrameCore_ctxOk h.k wf h.c.nodup (fun c hc => (h.c.iff c).2 hc)
     (fun c hc => by rcases (h.c.iff c).1 hc with e | e; exact Or.inl e; exact Or.inr (Or.inl e))⟩

/-- what an accepted import did -/
theorem insertFrame_ok {s s' : State} {f : Frame} (e : s.insertFrame f = .ok s') :
    f.decodable = true ∧ hasNul f.topic = false ∧ s' = s.insertFrameCore f := by
  unfold State.insertFrame at e
  by_cases hd : f.decodable = true
  · by_cases hn : hasNul f.topic = true
    · simp [hd, hn] at e
    · have hn' : hasNul f.topic = false := by simpa using hn
      simp only [hd, hn', Bool.not_true, Bool.false_eq_true, if_false] at e
      injection e with e
      exact ⟨hd, hn', e.symm⟩
  · have hd' : f.decodable = false := by simpa using hd
    simp [hd'] at e

theorem insertFrame_accepts {s : State} {f : Frame} (hd : f.decodable = true) (hn : hasNul f.topic = false) :
    s.insertFrame f = .ok (s.insertFrameCore f) := by
  simp [State.insertFrame, hd, hn]

/-- `POST /import` / `insert_frame`: accepted iff the frame decodes and its topic has no NUL;
    then the invariant holds -/
theorem insertFrame_inv {s s' : State} (h : Inv s) {f : Frame} (hid : f.id < idBound)
    (hctx : f.ctx < idBound) (e : s.insertFrame f = .ok s') : Inv s' := by
  obtain ⟨hd, hn, rfl⟩ := insertFrame_ok e
  exact insertFrameCore_inv h ⟨hid, hctx, hasNul_eq_false_iff.1 hn, hd⟩

/-! ### remove -/

theorem remove_eq {s : State} (h : InvK s) {id : Nat} {o : Frame} (hg : s.get id = some o) :
    (s.remove id).stream = (rawDelete s o).stream ∧ (s.remove id).idxT = (rawDelete s o).idxT ∧
    (s.remove id).idxC = (rawDelete s o).idxC ∧
    (s.remove id).contexts =
      (if o.isReg && o.id ≠ 0 then s.contexts.erase o.id else s.contexts) ∧
    (s.remove id).gcq = s.gcq ∧ (s.remove id).bcast = s.bcast := by
  obtain ⟨ho, hk⟩ := h.get_eq_some_iff.1 hg
  have hnul : hasNul o.topic = false := hasNul_eq_false_iff.2 (h.wfFrame ho).nul
  simp [State.remove, hg, hnul, rawDelete, hk]

theorem remove_none {s : State} {id : Nat} (hg : s.get id = none) : s.remove id = s := by
  simp [State.remove, hg]

theorem mem_frames_remove {s : State} (h : InvK s) {id : Nat} (hid : id < idBound) (g : Frame) :
    g ∈ frames (s.remove id) ↔ g ∈ frames s ∧ g.id ≠ id := by
  cases hg : s.get id with
  | none =>
    rw [remove_none hg]
    have := (h.get_eq_none_iff hid).1 hg
    exact ⟨fun hm => ⟨hm, this g hm⟩, fun hm => hm.1⟩
  | some o =>
    obtain ⟨ho, hk⟩ := h.get_eq_some_iff.1 hg
    have e : o.id = id := idKey_inj (h.wfFrame ho).id_lt hid hk
    have : frames (s.remove id) = frames (rawDelete s o) := by simp [frames, (remove_eq h hg).1]
    rw [this, mem_frames_rawDelete h ho, e]

theorem remove_inv {s : State} (h : Inv s) (id : Nat) : Inv (s.remove id) := by
  cases hg : s.get id with
  | none => rw [remove_none hg]; exact h
  | some o =>
    obtain ⟨ho, hk⟩ := h.k.get_eq_some_iff.1 hg
    obtain ⟨e1, e2, e3, e4, _, _⟩ := remove_eq h.k hg
    have hK : InvK (s.remove id) := invK_congr (rawDelete_invK h.k ho) e1 e2 e3
    have hf : ∀ g, g ∈ frames (s.remove id) ↔ g ∈ frames s ∧ g.id ≠ o.id := by
      intro g
      have : frames (s.remove id) = frames (rawDelete s o) := by simp [frames, e1]
      rw [this, mem_frames_rawDelete h.k ho]
    refine ⟨hK, ?_, ?_⟩
    · rw [e4]; split
      · exact List.Nodup.erase _ h.c.nodup
      · exact h.c.nodup
    · intro c
      rw [e4]
      by_cases hr : (o.isReg && decide (o.id ≠ 0)) = true
      · simp only [hr, if_true]
        rw [List.Nodup.mem_erase_iff h.c.nodup, h.c.iff]
        simp only [Bool.and_eq_true, decide_eq_true_eq] at hr
        constructor
        · rintro ⟨hne, e | ⟨g, hg', e, hr'⟩⟩
          · exact Or.inl e
          · exact Or.inr ⟨g, (hf g).2 ⟨hg', by rw [e]; exact hne⟩, e, hr'⟩
        · rintro (e | ⟨g, hg', e, hr'⟩)
          · exact ⟨by rw [e]; exact fun e' => hr.2 e'.symm, Or.inl e⟩
          · obtain ⟨hg'', hne⟩ := (hf g).1 hg'
            exact ⟨by rw [← e]; exact hne, Or.inr ⟨g, hg'', e, hr'⟩⟩
      · simp only [hr, Bool.false_eq_true, if_false]
        rw [h.c.iff]
        constructor
        · rintro (e | ⟨g, hg', e, hr'⟩)
          · exact Or.inl e
          · by_cases hgo : g.id = o.id
            · have : g = o := h.k.frame_unique hg' ho hgo
              subst this
              by_cases hc0 : c = 0
              · exact Or.inl hc0
              · exact absurd (by simp only [Bool.and_eq_true, decide_eq_true_eq]; exact ⟨hr', by rw [e]; exact hc0⟩) hr
            · exact Or.inr ⟨g, (hf g).2 ⟨hg', hgo⟩, e, hr'⟩
        · rintro (e | ⟨g, hg', e, hr'⟩)
          · exact Or.inl e
          · exact Or.inr ⟨g, ((hf g).1 hg').1, e, hr'⟩

/-! ### gc -/

theorem foldl_remove_inv {s : State} (h : Inv s) (ids : List Nat) :
    Inv (ids.foldl State.remove s) := by
  induction ids generalizing s with
  | nil => exact h
  | cons a l ih => exact ih (remove_inv h a)

theorem applyTask_inv {s : State} (h : Inv s) (t : GCTask) : Inv (s.applyTask t) := by
  cases t with
  | remove id => exact remove_inv h id
  | checkHead c t keep => exact foldl_remove_inv h _

theorem inv_of_parts {s s' : State} (h : Inv s) (e1 : s'.stream = s.stream)
    (e2 : s'.idxT = s.idxT) (e3 : s'.idxC = s.idxC) (e4 : s'.contexts = s.contexts) : Inv s' := by
  have ef : frames s' = frames s := by simp [frames, e1]
  exact ⟨invK_congr h.k e1 e2 e3, by rw [e4]; exact h.c.nodup, by rw [e4, ef]; exact h.c.iff⟩

theorem gcStep_inv {s : State} (h : Inv s) : Inv s.gcStep := by
  unfold State.gcStep
  split
  · exact h
  · rename_i t q _
    have h' : Inv ({ s with gcq := q }) := inv_of_parts h rfl rfl rfl rfl
    exact applyTask_inv h' t

theorem foldl_applyTask_inv {s : State} (h : Inv s) (ts : List GCTask) :
    Inv (ts.foldl State.applyTask s) := by
  induction ts generalizing s with
  | nil => exact h
  | cons a l ih => exact ih (applyTask_inv h a)

theorem drain_inv {s : State} (h : Inv s) : Inv s.drain := by
  have h' : Inv ({ s with gcq := [] }) := inv_of_parts h rfl rfl rfl rfl
  exact foldl_applyTask_inv h' s.gcq

theorem readSync_inv {s : State} (h : Inv s) (ctx last : Option Nat) (limit : Option Nat)
    (now : Nat) : Inv (s.readSync ctx last limit now).1 :=
  inv_of_parts h rfl rfl rfl rfl

theorem readHist_inv {s : State} (h : Inv s) (ctx last : Option Nat) (limit : Option Nat)
    (now : Nat) : Inv (s.readHist ctx last limit now).1 :=
  inv_of_parts h rfl rfl rfl rfl

/-! ### append -/

theorem xsContext_nulFree : hasNul xsContext = false := by decide

/-- the frame `append` works on: the request with the assigned id, ttl forced to `forever`
    for `xs.context` -/
def stamped (f0 : Frame) (id : Nat) : Frame :=
  { f0 with id := id, ttl := if f0.topic = xsContext then some .forever else f0.ttl }

/-- the state after an accepted, stored append of `f` -/
def storedState (s : State) (f : Frame) : State :=
  { s.insertFrameCore f with
    gcq := (s.insertFrameCore f).gcq ++ headTask f
    bcast := (s.insertFrameCore f).bcast ++ [f] }

/-- complete characterisation of `Store::append` -/
theorem append_spec {s s' : State} {f0 f : Frame} {id : Nat} :
    s.append f0 id = .ok (s', f) ↔
      hasNul f0.topic = false ∧
      (if f0.topic = xsContext then f0.ctx = 0 else f0.ctx ∈ s.contexts) ∧
      f = stamped f0 id ∧
      (if f.ttl = some .ephemeral then s' = { s with bcast := s.bcast ++ [f] }
       else f.decodable = true ∧ s' = storedState s f) := by
  unfold State.append State.appendPre State.appendStore stamped storedState
  by_cases ht : f0.topic = xsContext
  · have hnn : hasNul f0.topic = false := by rw [ht]; exact xsContext_nulFree
    by_cases hc : f0.ctx = 0 <;> by_cases hd : f0.decodable = true
    · simp only [ht, hc, hd, xsContext_nulFree, ne_eq, not_true_eq_false, if_true, if_false, Option.some.injEq, reduceCtorEq,
        Bool.false_eq_true, Bool.not_true, Except.ok.injEq, Prod.mk.injEq, true_and]
      constructor
      · rintro ⟨rfl, rfl⟩; simp [hd]
      · rintro ⟨rfl, h4⟩
        simp only [Option.some.injEq, reduceCtorEq, if_false, hd, true_and] at h4
        exact ⟨h4.symm, rfl⟩
    · have hd' : f0.decodable = false := by simpa using hd
      simp only [ht, hc, hd', xsContext_nulFree, ne_eq, not_true_eq_false, if_true, if_false, Option.some.injEq, reduceCtorEq,
        Bool.false_eq_true, Bool.not_false, true_and, false_iff]
      rintro ⟨rfl, h4⟩
      simp [hd'] at h4
    · simp [ht, hc]
    · simp [ht, hc]
  · by_cases hc : f0.ctx ∈ s.contexts
    · by_cases hn : hasNul f0.topic = true
      · simp [ht, hc, hn]
      · have hn' : hasNul f0.topic = false := by simpa using hn
        by_cases he : f0.ttl = some TTL.ephemeral
        · simp only [ht, hc, hn', he, if_true, if_false, Bool.false_eq_true, Except.ok.injEq, Prod.mk.injEq, true_and]
          constructor
          · rintro ⟨rfl, rfl⟩; simp [he]
          · rintro ⟨rfl, h4⟩; simp only [he, if_true] at h4; exact ⟨h4.symm, rfl⟩
        · by_cases hd : f0.decodable = true
          · simp only [ht, hc, hn', he, hd, if_true, if_false, Bool.false_eq_true, Bool.not_true, Except.ok.injEq,
              Prod.mk.injEq, true_and]
            constructor
            · rintro ⟨rfl, rfl⟩; simp [he, hd]
            · rintro ⟨rfl, h4⟩; simp only [he, if_false, hd, true_and] at h4; exact ⟨h4.symm, rfl⟩
          · have hd' : f0.decodable = false := by simpa using hd
            simp only [ht, hc, hn', he, hd', if_true, if_false, Bool.false_eq_true, Bool.not_false, reduceCtorEq,
              true_and, false_iff]
            rintro ⟨rfl, h4⟩
            simp [he, hd'] at h4
    · simp [ht, hc]

/-- what an accepted append did (weaker, convenient form) -/
theorem append_ok {s s' : State} {f0 f : Frame} {id : Nat} (e : s.append f0 id = .ok (s', f)) :
    hasNul f0.topic = false ∧
    f = { f0 with id := id, ttl := if f0.topic = xsContext then some .forever else f0.ttl } ∧
    (if f0.topic = xsContext then f0.ctx = 0 else f0.ctx ∈ s.contexts) ∧
    s'.bcast = s.bcast ++ [f] := by
  obtain ⟨h1, h2, h3, h4⟩ := append_spec.1 e
  refine ⟨h1, h3, h2, ?_⟩
  by_cases he : f.ttl = some .ephemeral
  · simp only [he, if_true] at h4; rw [h4]
  · simp only [he, if_false] at h4; rw [h4.2]; simp [storedState, State.insertFrameCore]

theorem stamped_wf {f0 : Frame} {id : Nat} (hid : id < idBound) (hctx : f0.ctx < idBound)
    (hn : hasNul f0.topic = false) (hd : (stamped f0 id).decodable = true) : WfFrame (stamped f0 id) :=
  ⟨hid, hctx, hasNul_eq_false_iff.1 hn, hd⟩

theorem append_inv {s s' : State} {f0 f : Frame} {id : Nat} (h : Inv s) (hid : id < idBound)
    (hctx : f0.ctx < idBound) (e : s.append f0 id = .ok (s', f)) : Inv s' := by
  obtain ⟨hn, _, hf, h4⟩ := append_spec.1 e
  by_cases he : f.ttl = some .ephemeral
  · simp only [he, if_true] at h4; rw [h4]; exact inv_of_parts h rfl rfl rfl rfl
  · simp only [he, if_false] at h4
    have hd := h4.1
    rw [h4.2, hf]
    rw [hf] at hd
    exact inv_of_parts (insertFrameCore_inv h (stamped_wf hid hctx hn hd)) rfl rfl rfl rfl

theorem mem_frames_insertFrame {s s' : State} (h : Inv s) {f : Frame} (hid : f.id < idBound)
    (hctx : f.ctx < idBound) (e : s.insertFrame f = .ok s') (g : Frame) :
    g ∈ frames s' ↔ g = f ∨ (g ∈ frames s ∧ g.id ≠ f.id) := by
  obtain ⟨hd, hn, rfl⟩ := insertFrame_ok e
  exact mem_frames_insertFrameCore h.k ⟨hid, hctx, hasNul_eq_false_iff.1 hn, hd⟩ g

theorem mem_frames_append {s s' : State} {f0 f : Frame} {id : Nat} (h : Inv s) (hid : id < idBound)
    (hctx : f0.ctx < idBound) (e : s.append f0 id = .ok (s', f)) (hne : f.ttl ≠ some .ephemeral)
    (g : Frame) : g ∈ frames s' ↔ g = f ∨ (g ∈ frames s ∧ g.id ≠ f.id) := by
  obtain ⟨hn, _, hf, h4⟩ := append_spec.1 e
  simp only [hne, if_false] at h4
  have : frames s' = frames (s.insertFrameCore f) := by rw [h4.2]; rfl
  have hd := h4.1
  rw [this, hf]
  rw [hf] at hd
  exact mem_frames_insertFrameCore h.k (stamped_wf hid hctx hn hd) g

/-- the acceptance rule of `append`, converse direction -/
theorem append_accepts {s : State} {f0 : Frame} {id : Nat} (hn : hasNul f0.topic = false)
    (hc : if f0.topic = xsContext then f0.ctx = 0 else f0.ctx ∈ s.contexts)
    (hd : (stamped f0 id).ttl = some .ephemeral ∨ f0.decodable = true) :
    ∃ r, s.append f0 id = .ok r := by
  by_cases he : (stamped f0 id).ttl = some .ephemeral
  · exact ⟨({ s with bcast := s.bcast ++ [stamped f0 id] }, stamped f0 id), append_spec.2 ⟨hn, hc, rfl, by simp [he]⟩⟩
  · have hdd : (stamped f0 id).decodable = true := by
      rcases hd with hd | hd
      · exact absurd hd he
      · simpa [stamped] using hd
    exact ⟨(storedState s (stamped f0 id), stamped f0 id), append_spec.2 ⟨hn, hc, rfl, by simp [he, hdd]⟩⟩

end Xs
