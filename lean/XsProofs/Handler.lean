import Std.Data.String.ToNat
import XsModel.Handler
import XsProofs.ListAux
namespace Xs.Serve

theorem find?_filter_ne (l : List (String × String)) (k k' : String) (hne : k' ≠ k) :
    (l.filter (fun kv => kv.1 ≠ k)).find? (fun kv => kv.1 = k') = l.find? (fun kv => kv.1 = k') := by
  rw [List.find?_filter]
  congr 1
  funext a
  by_cases h : a.1 = k'
  · simp [h, hne]
  · simp [h]

theorem find?_filter_self (l : List (String × String)) (k : String) :
    (l.filter (fun kv => kv.1 ≠ k)).find? (fun kv => kv.1 = k) = none := by
  rw [List.find?_eq_none]
  intro x hx
  have := (List.mem_filter.1 hx).2
  simpa using this

theorem metaGet_metaSet_same (l : List (String × String)) (k v : String) :
    metaGet (some (metaSet l k v)) k = some v := by
  unfold metaSet metaGet
  show Option.map (fun x => x.2) (List.find? (fun kv => decide (kv.1 = k)) (List.filter (fun kv => decide (kv.1 ≠ k)) l ++ [(k, v)])) = some v
  rw [List.find?_append, find?_filter_self]
  simp

theorem metaGet_metaSet_other (l : List (String × String)) (k k' v : String) (hne : k' ≠ k) :
    metaGet (some (metaSet l k v)) k' = metaGet (some l) k' := by
  unfold metaSet metaGet
  show Option.map (fun x => x.2) (List.find? (fun kv => decide (kv.1 = k')) (List.filter (fun kv => decide (kv.1 ≠ k)) l ++ [(k, v)])) =
    Option.map (fun x => x.2) (List.find? (fun kv => decide (kv.1 = k')) l)
  rw [List.find?_append, find?_filter_ne l k k' hne]
  cases l.find? (fun kv => decide (kv.1 = k')) with
  | some x => simp
  | none =>
    have : ¬ k = k' := fun e => hne e.symm
    simp [this]

/-- every stamped meta carries the handler id and the trigger id, whatever the user supplied -/
theorem stamp_handler_id (m : Option (List (String × String))) (hid fid : Nat) :
    metaGet (stamp m hid fid) "handler_id" = some (idText hid) ∧
    metaGet (stamp m hid fid) "frame_id" = some (idText fid) := by
  unfold stamp
  constructor
  · rw [metaGet_metaSet_other _ _ _ _ (by decide), metaGet_metaSet_same]
  · exact metaGet_metaSet_same _ _ _

/-- a frame emitted by the instance, other than the stop announcement -/
def Stamped (cfg : HCfg) (trigger : SFrame) (o : SFrame) : Prop :=
  metaGet o.mdata "handler_id" = some (idText cfg.id) ∧
  metaGet o.mdata "frame_id" = some (idText trigger.id) ∧ o.ctx = cfg.ctx

theorem emit_stamped (cfg : HCfg) (t : SFrame) (o : OutReq) : Stamped cfg t (emit cfg t o) :=
  ⟨(stamp_handler_id _ _ _).1, (stamp_handler_id _ _ _).2, rfl⟩

theorem returnFrame_stamped (cfg : HCfg) (t : SFrame) (j : String) : Stamped cfg t (returnFrame cfg t j) :=
  ⟨(stamp_handler_id _ _ _).1, (stamp_handler_id _ _ _).2, rfl⟩

theorem unregistered_stamped (cfg : HCfg) (t : SFrame) (e : Option String) :
    Stamped cfg t (unregistered cfg t e) := by
  refine ⟨?_, ?_, rfl⟩ <;> simp [unregistered, metaGet]

variable {σ : Type}

/-- C15/C06: whatever one step emits is stamped with the handler id and the id of the frame
    that triggered it and lands in the handler's context — whatever `--context` / `--meta`
    the script asked for -/
theorem step_outputs_stamped (cfg : HCfg) (eval : σ → SFrame → σ × EvalRes) (st : HState) (env : σ)
    (f : SFrame) : ∀ o ∈ (step cfg eval st env f).2.2.1, Stamped cfg f o := by
  intro o ho
  unfold step at ho
  cases st with
  | stopped => simp at ho
  | running =>
    simp only at ho
    cases hd : dispatch cfg f with
    | skip => rw [hd] at ho; simp at ho
    | stop out =>
      rw [hd] at ho
      simp only [List.mem_singleton] at ho
      subst ho
      unfold dispatch at hd
      split at hd
      · cases hd
      · split at hd
        · injection hd with hd; rw [← hd]; exact unregistered_stamped _ _ _
        · split at hd <;> cases hd
    | invoke =>
      rw [hd] at ho
      simp only at ho
      cases he : eval env f with
      | mk env' r =>
        rw [he] at ho
        cases r with
        | error msg =>
          simp only [List.mem_singleton] at ho; subst ho; exact unregistered_stamped _ _ _
        | ok appends ret =>
          simp only at ho
          split at ho
          · simp only [List.mem_append, List.mem_map] at ho
            rcases ho with ⟨q, _, rfl⟩ | ho
            · exact emit_stamped _ _ _
            · cases ret with
              | nothing => simp [retFrames] at ho
              | value j => simp only [retFrames, List.mem_singleton] at ho; subst ho; exact returnFrame_stamped _ _ _
          · simp only [List.mem_singleton] at ho; subst ho; exact unregistered_stamped _ _ _

/-- C16: a stopped instance processes nothing further -/
theorem stopped_inert (cfg : HCfg) (eval : σ → SFrame → σ × EvalRes) (env : σ) (l : List SFrame) :
    run cfg eval .stopped env l = (.stopped, env, [], []) := by
  induction l with
  | nil => rfl
  | cons f r ih => simp [run, step, ih]

/-- C14: the closure is never invoked for the instance's own output, for registration traffic
    of its name, nor after it stopped -/
theorem invoked_only_if (cfg : HCfg) (eval : σ → SFrame → σ × EvalRes) (st : HState) (env : σ) (f : SFrame)
    (h : (step cfg eval st env f).2.2.2 = true) :
    st = .running ∧ isOwn cfg f = false ∧ isRegTraffic cfg f = false := by
  unfold step at h
  cases st with
  | stopped => simp at h
  | running =>
    simp only at h
    cases hd : dispatch cfg f with
    | skip => rw [hd] at h; simp at h
    | stop out => rw [hd] at h; simp at h
    | invoke =>
      refine ⟨rfl, ?_, ?_⟩
      · unfold dispatch at hd
        split at hd
        · cases hd
        · split at hd
          · cases hd
          · split at hd
            · cases hd
            · rename_i h3; simpa using h3
      · unfold dispatch at hd
        split at hd
        · cases hd
        · split at hd
          · cases hd
          · rename_i h2; simpa using h2

/-- C15/C16: a closure error emits exactly one `<name>.unregistered` carrying the handler id,
    the trigger id and the error — none of the buffered appends — and stops the instance -/
theorem error_is_all_or_nothing (cfg : HCfg) (eval : σ → SFrame → σ × EvalRes) (env env' : σ) (f : SFrame)
    (msg : String) (hd : dispatch cfg f = .invoke) (he : eval env f = (env', .error msg)) :
    step cfg eval .running env f = (.stopped, env', [unregistered cfg f (some msg)], true) := by
  simp [step, hd, he]

/-- C15: a successful call emits the explicit appends in call order, then the return value on
    `<name><suffix>` with the configured ttl (nothing for a `nothing` return) -/
theorem success_outputs (cfg : HCfg) (eval : σ → SFrame → σ × EvalRes) (env env' : σ) (f : SFrame)
    (appends : List OutReq) (ret : Ret) (hd : dispatch cfg f = .invoke)
    (he : eval env f = (env', .ok appends ret))
    (hs : (appends.map (emit cfg f) ++ retFrames cfg f ret).all storable = true) :
    step cfg eval .running env f =
      (.running, env', appends.map (emit cfg f) ++ retFrames cfg f ret, true) := by
  simp only [step, hd, he, hs, if_true]

/-- C15 (all-or-nothing): if one frame of the call cannot be stored - a topic with NUL,
    `xs.context` outside the zero context - none of the call's frames is emitted and the
    instance stops with one `<name>.unregistered` carrying the error -/
theorem unstorable_output_fails_call (cfg : HCfg) (eval : σ → SFrame → σ × EvalRes) (env env' : σ) (f : SFrame)
    (appends : List OutReq) (ret : Ret) (hd : dispatch cfg f = .invoke)
    (he : eval env f = (env', .ok appends ret))
    (hs : (appends.map (emit cfg f) ++ retFrames cfg f ret).all storable = false) :
    step cfg eval .running env f =
      (.stopped, env', [unregistered cfg f (some "unstorable output")], true) := by
  simp only [step, hd, he, hs]
  rfl

/-- C16: a later `.register` / `.unregister` of its name stops the instance with exactly one
    `<name>.unregistered` naming it -/
theorem replaced_or_unregistered_stops (cfg : HCfg) (eval : σ → SFrame → σ × EvalRes) (env : σ) (f : SFrame)
    (hr : isRegTraffic cfg f = true) (hlater : cfg.id < f.id) :
    step cfg eval .running env f = (.stopped, env, [unregistered cfg f none], false) := by
  have : ¬ f.id ≤ cfg.id := by omega
  simp [step, dispatch, hr, this]

/-- C14: environment set by one invocation is what the next one starts from: running a
    subscription in two pieces is running the first piece and then the second from the state
    and environment the first one left -/
theorem run_append (cfg : HCfg) (eval : σ → SFrame → σ × EvalRes) (st : HState) (env : σ) (l1 l2 : List SFrame) :
    run cfg eval st env (l1 ++ l2) =
      (let r1 := run cfg eval st env l1
       let r2 := run cfg eval r1.1 r1.2.1 l2
       (r2.1, r2.2.1, r1.2.2.1 ++ r2.2.2.1, r1.2.2.2 ++ r2.2.2.2)) := by
  induction l1 generalizing st env with
  | nil => simp [run]
  | cons a t ih =>
    simp only [List.cons_append, run, ih]
    simp [List.append_assoc]

/-- C14: the invocations are a sublist of the subscription: each frame at most once, in the
    order delivered -/
theorem invocations_sublist (cfg : HCfg) (eval : σ → SFrame → σ × EvalRes) (st : HState) (env : σ) (l : List SFrame) :
    ((run cfg eval st env l).2.2.2.map (·.2)).Sublist l := by
  induction l generalizing st env with
  | nil => simp [run]
  | cons a t ih =>
    simp only [run]
    by_cases hi : (step cfg eval st env a).2.2.2 = true
    · simp only [hi, if_true, List.singleton_append, List.map_cons]
      exact List.Sublist.cons_cons _ (ih _ _)
    · have hi' : (step cfg eval st env a).2.2.2 = false := by simpa using hi
      simp only [hi', Bool.false_eq_true, if_false, List.nil_append]
      exact List.Sublist.cons _ (ih _ _)

/-- C14 (no self-feeding): all outputs of a run are frames the instance itself would skip -/
theorem outputs_are_skipped (cfg : HCfg) (eval : σ → SFrame → σ × EvalRes) (st : HState) (env : σ)
    (l : List SFrame) : ∀ o ∈ (run cfg eval st env l).2.2.1, isOwn cfg o = true := by
  induction l generalizing st env with
  | nil => simp [run]
  | cons a t ih =>
    intro o ho
    simp only [run, List.mem_append] at ho
    rcases ho with ho | ho
    · have := (step_outputs_stamped cfg eval st env a o ho).1
      simp [isOwn, this]
    · exact ih _ _ o ho

theorem dispatch_invoke_iff (cfg : HCfg) (f : SFrame) : dispatch cfg f = .invoke ↔ isInvoke cfg f = true := by
  unfold dispatch isInvoke
  cases hr : isRegTraffic cfg f <;> cases ho : isOwn cfg f <;> simp
  · split <;> simp
  · split <;> simp

theorem step_invoked_eq (cfg : HCfg) (eval : σ → SFrame → σ × EvalRes) (env : σ) (f : SFrame) :
    (step cfg eval .running env f).2.2.2 = isInvoke cfg f := by
  cases hi : isInvoke cfg f with
  | true =>
    have hd := (dispatch_invoke_iff cfg f).mpr hi
    simp only [step, hd]
    cases he : eval env f with
    | mk env' r =>
      cases r with
      | error msg => rfl
      | ok appends ret => simp only []; split <;> rfl
  | false =>
    have hd : dispatch cfg f ≠ .invoke := by
      intro h; rw [(dispatch_invoke_iff cfg f).mp h] at hi; cases hi
    simp only [step]
    cases hd' : dispatch cfg f with
    | skip => rfl
    | stop o => rfl
    | invoke => exact absurd hd' hd

theorem step_state_cases (cfg : HCfg) (eval : σ → SFrame → σ × EvalRes) (env : σ) (f : SFrame) :
    (step cfg eval .running env f).1 = .running ∨ (step cfg eval .running env f).1 = .stopped := by
  cases (step cfg eval .running env f).1 <;> simp

/-- C14 (exactly once, in order): the closure is run for exactly the frames of the subscription
    that are neither the instance's own output nor registration traffic of its name — every one
    of them, once, in the order delivered — up to the frame that stops it; an instance that is
    still running has gone through its whole subscription that way -/
theorem invocations_exact (cfg : HCfg) (eval : σ → SFrame → σ × EvalRes) (env : σ) (l : List SFrame) :
    ∃ p q, l = p ++ q ∧ (run cfg eval .running env l).2.2.2.map (·.2) = p.filter (isInvoke cfg) ∧
      ((run cfg eval .running env l).1 = .running → q = []) := by
  induction l generalizing env with
  | nil => exact ⟨[], [], rfl, by simp [run], fun _ => rfl⟩
  | cons a t ih =>
    have hinv := step_invoked_eq cfg eval env a
    rcases step_state_cases cfg eval env a with hs | hs
    · obtain ⟨p, q, hl, hi, hq⟩ := ih (step cfg eval .running env a).2.1
      refine ⟨a :: p, q, by simp [hl], ?_, ?_⟩
      · simp only [run, hs, List.map_append, hi, hinv, List.filter_cons]
        cases isInvoke cfg a <;> simp
      · simp only [run, hs]; exact hq
    · refine ⟨[a], t, rfl, ?_, ?_⟩
      · simp only [run, hs, stopped_inert, List.map_append, hinv, List.filter_cons, List.filter_nil]
        cases isInvoke cfg a <;> simp
      · simp only [run, hs, stopped_inert]; intro h; cases h

/-- C16: once the subscription holds a later `.register` / `.unregister` of its name the
    instance is stopped, whatever else happened -/
theorem run_stopped_of_regtraffic (cfg : HCfg) (eval : σ → SFrame → σ × EvalRes) (st : HState) (env : σ)
    (l : List SFrame) (f : SFrame) (hf : f ∈ l) (hr : isRegTraffic cfg f = true) (hlater : cfg.id < f.id) :
    (run cfg eval st env l).1 = .stopped := by
  induction l generalizing st env with
  | nil => cases hf
  | cons a t ih =>
    cases st with
    | stopped => simp [stopped_inert]
    | running =>
      rcases List.mem_cons.mp hf with rfl | hf'
      · simp only [run, replaced_or_unregistered_stops cfg eval env f hr hlater, stopped_inert]
      · simp only [run]; exact ih _ _ hf'

/-- C14/C06: a subscription holds frames of the handler's context only (and its own marker) -/
theorem subscription_ctx (cfg : HCfg) (resume : Resume) (hist live : List SFrame) (thr : SFrame) :
    ∀ f ∈ subscription cfg resume hist live thr, f = thr ∨ f.ctx = cfg.ctx := by
  intro f hf
  unfold subscription at hf
  cases resume <;> simp only [List.mem_append, List.mem_cons, List.mem_filter, decide_eq_true_eq] at hf
  · rcases hf with hf | hf | hf
    · exact Or.inr hf.2
    · exact Or.inl hf
    · exact Or.inr hf.2
  · exact Or.inr hf.2
  · rcases hf with hf | hf | hf
    · exact Or.inr hf.1.2
    · exact Or.inl hf
    · exact Or.inr hf.2

/-- C14: every frame of its context appended after it subscribed is in the subscription, once
    per occurrence and in order: the live part is the context's sub-stream -/
theorem subscription_live_complete (cfg : HCfg) (resume : Resume) (hist live : List SFrame) (thr : SFrame) :
    (live.filter (fun f => f.ctx = cfg.ctx)).Sublist (subscription cfg resume hist live thr) ∧
    ∃ pre, subscription cfg resume hist live thr = pre ++ live.filter (fun f => f.ctx = cfg.ctx) := by
  unfold subscription
  cases resume with
  | head =>
    refine ⟨?_, ⟨hist.filter (fun f => f.ctx = cfg.ctx) ++ [thr], by simp⟩⟩
    exact List.Sublist.trans (List.Sublist.cons thr (List.Sublist.refl _)) (List.sublist_append_right _ _)
  | tail => exact ⟨List.Sublist.refl _, ⟨[], rfl⟩⟩
  | after id =>
    refine ⟨?_, ⟨(hist.filter (fun f => f.ctx = cfg.ctx)).filter (fun f => id < f.id) ++ [thr], by simp⟩⟩
    exact List.Sublist.trans (List.Sublist.cons thr (List.Sublist.refl _)) (List.sublist_append_right _ _)

/-- C17: a handler resuming from tail is not handed anything that was stored before it
    subscribed: historical triggers are not re-executed -/
theorem tail_sees_no_history (cfg : HCfg) (hist live : List SFrame) (thr : SFrame) :
    subscription cfg .tail hist live thr = live.filter (fun f => f.ctx = cfg.ctx) := rfl

/-- the subscription without its marker is a sub-sequence of the stream (history then live) -/
theorem subscription_sublist (cfg : HCfg) (resume : Resume) (hist live : List SFrame) (thr : SFrame) :
    ((subscription cfg resume hist live thr).filter (fun f => f ≠ thr)).Sublist (hist ++ live) := by
  unfold subscription
  cases resume with
  | tail =>
    exact (List.filter_sublist.trans List.filter_sublist).trans (List.sublist_append_right _ _)
  | head =>
    simp only [List.filter_append, List.filter_cons, ne_eq, not_true_eq_false, decide_false]
    exact List.Sublist.append (List.filter_sublist.trans List.filter_sublist)
      (List.filter_sublist.trans List.filter_sublist)
  | after x =>
    simp only [List.filter_append, List.filter_cons, ne_eq, not_true_eq_false, decide_false]
    exact List.Sublist.append
      (List.filter_sublist.trans (List.filter_sublist.trans List.filter_sublist))
      (List.filter_sublist.trans List.filter_sublist)

/-- C14 (in increasing id order): when the stream is in id order, the frames the closure is run
    for - the subscription's own marker aside - are in strictly increasing id order -/
theorem invocations_in_id_order (cfg : HCfg) (eval : σ → SFrame → σ × EvalRes) (st : HState) (env : σ)
    (resume : Resume) (hist live : List SFrame) (thr : SFrame)
    (hs : (hist ++ live).Pairwise (fun a b => a.id < b.id)) :
    (((run cfg eval st env (subscription cfg resume hist live thr)).2.2.2.map (·.2)).filter
      (fun f => f ≠ thr)).Pairwise (fun a b => a.id < b.id) := by
  have h1 := (invocations_sublist cfg eval st env (subscription cfg resume hist live thr)).filter (fun f => f ≠ thr)
  exact (hs.sublist (subscription_sublist cfg resume hist live thr)).sublist h1

theorem idText_inj {a b : Nat} (h : idText a = idText b) : a = b := by
  unfold idText at h
  exact Nat.repr_inj.mp ((String.append_right_inj "id:").mp h)

/-- C15/C14: the outputs of two instances with different ids, however they interleave in the
    stream, are told apart by their stamp: selecting by `handler_id` gives back one instance's
    output, complete and in its own order -/
theorem outputs_separate_by_stamp (cfg1 cfg2 : HCfg) (eval1 eval2 : σ → SFrame → σ × EvalRes)
    (st1 st2 : HState) (env1 env2 : σ) (l1 l2 m : List SFrame) (hne : cfg1.id ≠ cfg2.id)
    (h : Xs.Interleave (run cfg1 eval1 st1 env1 l1).2.2.1 (run cfg2 eval2 st2 env2 l2).2.2.1 m) :
    m.filter (fun o => metaGet o.mdata "handler_id" = some (idText cfg1.id)) = (run cfg1 eval1 st1 env1 l1).2.2.1 := by
  apply Xs.interleave_filter _ h
  · intro o ho
    have := outputs_are_skipped cfg1 eval1 st1 env1 l1 o ho
    simpa [isOwn] using this
  · intro o ho
    have := outputs_are_skipped cfg2 eval2 st2 env2 l2 o ho
    simp only [isOwn, decide_eq_true_eq] at this
    simp only [this, Option.some.injEq, decide_eq_false_iff_not]
    intro e
    exact hne (idText_inj e).symm

end Xs.Serve
