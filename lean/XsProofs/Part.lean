/-
  The partition contract: facts about the key-sorted association list.
-/
import XsModel.Part
namespace Xs

theorem key_lt_irrefl (k : Key) : ¬ k < k := List.lt_irrefl k
theorem key_lt_trans {a b c : Key} (h1 : a < b) (h2 : b < c) : a < c := List.lt_trans h1 h2
theorem key_lt_asymm {a b : Key} (h : a < b) : ¬ b < a := List.lt_asymm h
theorem key_lt_of_not {a b : Key} (h1 : ¬ a < b) (h2 : a ≠ b) : b < a := by
  have := List.le_iff_lt_or_eq.1 (List.not_lt.1 h1)
  rcases this with h | h
  · exact h
  · exact absurd h.symm h2
theorem key_ne_of_lt {a b : Key} (h : a < b) : a ≠ b := by
  rintro rfl; exact key_lt_irrefl _ h

namespace Part
variable {V : Type}

/-- strictly ascending keys -/
def Sorted (p : Part V) : Prop := p.Pairwise (fun a b => a.1 < b.1)

theorem sorted_nil : Sorted ([] : Part V) := List.Pairwise.nil

theorem Sorted.tail {a : Key × V} {p : Part V} (h : Sorted (a :: p)) : Sorted p :=
  (List.pairwise_cons.1 h).2

theorem Sorted.head_lt {a : Key × V} {p : Part V} (h : Sorted (a :: p)) :
    ∀ b ∈ p, a.1 < b.1 := (List.pairwise_cons.1 h).1

theorem Sorted.sublist {p q : Part V} (h : Sorted q) (hs : p.Sublist q) : Sorted p :=
  List.Pairwise.sublist hs h

theorem sorted_filter {p : Part V} (f : Key × V → Bool) (h : Sorted p) : Sorted (p.filter f) :=
  h.sublist List.filter_sublist

theorem get_eq_none_iff {k : Key} {p : Part V} : get k p = none ↔ ∀ v, (k, v) ∉ p := by
  induction p with
  | nil => simp [get]
  | cons a p ih =>
    obtain ⟨k', v'⟩ := a
    simp only [get]
    split
    · rename_i h; subst h; simp
      exact ⟨v', by simp⟩
    · rename_i h
      rw [ih]
      constructor
      · intro hh v hv
        rcases List.mem_cons.1 hv with e | e
        · exact h (by injection e)
        · exact hh v e
      · intro hh v hv; exact hh v (List.mem_cons_of_mem _ hv)

theorem get_eq_some_iff {k : Key} {v : V} {p : Part V} (hs : Sorted p) :
    get k p = some v ↔ (k, v) ∈ p := by
  induction p with
  | nil => simp [get]
  | cons a p ih =>
    obtain ⟨k', v'⟩ := a
    simp only [get]
    split
    · rename_i h; subst h
      constructor
      · intro e; injection e with e; subst e; simp
      · intro hm
        rcases List.mem_cons.1 hm with e | e
        · injection e with _ e; rw [e]
        · exact absurd (hs.head_lt _ e) (key_lt_irrefl _)
    · rename_i h
      rw [ih hs.tail]
      constructor
      · intro hm; exact List.mem_cons_of_mem _ hm
      · intro hm
        rcases List.mem_cons.1 hm with e | e
        · exact absurd (by injection e) h
        · exact e

theorem mem_insert {k : Key} {v : V} {p : Part V} (hs : Sorted p) (x : Key × V) :
    x ∈ insert k v p ↔ x = (k, v) ∨ (x ∈ p ∧ x.1 ≠ k) := by
  induction p with
  | nil => simp [insert]
  | cons a p ih =>
    obtain ⟨k', v'⟩ := a
    simp only [insert]
    split
    · rename_i hlt
      simp only [List.mem_cons]
      constructor
      · rintro (h | h | h)
        · exact Or.inl h
        · subst h; exact Or.inr ⟨Or.inl rfl, (key_ne_of_lt hlt).symm⟩
        · exact Or.inr ⟨Or.inr h, (key_ne_of_lt (key_lt_trans hlt (hs.head_lt _ h))).symm⟩
      · rintro (h | ⟨h | h, _⟩)
        · exact Or.inl h
        · exact Or.inr (Or.inl h)
        · exact Or.inr (Or.inr h)
    · split
      · rename_i _ heq; subst heq
        simp only [List.mem_cons]
        constructor
        · rintro (h | h)
          · exact Or.inl h
          · exact Or.inr ⟨Or.inr h, (key_ne_of_lt (hs.head_lt _ h)).symm⟩
        · rintro (h | ⟨h | h, hne⟩)
          · exact Or.inl h
          · subst h; exact absurd rfl hne
          · exact Or.inr h
      · rename_i hnlt hne
        simp only [List.mem_cons, ih hs.tail]
        constructor
        · rintro (h | h | ⟨h, hn⟩)
          · subst h; exact Or.inr ⟨Or.inl rfl, fun e => hne e.symm⟩
          · exact Or.inl h
          · exact Or.inr ⟨Or.inr h, hn⟩
        · rintro (h | ⟨h | h, hn⟩)
          · exact Or.inr (Or.inl h)
          · exact Or.inl h
          · exact Or.inr (Or.inr ⟨h, hn⟩)

theorem sorted_insert {k : Key} {v : V} {p : Part V} (hs : Sorted p) : Sorted (insert k v p) := by
  induction p with
  | nil => simp [insert, Sorted]
  | cons a p ih =>
    obtain ⟨k', v'⟩ := a
    simp only [insert]
    split
    · rename_i hlt
      refine List.pairwise_cons.2 ⟨?_, hs⟩
      intro b hb
      rcases List.mem_cons.1 hb with e | e
      · subst e; exact hlt
      · exact key_lt_trans hlt (hs.head_lt _ e)
    · split
      · rename_i _ heq; subst heq
        exact List.pairwise_cons.2 ⟨fun b hb => hs.head_lt _ hb, hs.tail⟩
      · rename_i hnlt hne
        refine List.pairwise_cons.2 ⟨?_, ih hs.tail⟩
        intro b hb
        rcases (mem_insert hs.tail b).1 hb with e | ⟨e, _⟩
        · subst e; exact key_lt_of_not hnlt hne
        · exact hs.head_lt _ e

theorem erase_sublist (k : Key) (p : Part V) : (erase k p).Sublist p := by
  induction p with
  | nil => simp [erase]
  | cons a p ih =>
    obtain ⟨k', v'⟩ := a
    simp only [erase]
    split
    · exact List.sublist_cons_self _ _
    · exact List.Sublist.cons_cons _ ih

theorem sorted_erase {k : Key} {p : Part V} (hs : Sorted p) : Sorted (erase k p) :=
  hs.sublist (erase_sublist k p)

theorem mem_erase {k : Key} {p : Part V} (hs : Sorted p) (x : Key × V) :
    x ∈ erase k p ↔ x ∈ p ∧ x.1 ≠ k := by
  induction p with
  | nil => simp [erase]
  | cons a p ih =>
    obtain ⟨k', v'⟩ := a
    simp only [erase]
    split
    · rename_i heq; subst heq
      constructor
      · intro h; exact ⟨List.mem_cons_of_mem _ h, (key_ne_of_lt (hs.head_lt _ h)).symm⟩
      · rintro ⟨h, hne⟩
        rcases List.mem_cons.1 h with e | e
        · subst e; exact absurd rfl hne
        · exact e
    · rename_i hne
      simp only [List.mem_cons, ih hs.tail]
      constructor
      · rintro (h | ⟨h, hn⟩)
        · subst h; exact ⟨Or.inl rfl, fun e => hne e.symm⟩
        · exact ⟨Or.inr h, hn⟩
      · rintro ⟨h | h, hn⟩
        · exact Or.inl h
        · exact Or.inr ⟨h, hn⟩

/-- keys are unique in a sorted partition -/
theorem Sorted.unique {p : Part V} (hs : Sorted p) {k : Key} {v v' : V}
    (h : (k, v) ∈ p) (h' : (k, v') ∈ p) : v = v' := by
  have a := (get_eq_some_iff hs).2 h
  have b := (get_eq_some_iff hs).2 h'
  rw [a] at b; injection b

theorem mem_range {lo hi : Bound} {p : Part V} (x : Key × V) :
    x ∈ range lo hi p ↔ x ∈ p ∧ lo.lowerOk x.1 = true ∧ hi.upperOk x.1 = true := by
  simp [range, List.mem_filter]

theorem mem_scanPrefix {pre : Key} {p : Part V} (x : Key × V) :
    x ∈ scanPrefix pre p ↔ x ∈ p ∧ pre.isPrefixOf x.1 = true := by
  simp [scanPrefix, List.mem_filter]

theorem sorted_range {lo hi : Bound} {p : Part V} (hs : Sorted p) : Sorted (range lo hi p) :=
  sorted_filter _ hs

theorem sorted_scanPrefix {pre : Key} {p : Part V} (hs : Sorted p) : Sorted (scanPrefix pre p) :=
  sorted_filter _ hs

end Part
end Xs

namespace Xs.Part
variable {V : Type}

theorem erase_of_forall_ne {k : Key} {p : Part V} (h : ∀ x ∈ p, x.1 ≠ k) : erase k p = p := by
  induction p with
  | nil => rfl
  | cons a p ih =>
    obtain ⟨k', v'⟩ := a
    simp only [erase]
    split
    · rename_i heq; exact absurd heq.symm (h (k', v') (by simp))
    · rw [ih (fun x hx => h x (List.mem_cons_of_mem _ hx))]

theorem insert_erase_self {k : Key} {v : V} {p : Part V} (hs : Sorted p) :
    insert k v (erase k p) = insert k v p := by
  induction p with
  | nil => simp [erase]
  | cons a p ih =>
    obtain ⟨k', v'⟩ := a
    simp only [erase]
    split
    · rename_i heq; subst heq
      simp only [insert, key_lt_irrefl, if_false, if_true]
      cases p with
      | nil => simp [insert]
      | cons b p =>
        obtain ⟨kb, vb⟩ := b
        have : k < kb := hs.head_lt (kb, vb) (by simp)
        simp [insert, this]
    · rename_i hne
      simp only [insert]
      split
      · rename_i hlt
        rw [erase_of_forall_ne]
        intro x hx
        exact (key_ne_of_lt (key_lt_trans hlt (hs.head_lt x hx))).symm
      · rw [ih hs.tail]

end Xs.Part
