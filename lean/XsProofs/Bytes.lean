/-
  Facts about the big-endian encoding and the three key layouts.
-/
import XsModel.Bytes
namespace Xs

theorem be_length (w n : Nat) : (be w n).length = w := by
  induction w generalizing n with
  | zero => simp [be]
  | succ w ih => simp [be, ih]

theorem lt_append_of_lt_same_len {a b x y : List Nat} (hl : a.length = b.length) (h : a < b) :
    a ++ x < b ++ y := by
  induction a generalizing b with
  | nil => cases b with
    | nil => exact absurd h (List.lt_irrefl _)
    | cons _ _ => simp at hl
  | cons p a ih => cases b with
    | nil => simp at hl
    | cons q b =>
      simp only [List.cons_append, List.cons_lt_cons_iff] at h ⊢
      rcases h with h | ⟨rfl, h⟩
      · exact Or.inl h
      · exact Or.inr ⟨rfl, ih (by simpa using hl) h⟩

theorem append_lt_append_left_iff (a : List Nat) {x y : List Nat} : a ++ x < a ++ y ↔ x < y := by
  induction a with
  | nil => simp
  | cons p a ih => simp [ih]

theorem be_lt {w n m : Nat} (hn : n < 256 ^ w) (hm : m < 256 ^ w) (h : n < m) : be w n < be w m := by
  induction w generalizing n m with
  | zero => simp at hn hm; omega
  | succ w ih =>
    simp only [be]
    have hn' : n / 256 < 256 ^ w := by rw [Nat.pow_succ] at hn; omega
    have hm' : m / 256 < 256 ^ w := by rw [Nat.pow_succ] at hm; omega
    by_cases hq : n / 256 < m / 256
    · exact lt_append_of_lt_same_len (by simp [be_length]) (ih hn' hm' hq)
    · have : n / 256 = m / 256 := by omega
      rw [this, append_lt_append_left_iff]
      simp [List.cons_lt_cons_iff]; omega

theorem be_lt_iff {w n m : Nat} (hn : n < 256 ^ w) (hm : m < 256 ^ w) : be w n < be w m ↔ n < m := by
  constructor
  · intro h
    rcases Nat.lt_trichotomy n m with h' | h' | h'
    · exact h'
    · subst h'; exact absurd h (List.lt_irrefl _)
    · exact absurd (List.lt_trans h (be_lt hm hn h')) (List.lt_irrefl _)
  · exact be_lt hn hm

theorem be_inj {w n m : Nat} (hn : n < 256 ^ w) (hm : m < 256 ^ w) (h : be w n = be w m) : n = m := by
  rcases Nat.lt_trichotomy n m with h' | h' | h'
  · have := be_lt hn hm h'; rw [h] at this; exact absurd this (List.lt_irrefl _)
  · exact h'
  · have := be_lt hm hn h'; rw [h] at this; exact absurd this (List.lt_irrefl _)

theorem unbe_append_single (l : List Nat) (b : Nat) : unbe (l ++ [b]) = unbe l * 256 + b := by
  simp [unbe, List.foldl_append]

theorem unbe_be {w n : Nat} (hn : n < 256 ^ w) : unbe (be w n) = n := by
  induction w generalizing n with
  | zero => simp at hn; subst hn; rfl
  | succ w ih =>
    have hn' : n / 256 < 256 ^ w := by rw [Nat.pow_succ] at hn; omega
    simp only [be, unbe_append_single, ih hn']
    omega

theorem idBound_eq : idBound = 256 ^ 16 := rfl

/-- `id.to_u128() + 1` does not saturate exactly when `c + 1 < 2^128` -/
theorem ctxRangeEnd_of_lt {c : Nat} (h : c + 1 < idBound) : ctxRangeEnd c = be 16 (c + 1) := by
  simp [ctxRangeEnd, h]

theorem drop_append_of_length {a b : List Nat} {n : Nat} (h : a.length = n) : (a ++ b).drop n = b := by
  subst h; simp

theorem idOfCtxKey_ctxKey {c i : Nat} (hi : i < idBound) : idOfCtxKey (ctxKey c i) = i := by
  unfold idOfCtxKey ctxKey
  rw [drop_append_of_length (be_length 16 c)]
  exact unbe_be hi

theorem topicKey_length (c : Nat) (t : List Nat) (i : Nat) :
    (topicKey c t i).length = 16 + (t.length + 1) + 16 := by
  simp [topicKey, topicPrefix, be_length]; omega

theorem idOfTopicKey_topicKey {c i : Nat} {t : List Nat} (hi : i < idBound) :
    idOfTopicKey (topicKey c t i) = i := by
  unfold idOfTopicKey
  rw [topicKey_length]
  have : (topicKey c t i) = (be 16 c ++ (t ++ [0])) ++ be 16 i := rfl
  rw [this, drop_append_of_length (by simp [be_length])]
  exact unbe_be hi

theorem ctxKey_length (c i : Nat) : (ctxKey c i).length = 32 := by simp [ctxKey, be_length]

/-- two lists of the same length that are prefixes of the same list are equal -/
theorem append_eq_append_of_length {a b x y : List Nat} (hl : a.length = b.length)
    (h : a ++ x = b ++ y) : a = b ∧ x = y := by
  exact List.append_inj h hl

theorem ctxKey_inj {c c' i i' : Nat} (hc : c < idBound) (hc' : c' < idBound) (hi : i < idBound)
    (hi' : i' < idBound) (h : ctxKey c i = ctxKey c' i') : c = c' ∧ i = i' := by
  unfold ctxKey at h
  obtain ⟨h1, h2⟩ := append_eq_append_of_length (by simp [be_length]) h
  exact ⟨be_inj hc hc' h1, be_inj hi hi' h2⟩

/-- order of `idx_context` keys: context first, then id -/
theorem ctxKey_lt_iff {c c' i i' : Nat} (hc : c < idBound) (hc' : c' < idBound) (hi : i < idBound)
    (hi' : i' < idBound) : ctxKey c i < ctxKey c' i' ↔ c < c' ∨ (c = c' ∧ i < i') := by
  unfold ctxKey
  rcases Nat.lt_trichotomy c c' with h | h | h
  · have := lt_append_of_lt_same_len (x := be 16 i) (y := be 16 i') (by simp [be_length]) (be_lt hc hc' h)
    simp [this, h]
  · subst h; rw [append_lt_append_left_iff, be_lt_iff hi hi']; simp
  · have := lt_append_of_lt_same_len (x := be 16 i') (y := be 16 i) (by simp [be_length]) (be_lt hc' hc h)
    constructor
    · intro h'; exact absurd (List.lt_trans h' this) (List.lt_irrefl _)
    · intro h'; omega

end Xs

namespace Xs

theorem topic_prefix_exact {t t' r : List Nat} (ht : NulFree t) (ht' : NulFree t') :
    (t ++ [0]) <+: (t' ++ 0 :: r) ↔ t = t' := by
  constructor
  · intro h
    induction t generalizing t' with
    | nil =>
      cases t' with
      | nil => rfl
      | cons a t' =>
        have : a = 0 := by rcases h with ⟨s, hs⟩; simp at hs; exact hs.1.symm
        exact absurd this (ht' a (by simp))
    | cons a t ih =>
      cases t' with
      | nil =>
        rcases h with ⟨s, hs⟩; simp at hs
        exact absurd hs.1 (ht a (by simp))
      | cons b t' =>
        rcases h with ⟨s, hs⟩
        simp only [List.cons_append, List.cons.injEq] at hs
        obtain ⟨rfl, hs⟩ := hs
        have := ih (t' := t') (fun x hx => ht x (by simp [hx]))
          (fun x hx => ht' x (by simp [hx])) ⟨s, by simpa using hs⟩
        rw [this]
  · rintro rfl
    exact ⟨r, by simp⟩

theorem prefix_append_of_length {a b x y : List Nat} (hl : a.length = b.length) :
    (a ++ x) <+: (b ++ y) ↔ a = b ∧ x <+: y := by
  constructor
  · rintro ⟨s, hs⟩
    rw [List.append_assoc] at hs
    obtain ⟨h1, h2⟩ := List.append_inj hs hl
    exact ⟨h1, ⟨s, h2⟩⟩
  · rintro ⟨rfl, ⟨s, rfl⟩⟩
    exact ⟨s, by simp⟩

/-- the prefix scan `ctx‖topic‖0x00` selects exactly the keys of that context and topic -/
theorem topicPrefix_isPrefixOf_topicKey {c c' i : Nat} {t t' : List Nat}
    (hc : c < idBound) (hc' : c' < idBound) (ht : NulFree t) (ht' : NulFree t') :
    (topicPrefix c t).isPrefixOf (topicKey c' t' i) = true ↔ c = c' ∧ t = t' := by
  rw [List.isPrefixOf_iff_prefix]
  have e : topicKey c' t' i = be 16 c' ++ (t' ++ 0 :: be 16 i) := by
    simp [topicKey, topicPrefix]
  rw [e, topicPrefix, prefix_append_of_length (by simp [be_length]), topic_prefix_exact ht ht']
  constructor
  · rintro ⟨h1, h2⟩; exact ⟨be_inj hc hc' h1, h2⟩
  · rintro ⟨rfl, rfl⟩; exact ⟨rfl, rfl⟩

/-- within one (context, topic) the index keys are ordered by id -/
theorem topicKey_lt_iff {c i i' : Nat} {t : List Nat} (hi : i < idBound) (hi' : i' < idBound) :
    topicKey c t i < topicKey c t i' ↔ i < i' := by
  unfold topicKey
  rw [append_lt_append_left_iff, be_lt_iff hi hi']

theorem topicKey_inj {c c' i i' : Nat} {t t' : List Nat} (hc : c < idBound) (hc' : c' < idBound)
    (hi : i < idBound) (hi' : i' < idBound) (ht : NulFree t) (ht' : NulFree t')
    (h : topicKey c t i = topicKey c' t' i') : c = c' ∧ t = t' ∧ i = i' := by
  have hp : (topicPrefix c t).isPrefixOf (topicKey c' t' i') = true := by
    rw [← h, List.isPrefixOf_iff_prefix]; exact ⟨be 16 i, rfl⟩
  obtain ⟨rfl, rfl⟩ := (topicPrefix_isPrefixOf_topicKey hc hc' ht ht').1 hp
  refine ⟨rfl, rfl, ?_⟩
  unfold topicKey at h
  exact be_inj hi hi' (List.append_cancel_left h)

theorem idKey_lt_iff {i i' : Nat} (hi : i < idBound) (hi' : i' < idBound) :
    idKey i < idKey i' ↔ i < i' := be_lt_iff hi hi'

theorem idKey_inj {i i' : Nat} (hi : i < idBound) (hi' : i' < idBound) (h : idKey i = idKey i') :
    i = i' := be_inj hi hi' h

end Xs

