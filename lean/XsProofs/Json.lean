import XsModel.Json
import XsProofs.Query
namespace Xs.Wire

theorem keys_distinct :
    kTopic ≠ kCtx ∧ kTopic ≠ kId ∧ kTopic ≠ kHash ∧ kTopic ≠ kMeta ∧ kTopic ≠ kTtl ∧
    kCtx ≠ kTopic ∧ kCtx ≠ kId ∧ kCtx ≠ kHash ∧ kCtx ≠ kMeta ∧ kCtx ≠ kTtl ∧
    kId ≠ kTopic ∧ kId ≠ kCtx ∧ kId ≠ kHash ∧ kId ≠ kMeta ∧ kId ≠ kTtl ∧
    kHash ≠ kTopic ∧ kHash ≠ kCtx ∧ kHash ≠ kId ∧ kHash ≠ kMeta ∧ kHash ≠ kTtl ∧
    kMeta ≠ kTopic ∧ kMeta ≠ kCtx ∧ kMeta ≠ kId ∧ kMeta ≠ kHash ∧ kMeta ≠ kTtl ∧
    kTtl ≠ kTopic ∧ kTtl ≠ kCtx ∧ kTtl ≠ kId ∧ kTtl ≠ kHash ∧ kTtl ≠ kMeta := by decide

theorem depth_encodeFrame (f : WFrame) :
    (encodeFrame f).depth = 1 + (match f.mdata with | some m => m.depth | none => 0) := by
  cases hh : f.hash <;> cases hm : f.mdata <;> cases ht : f.ttl <;>
    simp [encodeFrame, J.depth, depthKvs, optJ, hh, hm, ht]

/-- C12: every well-formed frame serialises to JSON that parses back to the identical frame -/
theorem decode_encode (hs : HashSpec) (f : WFrame) (w : WfWFrame hs f) :
    decodeFrame hs (encodeFrame f) = .ok f := by
  obtain ⟨k1, k2, k3, k4, k5, k6, k7, k8, k9, k10, k11, k12, k13, k14, k15, k16, k17, k18, k19, k20,
    k21, k22, k23, k24, k25, k26, k27, k28, k29, k30⟩ := keys_distinct
  have hdepth : ¬ (encodeFrame f).depth > maxDepth := by
    rw [depth_encodeFrame]
    cases hm : f.mdata with
    | none => simp [maxDepth]
    | some m => have := w.meta_depth m hm; simp only; omega
  obtain ⟨topic, ctx, id, hash, mdata, ttl⟩ := f
  have hc := parseId_showId w.ctx_lt
  have hi := parseId_showId w.id_lt
  simp only at hc hi
  unfold decodeFrame
  rw [if_neg hdepth]
  simp only [encodeFrame, lookup, if_true, k1, k2, k3, k4, k5, k6, k7, k8, k9, k10, k11, k12, k13, k14, k15,
    k16, k17, k18, k19, k20, k21, k22, k23, k24, k25, k26, k27, k28, k29, k30, if_false, hc, hi]
  have hhash : ∀ h, hash = some h → hs.valid h = true := w.hash_ok
  have httl : ∀ t, ttl = some t → WfTTL t := w.ttl_wf
  have hmeta : mdata ≠ some .null := w.meta_not_null
  cases hash with
  | none =>
    cases ttl with
    | none =>
      cases mdata with
      | none => simp [optJ]
      | some m => cases m <;> simp_all [optJ]
    | some t =>
      have := parseTTL_printTTL t (httl t rfl)
      cases mdata with
      | none => simp [optJ, this]
      | some m => cases m <;> simp_all [optJ]
  | some h =>
    have hv := hhash h rfl
    cases ttl with
    | none =>
      cases mdata with
      | none => simp [optJ, hv]
      | some m => cases m <;> simp_all [optJ]
    | some t =>
      have := parseTTL_printTTL t (httl t rfl)
      cases mdata with
      | none => simp [optJ, hv, this]
      | some m => cases m <;> simp_all [optJ]

/-- the two JSON values that do not round-trip, as kernel-checked facts:
    meta = `Some(null)` reads back as no meta (F24) … -/
theorem meta_null_reads_back_as_none :
    (decodeFrame ⟨fun _ => true⟩ (encodeFrame { topic := [], ctx := 0, id := 0, hash := none, mdata := some .null, ttl := none })).toOption.map
      (fun f => f.mdata.isNone) = some true := by
  decide

/-- … and a frame whose meta is nested 127 deep serialises but does not parse back (F13):
    `insert_frame` must refuse it -/
def nest : Nat → J
  | 0 => .arr []
  | n+1 => .arr [nest n]

theorem depth_nest (n : Nat) : (nest n).depth = n + 1 := by
  induction n with
  | zero => simp [nest, J.depth, depthList]
  | succ n ih => simp [nest, J.depth, depthList, ih]; omega

theorem deep_meta_does_not_decode (hs : HashSpec) :
    (decodeFrame hs (encodeFrame { topic := [], ctx := 0, id := 0, hash := none, mdata := some (nest 126), ttl := none })).toOption.isNone = true := by
  have : (encodeFrame { topic := [], ctx := 0, id := 0, hash := none, mdata := some (nest 126), ttl := none }).depth > maxDepth := by
    rw [depth_encodeFrame]; simp [depth_nest, maxDepth]
  simp [decodeFrame, this, Except.toOption]

end Xs.Wire
