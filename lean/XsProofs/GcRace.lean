/-
  Explicit removals racing the head:N collector.

  The collector picks its victims in one scan (`CheckHeadTTL`: newest first, skip `keep`) and then
  removes them one `Store::remove` at a time; meanwhile other threads may remove frames
  explicitly.  As long as the explicit removals that land *before* the scan hit frames outside
  the `keep` newest of the topic, the frames stored at the end are the same as if the collector
  had run first and all removals afterwards - wherever the removals fall, and however the
  collector's own removals interleave with the later ones.
-/
import XsProofs.Gc
namespace Xs
open Part

attribute [local irreducible] be unbe

/-- how many members of `L` are newer than `g` -/
def newerCount (L : List Frame) (g : Frame) : Nat := (L.filter (fun h => decide (g.id < h.id))).length

theorem newerCount_lt_length {L : List Frame} {g : Frame} (hg : g ∈ L) : newerCount L g < L.length := by
  unfold newerCount
  exact List.length_filter_lt_length_iff_exists.2 ⟨g, hg, by simp⟩

/-- in a list sorted by id, everything but the `keep` newest = the members with at least `keep`
    newer ones -/
theorem mem_take_iff_rank {L : List Frame} (hs : L.Pairwise (fun a b => a.id < b.id)) (keep : Nat) (g : Frame) :
    g ∈ L.take (L.length - keep) ↔ g ∈ L ∧ keep ≤ newerCount L g := by
  induction L with
  | nil => simp
  | cons a L' ih =>
    obtain ⟨ha, hs'⟩ := List.pairwise_cons.1 hs
    have hall : newerCount (a :: L') a = L'.length := by
      unfold newerCount
      rw [List.filter_cons]
      simp only [Nat.lt_irrefl, decide_false, Bool.false_eq_true, if_false]
      rw [List.filter_eq_self.2]
      intro b hb; simpa using ha b hb
    have hrest : ∀ g ∈ L', newerCount (a :: L') g = newerCount L' g := by
      intro g hg
      unfold newerCount
      rw [List.filter_cons]
      have : ¬ g.id < a.id := by have := ha g hg; omega
      simp [this]
    by_cases hk : keep ≤ L'.length
    · have e : (a :: L').length - keep = (L'.length - keep) + 1 := by simp only [List.length_cons]; omega
      rw [e, List.take_succ_cons, List.mem_cons]
      constructor
      · rintro (rfl | hg)
        · exact ⟨List.mem_cons_self, by rw [hall]; exact hk⟩
        · have := (ih hs').1 hg
          exact ⟨List.mem_cons_of_mem _ this.1, by rw [hrest g this.1]; exact this.2⟩
      · rintro ⟨hm, hr⟩
        rcases List.mem_cons.1 hm with rfl | hg
        · exact Or.inl rfl
        · exact Or.inr ((ih hs').2 ⟨hg, by rw [← hrest g hg]; exact hr⟩)
    · have e : (a :: L').length - keep = 0 := by simp only [List.length_cons]; omega
      rw [e, List.take_zero]
      constructor
      · intro h; cases h
      · rintro ⟨hm, hr⟩
        have := newerCount_lt_length hm
        simp only [List.length_cons] at this
        omega

theorem length_filter_le_of_imp {α : Type} (p q : α → Bool) (L : List α)
    (h : ∀ a ∈ L, p a = true → q a = true) : (L.filter p).length ≤ (L.filter q).length := by
  have : L.filter p = (L.filter q).filter p := by
    rw [List.filter_filter]
    apply List.filter_congr
    intro a ha
    cases hp : p a with
    | false => simp
    | true => simp [h a ha hp]
  rw [this]
  exact List.filter_sublist.length_le

/-- `x` is not the id of one of the `keep` newest frames of (context `c`, topic `t`) -/
def OldIn (s : State) (c : Nat) (t : List Nat) (keep : Nat) (x : Nat) : Prop :=
  ∀ f ∈ topicFrames s c t, f.id = x → keep ≤ newerCount (topicFrames s c t) f

/-- the topic's frames after an explicit removal -/
theorem topicFrames_remove {s : State} (h : Inv s) {x : Nat} (hx : x < idBound) (c : Nat) (t : List Nat) :
    topicFrames (s.remove x) c t = (topicFrames s c t).filter (fun f => decide (f.id ≠ x)) := by
  apply eq_of_sorted_of_mem_iff (fun f : Frame => f.id)
  · exact topicFrames_sorted (remove_inv h x).k c t
  · exact pairwise_filter_of _ (topicFrames_sorted h.k c t)
  · intro g
    simp only [topicFrames, List.mem_filter, mem_frames_remove h.k hx, decide_eq_true_eq]
    constructor
    · rintro ⟨⟨a, b⟩, c⟩; exact ⟨⟨a, c⟩, b⟩
    · rintro ⟨⟨a, c⟩, b⟩; exact ⟨⟨a, b⟩, c⟩

/-- removing a frame outside the `keep` newest does not change who has `keep` newer ones -/
theorem rank_stable {L : List Frame} (hs : L.Pairwise (fun a b => a.id < b.id)) (keep x : Nat)
    (hold : ∀ f ∈ L, f.id = x → keep ≤ newerCount L f) (g : Frame) (_hg : g ∈ L) (_hgx : g.id ≠ x) :
    keep ≤ newerCount (L.filter (fun f => decide (f.id ≠ x))) g ↔ keep ≤ newerCount L g := by
  constructor
  · intro hk
    refine Nat.le_trans hk ?_
    unfold newerCount
    exact (List.Sublist.filter _ List.filter_sublist).length_le
  · intro hk
    by_cases hex : ∃ fx ∈ L, fx.id = x ∧ g.id < fx.id
    · obtain ⟨fx, hfx, hfxid, hlt⟩ := hex
      refine Nat.le_trans (hold fx hfx hfxid) ?_
      unfold newerCount
      rw [List.filter_filter]
      apply length_filter_le_of_imp
      intro h _ hh
      simp only [decide_eq_true_eq, Bool.and_eq_true, ne_eq, decide_not, Bool.not_eq_eq_eq_not, Bool.not_true,
        decide_eq_false_iff_not] at hh ⊢
      exact ⟨by omega, by omega⟩
    · have : (L.filter (fun f => decide (f.id ≠ x))).filter (fun h => decide (g.id < h.id)) =
          L.filter (fun h => decide (g.id < h.id)) := by
        rw [List.filter_filter]
        apply List.filter_congr
        intro h hh
        by_cases hl : g.id < h.id
        · have : h.id ≠ x := fun e => hex ⟨h, hh, e, hl⟩
          simp [hl, this]
        · simp [hl]
      unfold newerCount
      rw [this]; exact hk

/-- the ids a `CheckHeadTTL` task picks in state `s` -/
def victimIds (s : State) (c : Nat) (t : List Nat) (keep : Nat) : List Nat :=
  ((Part.scanPrefix (topicPrefix c t) s.idxT).reverse.drop keep).map (fun kv => idOfTopicKey kv.1)

theorem applyTask_checkHead (s : State) (c : Nat) (t : List Nat) (keep : Nat) :
    s.applyTask (.checkHead c t keep) = (victimIds s c t keep).foldl State.remove s := rfl

theorem victimIds_lt {s : State} (h : Inv s) {t : List Nat} {c : Nat} (ht : NulFree t) (hc : c < idBound)
    (keep : Nat) : ∀ i ∈ victimIds s c t keep, i < idBound := by
  intro i hi
  unfold victimIds at hi
  rw [checkHead_ids h.k ht hc keep] at hi
  simp only [List.mem_reverse, List.mem_map] at hi
  obtain ⟨g', hg', e⟩ := hi
  have hg'f : g' ∈ frames s := (List.mem_filter.1 (List.mem_of_mem_take hg')).1
  rw [← e]; exact (h.k.wfFrame hg'f).id_lt

/-- the collector's task in terms of ranks -/
theorem checkHead_frames_rank {s : State} (h : Inv s) {t : List Nat} {c : Nat} (ht : NulFree t)
    (hc : c < idBound) (keep : Nat) (g : Frame) :
    g ∈ frames (s.applyTask (.checkHead c t keep)) ↔
      g ∈ frames s ∧ ¬ (g ∈ topicFrames s c t ∧ keep ≤ newerCount (topicFrames s c t) g) := by
  rw [checkHead_frames h ht hc keep g, mem_take_iff_rank (topicFrames_sorted h.k c t)]

/-- one explicit removal of an old frame first, the collector afterwards = the collector first -/
theorem remove_old_then_collect {s : State} (h : Inv s) {t : List Nat} {c : Nat} (ht : NulFree t)
    (hc : c < idBound) (keep : Nat) {x : Nat} (hx : x < idBound) (hold : OldIn s c t keep x) (g : Frame) :
    g ∈ frames ((s.remove x).applyTask (.checkHead c t keep)) ↔
      g ∈ frames (s.applyTask (.checkHead c t keep)) ∧ g.id ≠ x := by
  rw [checkHead_frames_rank (remove_inv h x) ht hc, checkHead_frames_rank h ht hc, mem_frames_remove h.k hx,
    topicFrames_remove h hx]
  have hs := topicFrames_sorted h.k c t
  constructor
  · rintro ⟨⟨hg, hgx⟩, hn⟩
    refine ⟨⟨hg, fun ⟨hm, hr⟩ => hn ⟨?_, ?_⟩⟩, hgx⟩
    · exact List.mem_filter.2 ⟨hm, by simpa using hgx⟩
    · exact (rank_stable hs keep x hold g hm hgx).2 hr
  · rintro ⟨⟨hg, hn⟩, hgx⟩
    refine ⟨⟨hg, hgx⟩, fun ⟨hm, hr⟩ => hn ?_⟩
    have hm' := (List.mem_filter.1 hm).1
    exact ⟨hm', (rank_stable hs keep x hold g hm' hgx).1 hr⟩

/-- … and the other old frames are still old afterwards -/
theorem oldIn_remove {s : State} (h : Inv s) (c : Nat) (t : List Nat) (keep : Nat) {x y : Nat} (hx : x < idBound)
    (holdx : OldIn s c t keep x) (holdy : OldIn s c t keep y) : OldIn (s.remove x) c t keep y := by
  intro f hf hfy
  rw [topicFrames_remove h hx] at hf ⊢
  obtain ⟨hm, hne⟩ := List.mem_filter.1 hf
  have hne : f.id ≠ x := by simpa using hne
  exact (rank_stable (topicFrames_sorted h.k c t) keep x holdx f hm hne).2 (holdy f hm hfy)

/-- any number of explicit removals of old frames before the collector's scan -/
theorem removes_old_then_collect {s : State} (h : Inv s) {t : List Nat} {c : Nat} (ht : NulFree t)
    (hc : c < idBound) (keep : Nat) (R : List Nat) (hR : ∀ x ∈ R, x < idBound)
    (hold : ∀ x ∈ R, OldIn s c t keep x) (g : Frame) :
    g ∈ frames ((R.foldl State.remove s).applyTask (.checkHead c t keep)) ↔
      g ∈ frames (s.applyTask (.checkHead c t keep)) ∧ g.id ∉ R := by
  induction R generalizing s with
  | nil => simp
  | cons x R ih =>
    simp only [List.foldl_cons]
    have hx := hR x (by simp)
    have holdx := hold x (by simp)
    rw [ih (remove_inv h x) (fun y hy => hR y (List.mem_cons_of_mem _ hy))
      (fun y hy => oldIn_remove h c t keep hx holdx (hold y (List.mem_cons_of_mem _ hy))),
      remove_old_then_collect h ht hc keep hx holdx]
    simp only [List.mem_cons, not_or]
    constructor
    · rintro ⟨⟨a, b⟩, c⟩; exact ⟨a, b, c⟩
    · rintro ⟨a, b, c⟩; exact ⟨⟨a, b⟩, c⟩

/-- C08, explicit removals racing the collector: `R1` are the removals that land before the
    collector's scan (all of frames outside the `keep` newest of the topic), `mix` is *any*
    sequence made of the collector's own removals and the later explicit ones `R2`, in any order
    and with any repetitions.  The frames stored at the end are those of the sequential history
    collector; then all the removals. -/
theorem removals_race_collector {s : State} (h : Inv s) {t : List Nat} {c : Nat} (ht : NulFree t)
    (hc : c < idBound) (keep : Nat) (R1 R2 mix : List Nat) (hR1 : ∀ x ∈ R1, x < idBound)
    (hR2 : ∀ x ∈ R2, x < idBound) (hold : ∀ x ∈ R1, OldIn s c t keep x)
    (hmix : ∀ i, i ∈ mix ↔ i ∈ victimIds (R1.foldl State.remove s) c t keep ∨ i ∈ R2) (g : Frame) :
    g ∈ frames (mix.foldl State.remove (R1.foldl State.remove s)) ↔
      g ∈ frames ((R1 ++ R2).foldl State.remove (s.applyTask (.checkHead c t keep))) := by
  have h1 : Inv (R1.foldl State.remove s) := foldl_remove_inv h R1
  have hv := victimIds_lt h1 ht hc keep
  rw [mem_frames_foldl_remove h1 mix (fun i hi => by
        rcases (hmix i).1 hi with hi | hi
        · exact hv i hi
        · exact hR2 i hi)]
  rw [mem_frames_foldl_remove (applyTask_inv h _) (R1 ++ R2) (fun i hi => by
        rcases List.mem_append.1 hi with hi | hi
        · exact hR1 i hi
        · exact hR2 i hi)]
  have key := removes_old_then_collect h ht hc keep R1 hR1 hold g
  rw [applyTask_checkHead, mem_frames_foldl_remove h1 _ hv] at key
  simp only [hmix, not_or, List.mem_append]
  constructor
  · rintro ⟨hg, hnv, hn2⟩
    obtain ⟨a, b⟩ := key.1 ⟨hg, hnv⟩
    exact ⟨a, b, hn2⟩
  · rintro ⟨a, b, hn2⟩
    obtain ⟨hg, hnv⟩ := key.2 ⟨a, b⟩
    exact ⟨hg, hnv, hn2⟩

end Xs
