import XsModel.Journal
import XsProofs.History
namespace Xs.Journal

theorem applyBatch_append (p : Parts) (a b : Batch) : applyBatch p (a ++ b) = applyBatch (applyBatch p a) b := by
  simp [applyBatch, List.foldl_append]

/-- the batch of `insert_frame` produces exactly the partitions of the model's `insertFrameCore` -/
theorem applyBatch_insertBatch (s : State) (f : Frame) :
    applyBatch (Parts.ofState s) (insertBatch s f) = Parts.ofState (s.insertFrameCore f) := by
  unfold insertBatch State.insertFrameCore Parts.ofState
  cases hg : s.get f.id with
  | none => simp [applyBatch, applyItem]
  | some o =>
    by_cases hn : hasNul o.topic = true <;>
    by_cases ht : topicKey o.ctx o.topic o.id = topicKey f.ctx f.topic f.id <;>
    by_cases hc : ctxKey o.ctx o.id = ctxKey f.ctx f.id <;>
    simp [applyBatch, applyItem, hn, ht, hc]

theorem applyBatch_removeBatch (s : State) (id : Nat) :
    applyBatch (Parts.ofState s) (removeBatch s id) = Parts.ofState (s.remove id) := by
  unfold removeBatch State.remove Parts.ofState
  cases hg : s.get id with
  | none => simp [applyBatch]
  | some f =>
    by_cases hn : hasNul f.topic = true <;> simp [applyBatch, applyItem, hn]

def applyAll (p : Parts) (bs : List Batch) : Parts := bs.foldl applyBatch p

theorem applyAll_append (p : Parts) (a b : List Batch) : applyAll p (a ++ b) = applyAll (applyAll p a) b := by
  simp [applyAll, List.foldl_append]

theorem applyAll_removes (s : State) (ids : List Nat) :
    applyAll (Parts.ofState s) (removesBatches s ids) = Parts.ofState (ids.foldl State.remove s) := by
  induction ids generalizing s with
  | nil => rfl
  | cons a l ih =>
    simp only [removesBatches, List.foldl_cons]
    show applyAll (applyBatch (Parts.ofState s) (removeBatch s a)) _ = _
    rw [applyBatch_removeBatch, ih]

theorem applyAll_task (s : State) (t : GCTask) :
    applyAll (Parts.ofState s) (taskBatches s t) = Parts.ofState (s.applyTask t) := by
  cases t with
  | remove id =>
    show applyBatch (Parts.ofState s) (removeBatch s id) = _
    exact applyBatch_removeBatch s id
  | checkHead c tp keep => exact applyAll_removes s _

theorem applyAll_tasks (s : State) (ts : List GCTask) :
    applyAll (Parts.ofState s) (tasksBatches s ts) = Parts.ofState (ts.foldl State.applyTask s) := by
  induction ts generalizing s with
  | nil => rfl
  | cons a l ih =>
    simp only [tasksBatches, List.foldl_cons]
    rw [applyAll_append, applyAll_task, ih]

/-- one operation: its batches, applied in order, give the partitions of the next state -/
theorem step_parts (s : State) (op : Op) :
    applyAll (Parts.ofState s) (opBatches s op) = Parts.ofState (s.step op) := by
  cases op with
  | append f id =>
    simp only [opBatches, State.step]
    cases e : s.append f id with
    | error _ => rfl
    | ok r =>
      obtain ⟨s', f'⟩ := r
      obtain ⟨_, _, _, h4⟩ := append_spec.1 e
      by_cases he : f'.ttl = some .ephemeral
      · simp only [he, if_true] at h4 ⊢
        rw [h4]; rfl
      · simp only [he, if_false] at h4 ⊢
        rw [h4.2]
        show applyBatch (Parts.ofState s) (insertBatch s f') = _
        rw [applyBatch_insertBatch]; rfl
  | importF f =>
    simp only [opBatches, State.step]
    cases e : s.insertFrame f with
    | error _ => rfl
    | ok s' =>
      obtain ⟨_, _, rfl⟩ := insertFrame_ok e
      show applyBatch (Parts.ofState s) (insertBatch s f) = _
      exact applyBatch_insertBatch s f
  | remove id =>
    show applyBatch (Parts.ofState s) (removeBatch s id) = _
    exact applyBatch_removeBatch s id
  | readSync c l n now => rfl
  | readHist c l n now => rfl
  | gc =>
    simp only [opBatches, State.step, State.gcStep]
    cases hq : s.gcq with
    | nil => rfl
    | cons t q => exact applyAll_task { s with gcq := q } t
  | drain =>
    simp only [opBatches, State.step, State.drain]
    exact applyAll_tasks { s with gcq := [] } s.gcq
  | reopen => rfl

/-- replaying the journal of a history gives the partitions the history leaves -/
theorem journal_replay (s : State) (ops : List Op) :
    applyAll (Parts.ofState s) (journal s ops) = Parts.ofState (s.run ops) := by
  induction ops generalizing s with
  | nil => rfl
  | cons op rest ih =>
    simp only [journal, State.run, List.foldl_cons]
    rw [applyAll_append, step_parts]
    exact ih (s.step op)

theorem journal_append (s : State) (a b : List Op) :
    journal s (a ++ b) = journal s a ++ journal (s.run a) b := by
  induction a generalizing s with
  | nil => rfl
  | cons op rest ih =>
    simp only [List.cons_append, journal, State.run, List.foldl_cons, ih, List.append_assoc]

/-- append, import and remove commit at most one batch: there is no on-disk state "in the
    middle" of such an operation -/
theorem single_batch_ops (s : State) (op : Op)
    (h : (∃ f id, op = .append f id) ∨ (∃ f, op = .importF f) ∨ (∃ id, op = .remove id)) :
    (opBatches s op).length ≤ 1 := by
  rcases h with ⟨f, id, rfl⟩ | ⟨f, rfl⟩ | ⟨id, rfl⟩
  · simp only [opBatches]
    cases s.append f id with
    | error _ => simp
    | ok r => obtain ⟨_, f'⟩ := r; simp only; split <;> simp
  · simp only [opBatches]
    cases s.insertFrame f <;> simp
  · simp [opBatches]

/-- C04: recovery after a crash at an operation boundary — whatever torn tail follows — gives
    exactly the partitions after the operations whose batches are complete -/
theorem recover_at_boundary (ops : List Op) (k : Nat) (torn : Option Batch) :
    recover { complete := journal State.init (ops.take k), torn := torn } =
      Parts.ofState (State.init.run (ops.take k)) := by
  have := journal_replay State.init (ops.take k)
  simpa [recover, applyAll, Parts.ofState, State.init] using this

/-- C04: a crash during an append / import / remove is all-or-nothing: the journal then holds
    the batches of the operations before it plus either nothing or the operation's one batch,
    and recovery gives the state before or the state after -/
theorem crash_during_op_atomic (pre : List Op) (op : Op) (j : Nat) (torn : Option Batch)
    (h : (∃ f id, op = .append f id) ∨ (∃ f, op = .importF f) ∨ (∃ id, op = .remove id)) :
    let img : Image := { complete := journal State.init pre ++ (opBatches (State.init.run pre) op).take j, torn := torn }
    recover img = Parts.ofState (State.init.run pre) ∨
    recover img = Parts.ofState (State.init.run (pre ++ [op])) := by
  intro img
  have hlen := single_batch_ops (State.init.run pre) op h
  have hpre := journal_replay State.init pre
  have hinit : Parts.ofState State.init = {} := rfl
  rw [hinit] at hpre
  cases hb : opBatches (State.init.run pre) op with
  | nil =>
    left
    show applyAll {} (journal State.init pre ++ List.take j (opBatches (State.init.run pre) op)) = _
    rw [hb]; simpa using hpre
  | cons b rest =>
    have hrest : rest = [] := by
      rw [hb] at hlen; simp at hlen; exact hlen
    subst hrest
    cases j with
    | zero =>
      left
      show applyAll {} (journal State.init pre ++ List.take 0 (opBatches (State.init.run pre) op)) = _
      simpa using hpre
    | succ j =>
      right
      show applyAll {} (journal State.init pre ++ List.take (j + 1) (opBatches (State.init.run pre) op)) = _
      rw [hb]
      simp only [List.take_succ_cons, List.take_nil]
      have hfull := journal_replay State.init (pre ++ [op])
      rw [hinit, journal_append] at hfull
      simp only [journal, List.append_nil] at hfull
      rw [hb] at hfull
      exact hfull

/-- C04: in every recovered image the different ways of finding frames agree: the recovered
    partitions are those of a state satisfying the store invariant (after `Store::new` has
    rebuilt the registry) -/
theorem recovered_state_consistent (ops : List Op) (w : ∀ op ∈ ops, WfOp op) (k : Nat) :
    Inv (State.init.run (ops.take k)).reopen := by
  have hw : ∀ op ∈ ops.take k, WfOp op := fun op h => w op (List.mem_of_mem_take h)
  exact reopen_inv (reachable_inv (ops.take k) hw).k

end Xs.Journal
