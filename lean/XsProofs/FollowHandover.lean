import XsProofs.Follow
/-!
  The history part is complete when a following reader hands over to its live task: once the
  threshold has been sent, every stored frame in the reader's scope up to its cut has been
  delivered - not only "up to where the scan got" (`InvR.hout_eq`).
-/
namespace Xs.Follow

/-- after the hand-over nothing within the cut is left for the scan -/
def InvH (s : Sys) : Prop :=
  ∀ r, s.reader = some r → r.hphase = .handed → moreHistory s.committed r = false

theorem moreHistory_snoc {c : List Frame} {r : Reader} {f : Frame} (h : moreHistory c r = false)
    (hb : beyondCut r.cut f = true) : moreHistory (c ++ [f]) r = false := by
  unfold moreHistory nextFrame at *
  rw [List.find?_append]
  cases hf : c.find? (fun f => inScope r.opts.ctx f && afterId r.cursor f) with
  | some g => rw [hf] at h; simpa using h
  | none =>
    simp only [Option.none_or, List.find?_cons, List.find?_nil]
    cases hp : (inScope r.opts.ctx f && afterId r.cursor f) with
    | true => simp [hb]
    | false => rfl

theorem moreHistory_congr {c : List Frame} {r r' : Reader} (h1 : r'.opts = r.opts) (h2 : r'.cursor = r.cursor)
    (h3 : r'.cut = r.cut) : moreHistory c r' = moreHistory c r := by
  unfold moreHistory; rw [h1, h2, h3]

theorem receive_scan_static (r : Reader) (cap : Nat) (f : Frame) :
    (r.receive cap f).cursor = r.cursor ∧ (r.receive cap f).hphase = r.hphase := by
  unfold Reader.receive
  split
  · split <;> exact ⟨rfl, rfl⟩
  · exact ⟨rfl, rfl⟩

/-- a reader step that ends in `handed` either was there already (and changed nothing the scan
    looks at) or is the hand-over itself, which happens only when nothing within the cut is left -/
theorem stepReader_handed {c : List Frame} {r r' : Reader} (a : RAct) (e : stepReader c r a = some r')
    (hh : r'.hphase = .handed) :
    (r.hphase = .handed ∧ r'.opts = r.opts ∧ r'.cursor = r.cursor ∧ r'.cut = r.cut) ∨
    moreHistory c r' = false := by
  cases a with
  | histSend =>
    simp only [stepReader] at e
    split at e
    · cases e
    · rename_i hsc
      split at e
      · cases e
      · split at e
        · cases e
        · split at e
          · cases e
          · injection e with e; subst e
            simp only at hh
            simp only [ne_eq, Decidable.not_not] at hsc
            rw [hsc] at hh; cases hh
  | histEnd =>
    simp only [stepReader] at e
    split at e
    · cases e
    · split at e
      · cases e
      · rename_i hmore
        split at e
        · injection e with e; subst e; simp only at hh; cases hh
        · rename_i hlim
          split at e
          · injection e with e; subst e
            right
            have : moreHistory c r = false := by
              cases hm : moreHistory c r with
              | false => rfl
              | true =>
                exfalso; apply hmore
                simp only [hm, Bool.true_and, Bool.not_eq_true']
                simpa using hlim
            rw [← this]
            exact moreHistory_congr rfl rfl rfl
          · injection e with e; subst e; simp only at hh; cases hh
  | liveRecv =>
    simp only [stepReader] at e
    split at e
    · cases e
    · split at e
      · cases e
      · split at e
        · injection e with e; subst e; exact Or.inl ⟨hh, rfl, rfl, rfl⟩
        · split at e
          · injection e with e; subst e; exact Or.inl ⟨hh, rfl, rfl, rfl⟩
          · split at e <;> (injection e with e; subst e; exact Or.inl ⟨hh, rfl, rfl, rfl⟩)
  | liveEnd =>
    simp only [stepReader] at e
    split at e
    · injection e with e; subst e; exact Or.inl ⟨hh, rfl, rfl, rfl⟩
    · cases e
  | pulse =>
    simp only [stepReader] at e
    split at e
    · injection e with e; subst e; exact Or.inl ⟨hh, rfl, rfl, rfl⟩
    · cases e

theorem invH_init : InvH {} := fun r h => by cases h

theorem step_invH {s s' : Sys} (hA : AllInv s) (h : InvH s) (a : Act) (e : step s a = some s') : InvH s' := by
  intro r' hr' hh
  cases a with
  | appendId f id =>
    simp only [step] at e; split at e
    · cases e
    · injection e with e; subst e; exact h r' hr' hh
  | appendCommit =>
    simp only [step] at e
    split at e
    · rename_i f hl
      split at e
      · cases e
      · injection e with e; subst e
        simp only at hr' ⊢
        have h0 := h r' hr' hh
        have hfol := (hA.p r' hr').handed_follow hh
        obtain ⟨c, hc, _, _, _, hlock, _⟩ := (hA.g.cutc r' hr').cut hfol
        have := hlock f false hl
        exact moreHistory_snoc h0 (by simp [beyondCut, hc, this])
    · cases e
  | appendAbort =>
    simp only [step] at e
    split at e
    · injection e with e; subst e; exact h r' hr' hh
    · cases e
  | appendBroadcast =>
    simp only [step] at e
    split at e
    · rename_i f stored hl
      split at e
      · cases e
      · injection e with e; subst e
        simp only at hr' ⊢
        cases hr : s.reader with
        | none => rw [hr] at hr'; cases hr'
        | some r =>
          rw [hr] at hr'
          simp only [Option.map_some, Option.some.injEq] at hr'
          subst hr'
          obtain ⟨h1, h2⟩ := receive_scan_static r s.cap f
          obtain ⟨h3, _, _, h4, _⟩ := receive_static r s.cap f
          rw [h2] at hh
          rw [moreHistory_congr h4 h1 h3]
          exact h r hr hh
    · cases e
  | subscribe o cutId =>
    simp only [step] at e
    split at e
    · cases e
    · injection e with e; subst e
      simp only [Option.some.injEq] at hr'
      subst hr'
      simp only at hh
      split at hh <;> cases hh
  | r a =>
    simp only [step] at e
    cases hr : s.reader with
    | none => rw [hr] at e; cases e
    | some r =>
      rw [hr] at e
      simp only at e
      cases hs : stepReader s.committed r a with
      | none => rw [hs] at e; cases e
      | some r1 =>
        rw [hs] at e
        simp only [Option.map_some, Option.some.injEq] at e
        subst e
        simp only [Option.some.injEq] at hr'
        subst hr'
        simp only
        rcases stepReader_handed a hs hh with ⟨h0, h1, h2, h3⟩ | h0
        · rw [moreHistory_congr h1 h2 h3]; exact h r hr h0
        · exact h0

theorem run_invH {s s' : Sys} (hA : AllInv s) (h : InvH s) (as : List Act) (e : run s as = some s') : InvH s' := by
  induction as generalizing s with
  | nil => simp [run] at e; subst e; exact h
  | cons a as ih =>
    simp only [run] at e
    split at e
    · rename_i s1 hs
      exact ih ⟨step_good hA.g a hs, step_phOk hA.p a hs⟩ (step_invH hA h a hs) e
    · cases e

/-- C03: when a following reader has handed over, its history part is *every* stored frame in
    its scope with an id up to its cut - nothing that existed when it subscribed is skipped -/
theorem history_complete_at_handover (as : List Act) (s : Sys) (r : Reader) (e : run {} as = some s)
    (hr : s.reader = some r) (hh : r.hphase = .handed) :
    ∃ c, r.cut = some c ∧ r.hout = s.committed.filter (fun f => scanScope r f && decide (f.id ≤ c)) := by
  have hA := run_allInv allInv_init as e
  have hH := run_invH allInv_init invH_init as e r hr hh
  have hfol := (hA.p r hr).handed_follow hh
  have hR := hA.g.inv.rd r hr
  obtain ⟨c, hc, _, hle, _, _, _⟩ := (hA.g.cutc r hr).cut hfol
  refine ⟨c, hc, ?_⟩
  rw [hR.hout_eq]
  apply List.filter_congr
  intro f hf
  cases hsc : scanScope r f with
  | false => simp
  | true =>
    simp only [Bool.true_and]
    cases ha : afterId r.cursor f with
    | false =>
      -- already passed by the scan: it is in the history part, hence within the cut
      have hm : f ∈ r.hout := by
        rw [hR.hout_eq]; exact List.mem_filter.mpr ⟨hf, by simp [hsc, ha]⟩
      simp [hle f hm]
    | true =>
      -- not yet passed: then it is beyond the cut, otherwise the scan had more to do
      simp only [Bool.not_true, Bool.false_eq, decide_eq_false_iff_not, Nat.not_le]
      have hin : inScope r.opts.ctx f = true := by
        unfold scanScope at hsc; simp only [Bool.and_eq_true] at hsc; exact hsc.1
      unfold moreHistory nextFrame at hH
      cases hfind : s.committed.find? (fun f => inScope r.opts.ctx f && afterId r.cursor f) with
      | none =>
        have := List.find?_eq_none.mp hfind f hf
        simp [hin, ha] at this
      | some g =>
        rw [hfind] at hH
        simp only [Bool.not_eq_eq_eq_not, Bool.not_false] at hH
        have hgc : c < g.id := by simpa [beyondCut, hc] using hH
        -- g is the first stored frame not yet passed, so g.id ≤ f.id
        have hsorted := hA.g.inv.i1.cs
        by_cases hlt : f.id < g.id
        · exfalso
          -- f comes before g in the sorted store and satisfies the predicate: find? would return it
          obtain ⟨l1, l2, hsplit, hnone⟩ := List.find?_eq_some_iff_append.mp hfind |>.2
          rw [hsplit] at hf hsorted
          rcases List.mem_append.mp hf with h1 | h2
          · have := hnone f h1; simp [hin, ha] at this
          · rcases List.mem_cons.mp h2 with rfl | h3
            · exact Nat.lt_irrefl _ hlt
            · have hp := (List.pairwise_append.mp hsorted).2.1
              have := List.rel_of_pairwise_cons hp h3
              omega
        · omega

end Xs.Follow
