import XsModel.Ttl
namespace Xs.Wire

theorem digitsVal_append (a b : Text) :
    digitsVal (a ++ b) = b.foldl (fun a c => a * 10 + (c - 48)) (digitsVal a) := by
  simp [digitsVal, List.foldl_append]

theorem showNat_spec (n : Nat) :
    (showNat n).all isDigit = true ∧ digitsVal (showNat n) = n ∧ showNat n ≠ [] ∧
      (showNat n).head? ≠ some 43 := by
  induction n using Nat.strongRecOn with
  | _ n ih =>
    rw [showNat]
    by_cases h : n < 10
    · simp only [h, if_true]
      refine ⟨by simp [isDigit]; omega, by simp [digitsVal], by simp, ?_⟩
      simp only [List.head?_cons, ne_eq, Option.some.injEq]
      omega
    · simp only [h, if_false]
      have hlt : n / 10 < n := by omega
      obtain ⟨h1, h2, h3, h4⟩ := ih (n / 10) hlt
      have hm : n % 10 < 10 := Nat.mod_lt _ (by omega)
      refine ⟨?_, ?_, by simp, ?_⟩
      · simp only [List.all_append, h1, Bool.true_and, List.all_cons, List.all_nil, Bool.and_true]
        simp [isDigit]; omega
      · rw [digitsVal_append, h2]; simp; omega
      · cases hs : showNat (n / 10) with
        | nil => exact absurd hs h3
        | cons a l => rw [hs] at h4; simpa using h4

theorem stripPlus_of_head {s : Text} (h : s.head? ≠ some 43) : stripPlus s = s := by
  unfold stripPlus
  split
  · rename_i r; simp at h
  · rfl

/-- numbers survive print → parse -/
theorem parseUnsigned_showNat {max n : Nat} (h : n ≤ max) : parseUnsigned max (showNat n) = some n := by
  obtain ⟨h1, h2, h3, h4⟩ := showNat_spec n
  unfold parseUnsigned
  rw [stripPlus_of_head h4]
  simp [h1, h2, h, h3]

theorem stripPrefix_append (p r : Text) : stripPrefix p (p ++ r) = some r := by
  simp [stripPrefix]

/-- C12: every TTL value survives print → parse (the JSON string and the query value share
    this spelling) -/
theorem parseTTL_printTTL (t : TTL) (w : WfTTL t) : parseTTL (printTTL t) = .ok t := by
  cases t with
  | forever => rfl
  | ephemeral => rfl
  | time ms =>
    unfold parseTTL printTTL
    have n1 : sTime ++ showNat ms ≠ sForever := by
      intro e; have := congrArg List.head? e; simp [sTime, sForever] at this
    have n2 : sTime ++ showNat ms ≠ sEphemeral := by
      intro e; have := congrArg List.head? e; simp [sTime, sEphemeral] at this
    simp only [n1, n2, if_false, stripPrefix_append, parseUnsigned_showNat w]
  | head n =>
    unfold parseTTL printTTL
    have n1 : sHead ++ showNat n ≠ sForever := by
      intro e; have := congrArg List.head? e; simp [sHead, sForever] at this
    have n2 : sHead ++ showNat n ≠ sEphemeral := by
      intro e; have := congrArg List.head? e; simp [sHead, sEphemeral] at this
    have n3 : stripPrefix sTime (sHead ++ showNat n) = none := by
      simp [stripPrefix, sTime, sHead]
    simp only [n1, n2, if_false, n3, stripPrefix_append, parseUnsigned_showNat w.2]
    have : ¬ n < 1 := by have := w.1; omega
    simp [this]

/-- C12: what is rejected: `head:0`, `-`, empty number, unknown keyword, trailing junk,
    overflow -/
theorem parseTTL_head_zero : parseTTL (sHead ++ [48]) = .err .headZero := by decide
theorem parseTTL_negative : parseTTL (sTime ++ [45, 49]) = .err .badDuration := by decide
theorem parseTTL_empty_number : parseTTL sTime = .err .badDuration := by decide
theorem parseTTL_unknown : parseTTL [110, 101, 118, 101, 114] = .err .badFormat := by decide
theorem parseTTL_trailing : parseTTL (sHead ++ [49, 120]) = .err .badHeadN := by decide

theorem parseUnsigned_le {max : Nat} {s : Text} {n : Nat} (h : parseUnsigned max s = some n) : n ≤ max := by
  unfold parseUnsigned at h
  split at h
  · cases h
  · split at h
    · split at h
      · injection h with h; subst h; assumption
      · cases h
    · cases h

/-- anything that parses is a well-formed value: malformed or overflowing TTLs never become
    values (so they are never stored) -/
theorem parseTTL_wf (s : Text) (t : TTL) (h : parseTTL s = .ok t) : WfTTL t := by
  unfold parseTTL at h
  split at h
  · injection h with h; subst h; trivial
  · split at h
    · injection h with h; subst h; trivial
    · split at h
      · split at h
        · rename_i ms hp
          injection h with h; subst h
          exact parseUnsigned_le hp
        · cases h
      · split at h
        · split at h
          · rename_i n hp
            split at h
            · cases h
            · rename_i hn
              injection h with h; subst h
              exact ⟨by omega, parseUnsigned_le hp⟩
          · cases h
        · cases h

end Xs.Wire
