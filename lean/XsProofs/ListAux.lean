/-
  Small list facts used by the scan proofs.
-/
namespace Xs

/-- two lists strictly ascending in a `Nat` key with the same members are equal -/
theorem eq_of_sorted_of_mem_iff {α : Type} (key : α → Nat) :
    ∀ {l₁ l₂ : List α}, l₁.Pairwise (fun a b => key a < key b) →
      l₂.Pairwise (fun a b => key a < key b) → (∀ x, x ∈ l₁ ↔ x ∈ l₂) → l₁ = l₂
  | [], [], _, _, _ => rfl
  | [], b :: l₂, _, _, h => by have := (h b).2 (by simp); simp at this
  | a :: l₁, [], _, _, h => by have := (h a).1 (by simp); simp at this
  | a :: l₁, b :: l₂, h₁, h₂, h => by
    have ha := List.pairwise_cons.1 h₁
    have hb := List.pairwise_cons.1 h₂
    have hab : a = b := by
      have m1 : a ∈ b :: l₂ := (h a).1 (by simp)
      have m2 : b ∈ a :: l₁ := (h b).2 (by simp)
      rcases List.mem_cons.1 m1 with e | e
      · exact e
      · rcases List.mem_cons.1 m2 with e' | e'
        · exact e'.symm
        · have := hb.1 a e; have := ha.1 b e'; omega
    subst hab
    have : l₁ = l₂ := by
      apply eq_of_sorted_of_mem_iff key ha.2 hb.2
      intro x
      constructor
      · intro hx
        have := (h x).1 (List.mem_cons_of_mem _ hx)
        rcases List.mem_cons.1 this with e | e
        · subst e; have := ha.1 x hx; omega
        · exact e
      · intro hx
        have := (h x).2 (List.mem_cons_of_mem _ hx)
        rcases List.mem_cons.1 this with e | e
        · subst e; have := hb.1 x hx; omega
        · exact e
    rw [this]

/-- `rev().find_map(g)` is the last element `g` maps to something -/
theorem findSome?_reverse {α β : Type} (g : α → Option β) (l : List α) :
    l.reverse.findSome? g = (l.filterMap g).getLast? := by
  induction l with
  | nil => simp
  | cons a l ih =>
    rw [List.reverse_cons, List.findSome?_append, ih, List.filterMap_cons]
    cases hg : g a with
    | none => simp [List.findSome?_cons, hg]
    | some b =>
      simp only [List.findSome?_cons, hg]
      cases h : (l.filterMap g).getLast? with
      | none =>
        have : l.filterMap g = [] := List.getLast?_eq_none_iff.1 h
        simp [this]
      | some c =>
        rw [List.getLast?_cons, h]; simp

theorem pairwise_filter_of {α : Type} {R : α → α → Prop} {l : List α} (p : α → Bool)
    (h : l.Pairwise R) : (l.filter p).Pairwise R := List.Pairwise.sublist List.filter_sublist h

/-- induction on lists from the right -/
theorem list_snoc_induction {α : Type} {P : List α → Prop} (hnil : P [])
    (hsnoc : ∀ l a, P l → P (l ++ [a])) : ∀ l, P l := by
  have : ∀ l : List α, P l.reverse := by
    intro l
    induction l with
    | nil => exact hnil
    | cons a l ih => rw [List.reverse_cons]; exact hsnoc _ _ ih
  intro l
  have := this l.reverse
  rwa [List.reverse_reverse] at this

/-- an element of a duplicate-free list splits it in one way only -/
theorem split_unique {α : Type} {pre post pre' post' : List α} {r : α}
    (hnd : (pre ++ r :: post).Nodup) (he : pre ++ r :: post = pre' ++ r :: post') :
    pre' = pre ∧ post' = post := by
  induction pre generalizing pre' with
  | nil =>
    cases pre' with
    | nil => simp at he; exact ⟨rfl, he.symm⟩
    | cons x p' =>
      simp only [List.nil_append, List.cons_append, List.cons.injEq] at he
      obtain ⟨_, h2⟩ := he
      simp only [List.nil_append, List.nodup_cons] at hnd
      exact absurd (by rw [h2]; simp) hnd.1
  | cons a p ih =>
    cases pre' with
    | nil =>
      simp only [List.nil_append, List.cons_append, List.cons.injEq] at he
      obtain ⟨h1, h2⟩ := he
      simp only [List.cons_append, List.nodup_cons] at hnd
      exact absurd (by rw [h1]; simp) hnd.1
    | cons x p' =>
      simp only [List.cons_append, List.cons.injEq] at he
      obtain ⟨h1, h2⟩ := he
      simp only [List.cons_append, List.nodup_cons] at hnd
      obtain ⟨e1, e2⟩ := ih hnd.2 h2
      exact ⟨by rw [h1, e1], e2⟩

/-- `m` is an interleaving of `a` and `b` (each in its own order): how the frames of two calls
    running at the same time can land in the stream -/
inductive Interleave {α : Type} : List α → List α → List α → Prop where
  | nil : Interleave [] [] []
  | left {a b m : List α} (x : α) : Interleave a b m → Interleave (x :: a) b (x :: m)
  | right {a b m : List α} (y : α) : Interleave a b m → Interleave a (y :: b) (y :: m)

theorem interleave_filter {α : Type} (p : α → Bool) {a b m : List α} (h : Interleave a b m)
    (ha : ∀ x ∈ a, p x = true) (hb : ∀ y ∈ b, p y = false) : m.filter p = a := by
  induction h with
  | nil => rfl
  | left x _ ih =>
    have hx := ha x (by simp)
    simp only [List.filter_cons, hx, if_true]
    rw [ih (fun z hz => ha z (by simp [hz])) hb]
  | right y _ ih =>
    have hy := hb y (by simp)
    simp only [List.filter_cons, hy]
    exact ih ha (fun z hz => hb z (by simp [hz]))


end Xs
