import XsModel.ServeMulti
import XsProofs.Registry
/-!
  Invariants of the joint system of `XsModel/ServeMulti.lean` and, from them, the system-level
  form of C16: among the instances of one (context, name) that have been handed everything there
  is, at most one is running - the one made from the latest `.register`, and only if no
  `.unregister` followed it.
-/
namespace Xs.Serve

variable {σ : Type}

/-- ids are assigned in stream order -/
def IdsOk (s : List SFrame) : Prop := ∀ k f, s[k]? = some f → f.id = k + 1

theorem idsOk_push {s : List SFrame} (h : IdsOk s) (f : SFrame) : IdsOk (push s f) := by
  intro k g hg
  unfold push at hg
  by_cases hk : k < s.length
  · rw [List.getElem?_append_left hk] at hg; exact h k g hg
  · have hk' : s.length ≤ k := Nat.le_of_not_lt hk
    rw [List.getElem?_append_right hk'] at hg
    cases hd : k - s.length with
    | zero =>
      rw [hd] at hg
      simp only [List.getElem?_cons_zero, Option.some.injEq] at hg
      subst hg; simp only; omega
    | succ n => rw [hd] at hg; simp at hg

theorem push_prefix (s : List SFrame) (f : SFrame) : ∃ ext, push s f = s ++ ext := ⟨_, rfl⟩

theorem pushAll_prefix (s l : List SFrame) : ∃ ext, pushAll s l = s ++ ext := by
  induction l generalizing s with
  | nil => exact ⟨[], by simp [pushAll]⟩
  | cons a t ih =>
    obtain ⟨e, he⟩ := ih (push s a)
    refine ⟨[{ a with id := s.length + 1 }] ++ e, ?_⟩
    simp only [pushAll]; rw [he]; simp only [push, List.append_assoc]

theorem idsOk_pushAll {s : List SFrame} (h : IdsOk s) (l : List SFrame) : IdsOk (pushAll s l) := by
  induction l generalizing s with
  | nil => exact h
  | cons a t ih => exact ih (idsOk_push h a)

/-- the subscription of an instance only grows when the stream does -/
theorem sub_grows (x : Inst σ) (thr : SFrame) (s ext : List SFrame) (hs : x.subAt ≤ s.length) :
    x.sub thr (s ++ ext) = x.sub thr s ++ ext.filter (fun f => f.ctx = x.cfg.ctx) := by
  unfold Inst.sub
  rw [List.take_append_of_le_length hs, List.drop_append_of_le_length hs]
  unfold subscription
  cases x.resume <;> simp [List.filter_append]

/-- what `Handler::from_frame` and the resume option guarantee: see `ParseOk`; and a resume id,
    if given, is not in the future (it names a frame the registrant has seen) -/
def ResumeOk (parse : SFrame → Except String (HCfg × Resume)) : Prop :=
  ∀ r cfg a, parse r = .ok (cfg, .after a) → a ≤ cfg.id

structure InstInv (m : MCfg σ) (s : MSys σ) (x : Inst σ) : Prop where
  sub_le : x.subAt ≤ s.stream.length
  /-- it was made from a `.register` the serve loop has got to -/
  reg : ∃ r ∈ s.stream, m.parse r = .ok (x.cfg, x.resume) ∧ r.id ≤ s.dpos
  /-- a tail handler that started had not been superseded when it looked -/
  tail : x.resume = .tail → ∀ f ∈ s.stream.take x.subAt, f.ctx = x.cfg.ctx → x.cfg.id < f.id →
    isRegTraffic x.cfg f = false
  pos_le : x.pos ≤ (x.sub m.thr s.stream).length
  /-- a running instance has not been handed a later `.register` / `.unregister` of its name -/
  run : x.st = .running → ∀ f ∈ (x.sub m.thr s.stream).take x.pos, isRegTraffic x.cfg f = true →
    f.id ≤ x.cfg.id

structure MInv (m : MCfg σ) (s : MSys σ) : Prop where
  ids : IdsOk s.stream
  dpos_le : s.dpos ≤ s.stream.length
  insts : ∀ x ∈ s.insts, InstInv m s x
  /-- instances are listed in the order of their `.register` frames -/
  sorted : s.insts.Pairwise (fun a b => a.cfg.id < b.cfg.id)
  /-- … all of which the serve loop has passed -/
  passed : ∀ x ∈ s.insts, x.cfg.id ≤ s.dpos

theorem minv_init (m : MCfg σ) : MInv m (MSys.init : MSys σ) :=
  ⟨(by intro k f h; simp [MSys.init] at h), Nat.le_refl _, (by intro x h; cases h), List.Pairwise.nil,
   (by intro x h; cases h)⟩

/-- an instance's invariant survives the stream growing and the serve loop moving on, as long
    as the instance itself is not touched -/
theorem instInv_grow {m : MCfg σ} {s : MSys σ} {x : Inst σ} (h : InstInv m s x) (ext : List SFrame)
    (d : Nat) (hd : s.dpos ≤ d) (is : List (Inst σ)) :
    InstInv m ⟨s.stream ++ ext, d, is⟩ x := by
  have hsub := sub_grows x m.thr s.stream ext h.sub_le
  refine ⟨?_, ?_, ?_, ?_, ?_⟩
  · simp only [List.length_append]; have := h.sub_le; omega
  · obtain ⟨r, hr, hp, hle⟩ := h.reg
    exact ⟨r, List.mem_append_left _ hr, hp, Nat.le_trans hle hd⟩
  · intro ht f hf
    simp only at hf
    rw [List.take_append_of_le_length h.sub_le] at hf
    exact h.tail ht f hf
  · simp only; rw [hsub, List.length_append]; have := h.pos_le; omega
  · intro hr f hf
    simp only at hf
    rw [hsub, List.take_append_of_le_length h.pos_le] at hf
    exact h.run hr f hf

@[simp] theorem Inst.advance_cfg (x : Inst σ) (r : HState × σ × List SFrame × Bool) : (x.advance r).cfg = x.cfg := rfl
@[simp] theorem Inst.advance_resume (x : Inst σ) (r : HState × σ × List SFrame × Bool) : (x.advance r).resume = x.resume := rfl
@[simp] theorem Inst.advance_subAt (x : Inst σ) (r : HState × σ × List SFrame × Bool) : (x.advance r).subAt = x.subAt := rfl
@[simp] theorem Inst.advance_pos (x : Inst σ) (r : HState × σ × List SFrame × Bool) : (x.advance r).pos = x.pos + 1 := rfl
@[simp] theorem Inst.advance_st (x : Inst σ) (r : HState × σ × List SFrame × Bool) : (x.advance r).st = r.1 := rfl
@[simp] theorem Inst.advance_sub (x : Inst σ) (r : HState × σ × List SFrame × Bool) (thr : SFrame) (s : List SFrame) :
    (x.advance r).sub thr s = x.sub thr s := rfl

theorem step_stopped (cfg : HCfg) (eval : σ → SFrame → σ × EvalRes) (env : σ) (f : SFrame) :
    step cfg eval .stopped env f = (.stopped, env, [], false) := rfl

/-- one step of a running instance on a later `.register` / `.unregister` stops it -/
theorem step_running_after (cfg : HCfg) (eval : σ → SFrame → σ × EvalRes) (st : HState) (env : σ) (f : SFrame)
    (h : (step cfg eval st env f).1 = .running) : st = .running ∧ (isRegTraffic cfg f = true → f.id ≤ cfg.id) := by
  cases st with
  | stopped => simp [step] at h
  | running =>
    refine ⟨rfl, fun hr => ?_⟩
    by_cases hl : f.id ≤ cfg.id
    · exact hl
    · have : cfg.id < f.id := by omega
      rw [replaced_or_unregistered_stops cfg eval env f hr this] at h
      cases h

theorem mstep_inv {m : MCfg σ} (hparse : ParseOk m.parse) {s s' : MSys σ} (inv : MInv m s) (a : MAct)
    (e : mstep m s a = some s') : MInv m s' := by
  cases a with
  | client f =>
    simp only [mstep, Option.some.injEq] at e
    subst e
    refine ⟨idsOk_push inv.ids f, ?_, ?_, inv.sorted, inv.passed⟩
    · simp only [push, List.length_append]; have := inv.dpos_le; omega
    · intro x hx
      exact instInv_grow (inv.insts x hx) _ s.dpos (Nat.le_refl _) s.insts
  | serve =>
    simp only [mstep] at e
    cases hr : s.stream[s.dpos]? with
    | none => rw [hr] at e; cases e
    | some r =>
      rw [hr] at e
      simp only at e
      have hdlt : s.dpos < s.stream.length := by
        rcases Nat.lt_or_ge s.dpos s.stream.length with h | h
        · exact h
        · rw [List.getElem?_eq_none h] at hr; cases hr
      have hrid : r.id = s.dpos + 1 := inv.ids _ _ hr
      have hrmem : r ∈ s.stream := List.mem_of_getElem? hr
      -- whatever the branch: the stream grew by one frame and the loop moved on by one
      have grow1 : ∀ (g : SFrame), MInv m ⟨push s.stream g, s.dpos + 1, s.insts⟩ := by
        intro g
        refine ⟨idsOk_push inv.ids g, ?_, ?_, inv.sorted, ?_⟩
        · simp only [push, List.length_append, List.length_cons, List.length_nil]; omega
        · intro x hx
          exact instInv_grow (inv.insts x hx) _ (s.dpos + 1) (Nat.le_succ _) s.insts
        · intro x hx; exact Nat.le_succ_of_le (inv.passed x hx)
      split at e
      · rename_i name hcl
        split at e
        · rename_i cfg resume hp
          split at e
          · injection e with e; subst e; exact grow1 _
          · rename_i hnone
            injection e with e; subst e
            obtain ⟨hid, hctx, _⟩ := hparse r cfg resume hp
            let x : Inst σ := ⟨cfg, resume, s.stream.length, 0, .running, m.env0 cfg⟩
            refine ⟨idsOk_push inv.ids _, ?_, ?_, ?_, ?_⟩
            · simp only [push, List.length_append, List.length_cons, List.length_nil]; omega
            · intro y hy
              rcases List.mem_append.mp hy with hy | hy
              · exact instInv_grow (inv.insts y hy) _ (s.dpos + 1) (Nat.le_succ _) _
              · simp only [List.mem_singleton] at hy
                subst hy
                refine ⟨?_, ?_, ?_, ?_, ?_⟩
                · simp [push]
                · exact ⟨r, by simp [push, hrmem], hp, by simp only; omega⟩
                · intro ht f hf hc hi
                  simp only [push] at hf
                  rw [List.take_append_of_le_length (Nat.le_refl _), List.take_length] at hf
                  simp only at ht
                  subst ht
                  simp only [if_true] at hnone
                  unfold laterTraffic at hnone
                  have := List.find?_eq_none.mp hnone f hf
                  simp only [hc, hi, decide_true, Bool.true_and, Bool.not_eq_true] at this
                  exact this
                · simp
                · intro _ f hf; simp at hf
            · rw [List.pairwise_append]
              refine ⟨inv.sorted, List.pairwise_singleton _ _, ?_⟩
              intro a ha b hb
              simp only [List.mem_singleton] at hb
              subst hb
              have := inv.passed a ha
              simp only; omega
            · intro y hy
              rcases List.mem_append.mp hy with hy | hy
              · exact Nat.le_succ_of_le (inv.passed y hy)
              · simp only [List.mem_singleton] at hy
                subst hy; simp only; omega
        · injection e with e; subst e; exact grow1 _
      · injection e with e; subst e
        refine ⟨inv.ids, hdlt, ?_, inv.sorted, ?_⟩
        · intro x hx
          have := instInv_grow (inv.insts x hx) [] (s.dpos + 1) (Nat.le_succ _) s.insts
          simpa using this
        · intro x hx; exact Nat.le_succ_of_le (inv.passed x hx)
  | inst i =>
    simp only [mstep] at e
    cases hx : s.insts[i]? with
    | none => rw [hx] at e; cases e
    | some x =>
      rw [hx] at e
      simp only at e
      cases hf : (x.sub m.thr s.stream)[x.pos]? with
      | none => rw [hf] at e; cases e
      | some f =>
        rw [hf] at e
        simp only [Option.some.injEq] at e
        subst e
        have hxm : x ∈ s.insts := List.mem_of_getElem? hx
        have hxi := inv.insts x hxm
        obtain ⟨ext, hext⟩ := pushAll_prefix s.stream (step x.cfg (m.eval x.cfg) x.st x.env f).2.2.1
        have hil : i < s.insts.length := by
          rcases Nat.lt_or_ge i s.insts.length with h | h
          · exact h
          · rw [List.getElem?_eq_none h] at hx; cases hx
        have hxe : s.insts[i] = x := by
          have := List.getElem?_eq_getElem hil
          rw [this] at hx; injection hx
        refine ⟨idsOk_pushAll inv.ids _, ?_, ?_, ?_, ?_⟩
        · simp only; rw [hext, List.length_append]; have := inv.dpos_le; omega
        · intro y hy
          simp only at hy
          rcases List.mem_or_eq_of_mem_set hy with hy | hy
          · have := instInv_grow (inv.insts y hy) ext s.dpos (Nat.le_refl _)
              (s.insts.set i (x.advance (step x.cfg (m.eval x.cfg) x.st x.env f)))
            show InstInv m ⟨pushAll s.stream _, s.dpos, _⟩ y
            rw [hext]; exact this
          · subst hy
            show InstInv m ⟨pushAll s.stream _, s.dpos, _⟩ _
            rw [hext]
            have hplt : x.pos < (x.sub m.thr s.stream).length := by
              rcases Nat.lt_or_ge x.pos (x.sub m.thr s.stream).length with h | h
              · exact h
              · rw [List.getElem?_eq_none h] at hf; cases hf
            have hsub := sub_grows x m.thr s.stream ext hxi.sub_le
            refine ⟨?_, ?_, ?_, ?_, ?_⟩
            · simp only [List.length_append, Inst.advance_subAt]; have := hxi.sub_le; omega
            · obtain ⟨r, hr, hp, hle⟩ := hxi.reg
              exact ⟨r, List.mem_append_left _ hr, hp, hle⟩
            · intro ht g hg
              simp only [Inst.advance_subAt, Inst.advance_resume, Inst.advance_cfg] at hg ht ⊢
              rw [List.take_append_of_le_length hxi.sub_le] at hg
              exact hxi.tail ht g hg
            · show x.pos + 1 ≤ (Inst.sub m.thr (s.stream ++ ext) _).length
              have : Inst.sub m.thr (s.stream ++ ext)
                  (x.advance (step x.cfg (m.eval x.cfg) x.st x.env f)) =
                  Inst.sub m.thr (s.stream ++ ext) x := rfl
              rw [this, hsub, List.length_append]; omega
            · intro hrun g hg hreg
              simp only [Inst.advance_st, Inst.advance_pos, Inst.advance_cfg] at hrun hg hreg ⊢
              have hsame : Inst.sub m.thr (s.stream ++ ext)
                  (x.advance (step x.cfg (m.eval x.cfg) x.st x.env f)) =
                  Inst.sub m.thr (s.stream ++ ext) x := rfl
              rw [hsame, hsub, List.take_append_of_le_length (by omega : x.pos + 1 ≤ _)] at hg
              rw [List.take_add_one, List.mem_append] at hg
              obtain ⟨hst, hlate⟩ := step_running_after x.cfg (m.eval x.cfg) x.st x.env f hrun
              rcases hg with hg | hg
              · exact hxi.run hst g hg hreg
              · rw [hf] at hg
                simp only [Option.toList_some, List.mem_singleton] at hg
                subst hg
                exact hlate hreg
        · simp only
          have hmap : (s.insts.set i (x.advance (step x.cfg (m.eval x.cfg) x.st x.env f))).map (·.cfg.id) = s.insts.map (·.cfg.id) := by
            rw [List.map_set]
            have : (s.insts.map (·.cfg.id))[i]'(by simpa using hil) = x.cfg.id := by simp [hxe]
            show (s.insts.map (·.cfg.id)).set i x.cfg.id = _
            rw [← this, List.set_getElem_self]
          have h1 : (s.insts.map (·.cfg.id)).Pairwise (· < ·) := by
            rw [List.pairwise_map]; exact inv.sorted
          rw [← hmap, List.pairwise_map] at h1
          exact h1
        · intro y hy
          simp only at hy ⊢
          rcases List.mem_or_eq_of_mem_set hy with hy | hy
          · exact inv.passed y hy
          · subst hy; exact inv.passed x hxm

theorem mrun_inv {m : MCfg σ} (hparse : ParseOk m.parse) {s s' : MSys σ} (inv : MInv m s) (as : List MAct)
    (e : mrun m s as = some s') : MInv m s' := by
  induction as generalizing s with
  | nil => simp only [mrun, Option.some.injEq] at e; subst e; exact inv
  | cons a t ih =>
    simp only [mrun] at e
    cases h : mstep m s a with
    | none => rw [h] at e; cases e
    | some s1 => rw [h] at e; exact ih (mstep_inv hparse inv a h) e

/-- a running instance that has been handed everything has seen no later `.register` /
    `.unregister` of its name and context: none is stored -/
theorem survivor_is_latest {m : MCfg σ} (hres : ResumeOk m.parse) {s : MSys σ} (inv : MInv m s) (x : Inst σ)
    (hx : x ∈ s.insts) (hrun : x.st = .running) (hc : x.caughtUp m.thr s.stream) :
    ∀ f ∈ s.stream, f.ctx = x.cfg.ctx → isRegTraffic x.cfg f = true → f.id ≤ x.cfg.id := by
  intro f hf hctx hreg
  have hxi := inv.insts x hx
  rcases Nat.lt_or_ge x.cfg.id f.id with hlt | hge
  · -- a later one: it is in the subscription, hence was handed to it, hence it is stopped
    have hin : f ∈ x.sub m.thr s.stream := by
      rw [← List.take_append_drop x.subAt s.stream] at hf
      have hlive : f ∈ s.stream.drop x.subAt → f ∈ (s.stream.drop x.subAt).filter (fun g => g.ctx = x.cfg.ctx) :=
        fun hm => List.mem_filter.mpr ⟨hm, by simpa using hctx⟩
      unfold Inst.sub subscription
      rcases List.mem_append.mp hf with hp | hl
      · cases hr : x.resume with
        | tail =>
          have := hxi.tail hr f hp hctx hlt
          rw [this] at hreg; cases hreg
        | head =>
          simp only [List.mem_append, List.mem_cons]
          exact Or.inl (List.mem_filter.mpr ⟨hp, by simpa using hctx⟩)
        | after a =>
          simp only [List.mem_append, List.mem_cons]
          obtain ⟨r, _, hp', _⟩ := hxi.reg
          rw [hr] at hp'
          have := hres r x.cfg a hp'
          refine Or.inl (List.mem_filter.mpr ⟨List.mem_filter.mpr ⟨hp, by simpa using hctx⟩, ?_⟩)
          simp only [decide_eq_true_eq]; omega
      · cases hr : x.resume with
        | tail => simpa using hlive hl
        | head => simp only [List.mem_append, List.mem_cons]; exact Or.inr (Or.inr (hlive hl))
        | after a => simp only [List.mem_append, List.mem_cons]; exact Or.inr (Or.inr (hlive hl))
    have : f ∈ (x.sub m.thr s.stream).take x.pos := by
      unfold Inst.caughtUp at hc
      rw [hc, List.take_length]; exact hin
    exact hxi.run hrun f this hreg
  · exact hge

/-- C16, system level: of two instances of the same name and context that have both been handed
    everything their subscriptions hold, at most one is running -/
theorem one_running_per_key {m : MCfg σ} (hparse : ParseOk m.parse) (hres : ResumeOk m.parse) {s : MSys σ}
    (inv : MInv m s) (i j : Nat) (x y : Inst σ) (hi : s.insts[i]? = some x) (hj : s.insts[j]? = some y)
    (hij : i < j) (hctx : x.cfg.ctx = y.cfg.ctx) (hname : x.cfg.name = y.cfg.name)
    (hcx : x.caughtUp m.thr s.stream) : x.st = .stopped := by
  cases hst : x.st with
  | stopped => rfl
  | running =>
    exfalso
    have hxm : x ∈ s.insts := List.mem_of_getElem? hi
    have hym : y ∈ s.insts := List.mem_of_getElem? hj
    have hlt : x.cfg.id < y.cfg.id := by
      have hjl : j < s.insts.length := by
        rcases Nat.lt_or_ge j s.insts.length with h | h
        · exact h
        · rw [List.getElem?_eq_none h] at hj; cases hj
      have hil : i < s.insts.length := Nat.lt_trans hij hjl
      have := List.pairwise_iff_getElem.mp inv.sorted i j hil hjl hij
      rw [List.getElem?_eq_getElem hil] at hi
      rw [List.getElem?_eq_getElem hjl] at hj
      injection hi with hi; injection hj with hj
      rw [hi, hj] at this; exact this
    obtain ⟨r, hr, hp, _⟩ := (inv.insts y hym).reg
    obtain ⟨hid, hrc, hcl⟩ := hparse r y.cfg y.resume hp
    have hreg : isRegTraffic x.cfg r = true := by
      rw [isRegTraffic_iff]; left; rw [hname]; exact hcl
    have := survivor_is_latest hres inv x hxm hst hcx r hr (by rw [hctx, hrc]) hreg
    omega

/-- a stopped instance emits nothing more, whatever it is handed -/
theorem stopped_emits_nothing {m : MCfg σ} {s s' : MSys σ} (i : Nat) (x : Inst σ) (hi : s.insts[i]? = some x)
    (hst : x.st = .stopped) (e : mstep m s (.inst i) = some s') : s'.stream = s.stream := by
  simp only [mstep, hi] at e
  split at e
  · cases e
  · injection e with e; subst e
    simp only [hst, step_stopped, pushAll]

end Xs.Serve
