/-
  The store invariant: the three partitions are in lock-step and the context
  registry is a function of the stored frames.  Preserved by every operation.
-/
import XsModel.Store
import XsProofs.Bytes
import XsProofs.Part
import XsProofs.ListAux
namespace Xs
open Part

/- the encoding is used only through the lemmas of XsProofs.Bytes; keeping the unifier
   from unfolding `be` (into `Nat` division on variables) keeps elaboration fast -/
attribute [local irreducible] be unbe

/-- the stored frames, in key (= id) order -/
def frames (s : State) : List Frame := s.stream.map (·.2)

structure WfFrame (f : Frame) : Prop where
  id_lt : f.id < idBound
  ctx_lt : f.ctx < idBound
  nul : NulFree f.topic
  /-- its JSON reads back: nothing stored can poison later reads (C12) -/
  dec : f.decodable = true

theorem hasNul_eq_false_iff {t : List Nat} : hasNul t = false ↔ NulFree t := by
  unfold hasNul NulFree
  constructor
  · intro h b hb hb0; subst hb0
    have : List.contains t 0 = true := List.contains_iff_mem.2 hb
    rw [h] at this; cases this
  · intro h
    cases hc : List.contains t 0 with
    | false => rfl
    | true => exact absurd rfl (h 0 (List.contains_iff_mem.1 hc))

/-- partitions in lock-step -/
structure InvK (s : State) : Prop where
  sS : Sorted s.stream
  sT : Sorted s.idxT
  sC : Sorted s.idxC
  wf : ∀ kv ∈ s.stream, kv.1 = idKey kv.2.id ∧ WfFrame kv.2
  tKeys : ∀ k, (k, ()) ∈ s.idxT ↔ ∃ f ∈ frames s, k = topicKey f.ctx f.topic f.id
  cKeys : ∀ k, (k, ()) ∈ s.idxC ↔ ∃ f ∈ frames s, k = ctxKey f.ctx f.id

/-- the registry is the zero context plus the stored zero-context `xs.context` frames -/
structure CtxOk (s : State) : Prop where
  nodup : s.contexts.Nodup
  iff : ∀ c, c ∈ s.contexts ↔ c = 0 ∨ ∃ f ∈ frames s, f.id = c ∧ f.isReg = true

structure Inv (s : State) : Prop where
  k : InvK s
  c : CtxOk s

theorem mem_frames {s : State} {f : Frame} : f ∈ frames s ↔ ∃ k, (k, f) ∈ s.stream := by
  simp [frames]

theorem InvK.mem_frames_iff {s : State} (h : InvK s) {f : Frame} :
    f ∈ frames s ↔ (idKey f.id, f) ∈ s.stream := by
  rw [mem_frames]
  constructor
  · rintro ⟨k, hk⟩
    have := (h.wf _ hk).1
    simp at this; subst this; exact hk
  · intro hk; exact ⟨_, hk⟩

theorem InvK.wfFrame {s : State} (h : InvK s) {f : Frame} (hf : f ∈ frames s) : WfFrame f := by
  obtain ⟨k, hk⟩ := mem_frames.1 hf
  exact (h.wf _ hk).2

/-- two stored frames with the same id are the same frame -/
theorem InvK.frame_unique {s : State} (h : InvK s) {f g : Frame} (hf : f ∈ frames s)
    (hg : g ∈ frames s) (e : f.id = g.id) : f = g := by
  have a := h.mem_frames_iff.1 hf
  have b := h.mem_frames_iff.1 hg
  rw [e] at a
  exact h.sS.unique a b

theorem InvK.get_eq_some_iff {s : State} (h : InvK s) {i : Nat} {f : Frame} :
    s.get i = some f ↔ f ∈ frames s ∧ idKey f.id = idKey i := by
  unfold State.get
  rw [Part.get_eq_some_iff h.sS]
  constructor
  · intro hm
    have := (h.wf _ hm).1
    simp at this
    exact ⟨mem_frames.2 ⟨_, hm⟩, this.symm⟩
  · rintro ⟨hf, e⟩
    rw [← e]; exact h.mem_frames_iff.1 hf

theorem InvK.get_of_mem {s : State} (h : InvK s) {f : Frame} (hf : f ∈ frames s) :
    s.get f.id = some f := h.get_eq_some_iff.2 ⟨hf, rfl⟩

theorem InvK.get_eq_none_iff {s : State} (h : InvK s) {i : Nat} (hi : i < idBound) :
    s.get i = none ↔ ∀ f ∈ frames s, f.id ≠ i := by
  unfold State.get
  rw [Part.get_eq_none_iff]
  constructor
  · intro hn f hf e
    subst e
    exact hn f (h.mem_frames_iff.1 hf)
  · intro hn v hv
    have := h.wf _ hv
    simp at this
    exact hn v (mem_frames.2 ⟨_, hv⟩) (idKey_inj this.2.id_lt hi this.1.symm)

theorem inv_init : Inv State.init := by
  refine ⟨⟨sorted_nil, sorted_nil, sorted_nil, ?_, ?_, ?_⟩, ⟨?_, ?_⟩⟩ <;>
    simp [State.init, frames]

/-! ### the two primitive updates -/

/-- drop the three keys of a stored frame -/
def rawDelete (s : State) (o : Frame) : State :=
  { s with
    stream := Part.erase (idKey o.id) s.stream
    idxT := Part.erase (topicKey o.ctx o.topic o.id) s.idxT
    idxC := Part.erase (ctxKey o.ctx o.id) s.idxC }

/-- write the three keys of a frame -/
def rawAdd (s : State) (f : Frame) : State :=
  { s with
    stream := Part.insert (idKey f.id) f s.stream
    idxT := Part.insert (topicKey f.ctx f.topic f.id) () s.idxT
    idxC := Part.insert (ctxKey f.ctx f.id) () s.idxC }

theorem mem_frames_rawDelete {s : State} (h : InvK s) {o : Frame} (ho : o ∈ frames s) (g : Frame) :
    g ∈ frames (rawDelete s o) ↔ g ∈ frames s ∧ g.id ≠ o.id := by
  have wo := h.wfFrame ho
  constructor
  · intro hg
    obtain ⟨k, hk⟩ := mem_frames.1 hg
    simp only [rawDelete] at hk
    obtain ⟨hm, hne⟩ := (Part.mem_erase h.sS _).1 hk
    have := h.wf _ hm
    simp at this hne
    refine ⟨mem_frames.2 ⟨_, hm⟩, fun e => hne ?_⟩
    rw [this.1, e]
  · rintro ⟨hg, hne⟩
    refine mem_frames.2 ⟨idKey g.id, ?_⟩
    simp only [rawDelete]
    refine (Part.mem_erase h.sS _).2 ⟨h.mem_frames_iff.1 hg, ?_⟩
    simp
    exact fun e => hne (idKey_inj (h.wfFrame hg).id_lt wo.id_lt e)

theorem rawDelete_invK {s : State} (h : InvK s) {o : Frame} (ho : o ∈ frames s) :
    InvK (rawDelete s o) := by
  have wo := h.wfFrame ho
  refine ⟨sorted_erase h.sS, sorted_erase h.sT, sorted_erase h.sC, ?_, ?_, ?_⟩
  · intro kv hkv
    simp only [rawDelete] at hkv
    exact h.wf _ ((Part.mem_erase h.sS _).1 hkv).1
  · intro k
    show (k, ()) ∈ Part.erase (topicKey o.ctx o.topic o.id) s.idxT ↔
      ∃ f ∈ frames (rawDelete s o), k = topicKey f.ctx f.topic f.id
    rw [Part.mem_erase h.sT, h.tKeys]
    constructor
    · rintro ⟨⟨g, hg, rfl⟩, hne⟩
      refine ⟨g, (mem_frames_rawDelete h ho g).2 ⟨hg, fun e => hne ?_⟩, rfl⟩
      have := h.frame_unique hg ho e; subst this; rfl
    · rintro ⟨g, hg, rfl⟩
      obtain ⟨hg', hne⟩ := (mem_frames_rawDelete h ho g).1 hg
      have wg := h.wfFrame hg'
      refine ⟨⟨g, hg', rfl⟩, fun e => hne ?_⟩
      exact (topicKey_inj wg.ctx_lt wo.ctx_lt wg.id_lt wo.id_lt wg.nul wo.nul e).2.2
  · intro k
    show (k, ()) ∈ Part.erase (ctxKey o.ctx o.id) s.idxC ↔
      ∃ f ∈ frames (rawDelete s o), k = ctxKey f.ctx f.id
    rw [Part.mem_erase h.sC, h.cKeys]
    constructor
    · rintro ⟨⟨g, hg, rfl⟩, hne⟩
      refine ⟨g, (mem_frames_rawDelete h ho g).2 ⟨hg, fun e => hne ?_⟩, rfl⟩
      have := h.frame_unique hg ho e; subst this; rfl
    · rintro ⟨g, hg, rfl⟩
      obtain ⟨hg', hne⟩ := (mem_frames_rawDelete h ho g).1 hg
      have wg := h.wfFrame hg'
      refine ⟨⟨g, hg', rfl⟩, fun e => hne ?_⟩
      exact (ctxKey_inj wg.ctx_lt wo.ctx_lt wg.id_lt wo.id_lt e).2

theorem mem_frames_rawAdd {s : State} (h : InvK s) {f : Frame} (g : Frame) :
    g ∈ frames (rawAdd s f) ↔ g = f ∨ (g ∈ frames s ∧ idKey g.id ≠ idKey f.id) := by
  constructor
  · intro hg
    obtain ⟨k, hk⟩ := mem_frames.1 hg
    simp only [rawAdd] at hk
    rcases (Part.mem_insert h.sS _).1 hk with e | ⟨hm, hne⟩
    · injection e with _ e; exact Or.inl e
    · have := h.wf _ hm
      simp at this hne
      exact Or.inr ⟨mem_frames.2 ⟨_, hm⟩, by rw [← this.1]; exact hne⟩
  · rintro (rfl | ⟨hg, hne⟩)
    · exact mem_frames.2 ⟨idKey g.id, (Part.mem_insert h.sS _).2 (Or.inl rfl)⟩
    · exact mem_frames.2 ⟨idKey g.id, (Part.mem_insert h.sS _).2 (Or.inr ⟨h.mem_frames_iff.1 hg, hne⟩)⟩

theorem rawAdd_invK {s : State} (h : InvK s) {f : Frame} (wf : WfFrame f)
    (fresh : ∀ g ∈ frames s, g.id ≠ f.id) : InvK (rawAdd s f) := by
  have hfr : ∀ g, g ∈ frames (rawAdd s f) ↔ g = f ∨ g ∈ frames s := by
    intro g
    rw [mem_frames_rawAdd h]
    constructor
    · rintro (e | ⟨hg, _⟩); exact Or.inl e; exact Or.inr hg
    · rintro (e | hg)
      · exact Or.inl e
      · exact Or.inr ⟨hg, fun e => fresh g hg (idKey_inj (h.wfFrame hg).id_lt wf.id_lt e)⟩
  refine ⟨sorted_insert h.sS, sorted_insert h.sT, sorted_insert h.sC, ?_, ?_, ?_⟩
  · intro kv hkv
    simp only [rawAdd] at hkv
    rcases (Part.mem_insert h.sS _).1 hkv with e | ⟨hm, _⟩
    · subst e; exact ⟨rfl, wf⟩
    · exact h.wf _ hm
  · intro k
    show (k, ()) ∈ Part.insert (topicKey f.ctx f.topic f.id) () s.idxT ↔
      ∃ g ∈ frames (rawAdd s f), k = topicKey g.ctx g.topic g.id
    rw [Part.mem_insert h.sT, h.tKeys]
    constructor
    · rintro (e | ⟨⟨g, hg, rfl⟩, _⟩)
      · injection e with e _
        exact ⟨f, (hfr f).2 (Or.inl rfl), e⟩
      · exact ⟨g, (hfr g).2 (Or.inr hg), rfl⟩
    · rintro ⟨g, hg, rfl⟩
      rcases (hfr g).1 hg with e | hg'
      · subst e; exact Or.inl rfl
      · have wg := h.wfFrame hg'
        refine Or.inr ⟨⟨g, hg', rfl⟩, fun e => fresh g hg' ?_⟩
        exact (topicKey_inj wg.ctx_lt wf.ctx_lt wg.id_lt wf.id_lt wg.nul wf.nul e).2.2
  · intro k
    show (k, ()) ∈ Part.insert (ctxKey f.ctx f.id) () s.idxC ↔
      ∃ g ∈ frames (rawAdd s f), k = ctxKey g.ctx g.id
    rw [Part.mem_insert h.sC, h.cKeys]
    constructor
    · rintro (e | ⟨⟨g, hg, rfl⟩, _⟩)
      · injection e with e _
        exact ⟨f, (hfr f).2 (Or.inl rfl), e⟩
      · exact ⟨g, (hfr g).2 (Or.inr hg), rfl⟩
    · rintro ⟨g, hg, rfl⟩
      rcases (hfr g).1 hg with e | hg'
      · subst e; exact Or.inl rfl
      · have wg := h.wfFrame hg'
        refine Or.inr ⟨⟨g, hg', rfl⟩, fun e => fresh g hg' ?_⟩
        exact (ctxKey_inj wg.ctx_lt wf.ctx_lt wg.id_lt wf.id_lt e).2

end Xs
