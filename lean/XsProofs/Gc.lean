/-
  What the collector does: `Remove` and `CheckHeadTTL` tasks, and `wait_for_gc`.
-/
import XsProofs.Reads
namespace Xs
open Part

attribute [local irreducible] be unbe

/-- frames after removing a list of ids one by one -/
theorem mem_frames_foldl_remove {s : State} (h : Inv s) (ids : List Nat)
    (hids : ∀ i ∈ ids, i < idBound) (g : Frame) :
    g ∈ frames (ids.foldl State.remove s) ↔ g ∈ frames s ∧ g.id ∉ ids := by
  induction ids generalizing s with
  | nil => simp
  | cons a l ih =>
    simp only [List.foldl_cons]
    rw [ih (remove_inv h a) (fun i hi => hids i (List.mem_cons_of_mem _ hi)),
      mem_frames_remove h.k (hids a (by simp))]
    simp only [List.mem_cons, not_or]
    constructor
    · rintro ⟨⟨h1, h2⟩, h3⟩; exact ⟨h1, h2, h3⟩
    · rintro ⟨h1, h2, h3⟩; exact ⟨⟨h1, h2⟩, h3⟩

/-- a sorted list split at `m`: the members not among the first `m` are the rest -/
theorem mem_drop_iff_of_sorted {l : List Frame} (hs : l.Pairwise (fun a b => a.id < b.id)) (m : Nat)
    (g : Frame) : g ∈ l.drop m ↔ g ∈ l ∧ g.id ∉ (l.take m).map (·.id) := by
  have hsplit : l = l.take m ++ l.drop m := (List.take_append_drop m l).symm
  rw [hsplit] at hs
  obtain ⟨_, _, hcross⟩ := List.pairwise_append.1 hs
  constructor
  · intro hg
    refine ⟨List.mem_of_mem_drop hg, ?_⟩
    intro hmem
    obtain ⟨g', hg', e⟩ := List.mem_map.1 hmem
    have := hcross g' hg' g hg
    omega
  · rintro ⟨hg, hn⟩
    rw [hsplit] at hg
    rcases List.mem_append.1 hg with h1 | h1
    · exact absurd (List.mem_map.2 ⟨g, h1, rfl⟩) hn
    · exact h1

theorem topicFrames_sorted {s : State} (h : InvK s) (c : Nat) (t : List Nat) :
    (topicFrames s c t).Pairwise (fun a b => a.id < b.id) :=
  pairwise_filter_of _ (frames_sorted h)

/-- the ids a `CheckHeadTTL{ctx, topic, keep}` task removes: all but the `keep` newest of
    that context and topic -/
theorem checkHead_ids {s : State} (h : InvK s) {t : List Nat} {c : Nat} (ht : NulFree t)
    (hc : c < idBound) (keep : Nat) :
    ((Part.scanPrefix (topicPrefix c t) s.idxT).reverse.drop keep).map (fun kv => idOfTopicKey kv.1) =
      (((topicFrames s c t).take ((topicFrames s c t).length - keep)).map (·.id)).reverse := by
  rw [List.map_drop, List.map_reverse, topicScan_ids h ht hc, List.drop_reverse]
  simp [List.map_take]

/-- C08/C09 core: effect of one `CheckHeadTTL` task on the stored frames -/
theorem checkHead_frames {s : State} (h : Inv s) {t : List Nat} {c : Nat} (ht : NulFree t)
    (hc : c < idBound) (keep : Nat) (g : Frame) :
    g ∈ frames (s.applyTask (.checkHead c t keep)) ↔
      g ∈ frames s ∧ g ∉ (topicFrames s c t).take ((topicFrames s c t).length - keep) := by
  simp only [State.applyTask]
  rw [checkHead_ids h.k ht hc keep, mem_frames_foldl_remove h]
  · constructor
    · rintro ⟨hg, hn⟩
      refine ⟨hg, fun hm => hn ?_⟩
      simp only [List.mem_reverse, List.mem_map]
      exact ⟨g, hm, rfl⟩
    · rintro ⟨hg, hn⟩
      refine ⟨hg, fun hm => hn ?_⟩
      simp only [List.mem_reverse, List.mem_map] at hm
      obtain ⟨g', hg', e⟩ := hm
      have hg'f : g' ∈ frames s := (List.mem_filter.1 (List.mem_of_mem_take hg')).1
      have : g' = g := h.k.frame_unique hg'f hg e
      subst this; exact hg'
  · intro i hi
    simp only [List.mem_reverse, List.mem_map] at hi
    obtain ⟨g', hg', e⟩ := hi
    have hg'f : g' ∈ frames s := (List.mem_filter.1 (List.mem_of_mem_take hg')).1
    rw [← e]; exact (h.k.wfFrame hg'f).id_lt

/-- C09: after the task the topic holds exactly its `keep` newest frames -/
theorem checkHead_topic {s : State} (h : Inv s) {t : List Nat} {c : Nat} (ht : NulFree t)
    (hc : c < idBound) (keep : Nat) :
    topicFrames (s.applyTask (.checkHead c t keep)) c t =
      (topicFrames s c t).drop ((topicFrames s c t).length - keep) := by
  have h' : Inv (s.applyTask (.checkHead c t keep)) := applyTask_inv h _
  apply eq_of_sorted_of_mem_iff (fun f : Frame => f.id)
  · exact topicFrames_sorted h'.k c t
  · exact List.Pairwise.sublist (List.drop_sublist _ _) (topicFrames_sorted h.k c t)
  · intro g
    rw [mem_drop_iff_of_sorted (topicFrames_sorted h.k c t)]
    simp only [topicFrames, List.mem_filter]
    rw [checkHead_frames h ht hc keep g]
    simp only [topicFrames]
    constructor
    · rintro ⟨⟨hg, hn⟩, hp⟩
      refine ⟨⟨hg, hp⟩, fun hm => hn ?_⟩
      obtain ⟨g', hg', e⟩ := List.mem_map.1 hm
      have hg'f : g' ∈ frames s := (List.mem_filter.1 (List.mem_of_mem_take hg')).1
      have : g' = g := h.k.frame_unique hg'f hg e
      subst this; exact hg'
    · rintro ⟨⟨hg, hp⟩, hn⟩
      exact ⟨⟨hg, fun hm => hn (List.mem_map.2 ⟨g, hm, rfl⟩)⟩, hp⟩

theorem checkHead_bound {s : State} (h : Inv s) {t : List Nat} {c : Nat} (ht : NulFree t)
    (hc : c < idBound) (keep : Nat) :
    (topicFrames (s.applyTask (.checkHead c t keep)) c t).length ≤ keep := by
  rw [checkHead_topic h ht hc keep, List.length_drop]; omega

/-- C08: the task never touches another topic (prefix-related names included) or context -/
theorem checkHead_other_untouched {s : State} (h : Inv s) {t : List Nat} {c : Nat} (ht : NulFree t)
    (hc : c < idBound) (keep : Nat) (g : Frame) (hg : g ∈ frames s)
    (hne : ¬ (g.ctx = c ∧ g.topic = t)) : g ∈ frames (s.applyTask (.checkHead c t keep)) := by
  rw [checkHead_frames h ht hc keep g]
  refine ⟨hg, fun hm => hne ?_⟩
  have := (List.mem_filter.1 (List.mem_of_mem_take hm)).2
  simpa using this

/-- C08: a frame the task evicts belongs to that context and topic and is outside its `keep`
    newest frames -/
theorem checkHead_evicts_only_old {s : State} (h : Inv s) {t : List Nat} {c : Nat} (ht : NulFree t)
    (hc : c < idBound) (keep : Nat) (g : Frame) (hg : g ∈ frames s)
    (hgone : g ∉ frames (s.applyTask (.checkHead c t keep))) :
    g.ctx = c ∧ g.topic = t ∧ g ∈ topicFrames s c t ∧
      g ∉ (topicFrames s c t).drop ((topicFrames s c t).length - keep) := by
  have hm : g ∈ (topicFrames s c t).take ((topicFrames s c t).length - keep) := by
    by_cases hm : g ∈ (topicFrames s c t).take ((topicFrames s c t).length - keep)
    · exact hm
    · exact absurd ((checkHead_frames h ht hc keep g).2 ⟨hg, hm⟩) hgone
  have hL := List.mem_of_mem_take hm
  have hp := (List.mem_filter.1 hL).2
  simp only [Bool.and_eq_true, decide_eq_true_eq] at hp
  refine ⟨hp.1, hp.2, hL, fun hd => ?_⟩
  have := ((mem_drop_iff_of_sorted (topicFrames_sorted h.k c t) _ g).1 hd).2
  exact this (List.mem_map.2 ⟨g, hm, rfl⟩)

/-- a task only ever removes frames -/
theorem applyTask_subset {s : State} (h : Inv s) (t : GCTask)
    (wt : match t with | .remove id => id < idBound | .checkHead c tp _ => c < idBound ∧ NulFree tp)
    (g : Frame) (hg : g ∈ frames (s.applyTask t)) : g ∈ frames s := by
  cases t with
  | remove id => exact ((mem_frames_remove h.k wt g).1 hg).1
  | checkHead c tp keep => exact ((checkHead_frames h wt.2 wt.1 keep g).1 hg).1

end Xs

namespace Xs
open Part
attribute [local irreducible] be unbe

/-- numeric well-formedness of a queued task (what `append` / the reads enqueue) -/
def WfTask : GCTask → Prop
  | .remove id => id < idBound
  | .checkHead c tp _ => c < idBound ∧ NulFree tp

def GcWf (s : State) : Prop := ∀ t ∈ s.gcq, WfTask t

/-- how a task justifies the disappearance of frame `g` from state `s`:
    `Remove(id)` names it; `CheckHeadTTL` finds it in that context and topic outside the
    `keep` newest -/
def EvictedBy (s : State) (t : GCTask) (g : Frame) : Prop :=
  match t with
  | .remove id => g.id = id
  | .checkHead c tp keep =>
    g.ctx = c ∧ g.topic = tp ∧ g ∈ topicFrames s c tp ∧
      g ∉ (topicFrames s c tp).drop ((topicFrames s c tp).length - keep)

theorem applyTask_gone {s : State} (h : Inv s) {t : GCTask} (wt : WfTask t) (g : Frame)
    (hg : g ∈ frames s) (hgone : g ∉ frames (s.applyTask t)) : EvictedBy s t g := by
  cases t with
  | remove id =>
    simp only [EvictedBy]
    by_cases e : g.id = id
    · exact e
    · exact absurd ((mem_frames_remove h.k wt g).2 ⟨hg, e⟩) hgone
  | checkHead c tp keep => exact checkHead_evicts_only_old h wt.2 wt.1 keep g hg hgone

theorem foldl_applyTask_gone {s : State} (h : Inv s) (ts : List GCTask) (wts : ∀ t ∈ ts, WfTask t)
    (g : Frame) (hg : g ∈ frames s) (hgone : g ∉ frames (ts.foldl State.applyTask s)) :
    ∃ pre t post, ts = pre ++ t :: post ∧ g ∈ frames (pre.foldl State.applyTask s) ∧
      EvictedBy (pre.foldl State.applyTask s) t g := by
  induction ts generalizing s with
  | nil => exact absurd hg hgone
  | cons a l ih =>
    by_cases ha : g ∈ frames (s.applyTask a)
    · obtain ⟨pre, t, post, e, h1, h2⟩ := ih (applyTask_inv h a)
        (fun t ht => wts t (List.mem_cons_of_mem _ ht)) ha hgone
      exact ⟨a :: pre, t, post, by rw [e]; rfl, h1, h2⟩
    · exact ⟨[], a, l, rfl, hg, applyTask_gone h (wts a (by simp)) g hg ha⟩

theorem foldl_applyTask_subset {s : State} (h : Inv s) (ts : List GCTask)
    (wts : ∀ t ∈ ts, WfTask t) (g : Frame) (hg : g ∈ frames (ts.foldl State.applyTask s)) :
    g ∈ frames s := by
  induction ts generalizing s with
  | nil => exact hg
  | cons a l ih =>
    have := ih (applyTask_inv h a) (fun t ht => wts t (List.mem_cons_of_mem _ ht)) hg
    have wa := wts a (by simp)
    exact applyTask_subset h a (by cases a <;> exact wa) g this

/-- the reasons for which frame `g` may stop being stored at operation `op` from state `s` -/
def GoneBecause (s : State) (g : Frame) : Op → Prop
  | .append _ id => g.id = id
  | .importF f => g.id = f.id
  | .remove id => g.id = id
  | .gc => ∃ t q, s.gcq = t :: q ∧ EvictedBy s t g
  | .drain => ∃ pre t post, s.gcq = pre ++ t :: post ∧
      EvictedBy (pre.foldl State.applyTask { s with gcq := [] }) t g
  | _ => False

/-- C08, one step: a stored frame stops being stored only through an explicit remove, a
    write under its own id, or a gc task that names it / finds it outside the newest `keep` -/
theorem step_retention {s : State} (h : Inv s) (hq : GcWf s) {op : Op} (w : WfOp op) (g : Frame)
    (hg : g ∈ frames s) (hgone : g ∉ frames (s.step op)) : GoneBecause s g op := by
  cases op with
  | append f id =>
    simp only [State.step, GoneBecause] at hgone ⊢
    cases e : s.append f id with
    | error _ => rw [e] at hgone; exact absurd hg hgone
    | ok r =>
      obtain ⟨s', f'⟩ := r
      rw [e] at hgone
      simp only at hgone
      obtain ⟨_, hf, _, _⟩ := append_ok e
      by_cases he : f'.ttl = some .ephemeral
      · -- nothing stored: frames unchanged
        exfalso
        unfold State.append State.appendPre at e
        by_cases ht : f.topic = xsContext
        · rw [hf] at he; simp [ht] at he
        · have hc := (append_ok (s := s) (f0 := f) (id := id) (s' := s') (f := f')
            (by unfold State.append State.appendPre; exact e)).2.2.1
          have hcc : f.ctx ∈ s.contexts := by simpa [ht] using hc
          simp only [ht, hcc, if_true, if_false] at e
          unfold State.appendStore at e
          have hn := (append_ok (s := s) (f0 := f) (id := id) (s' := s') (f := f')
            (by unfold State.append State.appendPre; simp only [ht, hcc, if_true, if_false]; exact e)).1
          rw [hf] at he
          simp only [ht, if_false] at he
          simp only [hn, Bool.false_eq_true, if_false, he, if_true] at e
          injection e with e; injection e with e1 _
          subst e1
          exact hgone hg
      · have := (mem_frames_append h w.1 w.2 e he g)
        by_cases hid : g.id = f'.id
        · rw [hid, hf]
        · exact absurd (this.2 (Or.inr ⟨hg, hid⟩)) hgone
  | importF f =>
    simp only [State.step, GoneBecause] at hgone ⊢
    cases e : s.insertFrame f with
    | error _ => rw [e] at hgone; exact absurd hg hgone
    | ok s' =>
      rw [e] at hgone
      by_cases hid : g.id = f.id
      · exact hid
      · exact absurd ((mem_frames_insertFrame h w.1 w.2 e g).2 (Or.inr ⟨hg, hid⟩)) hgone
  | remove id =>
    simp only [State.step, GoneBecause] at hgone ⊢
    cases hgt : s.get id with
    | none => rw [remove_none hgt] at hgone; exact absurd hg hgone
    | some o =>
      obtain ⟨ho, hk⟩ := h.k.get_eq_some_iff.1 hgt
      have hfr : frames (s.remove id) = frames (rawDelete s o) := by
        simp [frames, (remove_eq h.k hgt).1]
      rw [hfr, mem_frames_rawDelete h.k ho] at hgone
      by_cases e : g.id = o.id
      · have : g = o := h.k.frame_unique hg ho e
        subst this
        exact idKey_inj (h.k.wfFrame hg).id_lt w hk
      · exact absurd ⟨hg, e⟩ hgone
  | readSync c l n now => exact hgone hg
  | readHist c l n now => exact hgone hg
  | gc =>
    simp only [State.step, State.gcStep, GoneBecause] at hgone ⊢
    cases hqq : s.gcq with
    | nil => rw [hqq] at hgone; exact absurd hg hgone
    | cons t q =>
      rw [hqq] at hgone
      simp only at hgone
      have h' : Inv ({ s with gcq := q }) := inv_of_parts h rfl rfl rfl rfl
      have wt : WfTask t := hq t (by rw [hqq]; simp)
      have := applyTask_gone h' wt g hg hgone
      refine ⟨t, q, rfl, ?_⟩
      cases t <;> exact this
  | drain =>
    simp only [State.step, State.drain, GoneBecause] at hgone ⊢
    have h' : Inv ({ s with gcq := [] }) := inv_of_parts h rfl rfl rfl rfl
    obtain ⟨pre, t, post, e, _, h2⟩ := foldl_applyTask_gone h' s.gcq hq g hg hgone
    exact ⟨pre, t, post, e, h2⟩
  | reopen => exact hgone hg

end Xs
