/-
  Facts about whole histories: the gc queue only ever holds tasks that the history justifies.
-/
import XsProofs.Gc
namespace Xs
open Part
attribute [local irreducible] be unbe

theorem mem_iterFrames_mem_frames {s : State} (h : InvK s) {ctx last : Option Nat} {f : Frame}
    (hf : f ∈ s.iterFrames ctx last) : f ∈ frames s := by
  unfold State.iterFrames at hf
  cases ctx with
  | none =>
    simp only [List.mem_map] at hf
    obtain ⟨kv, hkv, e⟩ := hf
    exact mem_frames.2 ⟨kv.1, by rw [← e]; exact ((Part.mem_range _).1 hkv).1⟩
  | some c =>
    simp only [List.mem_filterMap] at hf
    obtain ⟨kv, _, e⟩ := hf
    split at e
    · exact (h.get_eq_some_iff.1 e).1
    · cases e

/-- the gc queue after an accepted append -/
theorem append_gcq {s s' : State} {f0 f : Frame} {id : Nat} (e : s.append f0 id = .ok (s', f)) :
    s'.gcq = s.gcq ++ (if f.ttl = some .ephemeral then [] else headTask f) := by
  obtain ⟨_, _, _, h4⟩ := append_spec.1 e
  by_cases he : f.ttl = some .ephemeral
  · simp only [he, if_true] at h4 ⊢; rw [h4]; simp
  · simp only [he, if_false] at h4 ⊢; rw [h4.2]; simp [storedState, State.insertFrameCore]

theorem insertFrame_gcq {s s' : State} {f : Frame} (e : s.insertFrame f = .ok s') :
    s'.gcq = s.gcq := by
  obtain ⟨_, _, rfl⟩ := insertFrame_ok e
  rfl

theorem remove_gcq (s : State) (id : Nat) : (s.remove id).gcq = s.gcq := by
  unfold State.remove
  split
  · rfl
  · split <;> rfl

theorem foldl_remove_gcq (s : State) (ids : List Nat) : (ids.foldl State.remove s).gcq = s.gcq := by
  induction ids generalizing s with
  | nil => rfl
  | cons a l ih => simp only [List.foldl_cons, ih, remove_gcq]

theorem applyTask_gcq (s : State) (t : GCTask) : (s.applyTask t).gcq = s.gcq := by
  cases t with
  | remove id => exact remove_gcq s id
  | checkHead c tp k => exact foldl_remove_gcq s _

theorem foldl_applyTask_gcq (s : State) (ts : List GCTask) :
    (ts.foldl State.applyTask s).gcq = s.gcq := by
  induction ts generalizing s with
  | nil => rfl
  | cons a l ih => simp only [List.foldl_cons, ih, applyTask_gcq]

theorem headTask_wf {f : Frame} (hc : f.ctx < idBound) (hn : NulFree f.topic) :
    ∀ t ∈ headTask f, WfTask t := by
  intro t ht
  unfold headTask at ht
  split at ht
  · simp at ht; subst ht; exact ⟨hc, hn⟩
  · simp at ht

/-- the queue only ever holds numerically well-formed tasks -/
theorem gcWf_step {s : State} (h : Inv s) (hq : GcWf s) {op : Op} (w : WfOp op) :
    GcWf (s.step op) := by
  cases op with
  | append f id =>
    simp only [State.step]
    cases e : s.append f id with
    | error _ => exact hq
    | ok r =>
      obtain ⟨s', f'⟩ := r
      intro t ht
      simp only at ht
      rw [append_gcq e] at ht
      rcases List.mem_append.1 ht with h1 | h1
      · exact hq t h1
      · obtain ⟨hn, hf, _, _⟩ := append_ok e
        split at h1
        · simp at h1
        · refine headTask_wf ?_ ?_ t h1
          · rw [hf]; exact w.2
          · rw [hf]; exact hasNul_eq_false_iff.1 hn
  | importF f =>
    simp only [State.step]
    cases e : s.insertFrame f with
    | error _ => exact hq
    | ok s' => intro t ht; simp only at ht; rw [insertFrame_gcq e] at ht; exact hq t ht
  | remove id => intro t ht; simp only [State.step, remove_gcq] at ht; exact hq t ht
  | readSync c l n now =>
    intro t ht
    simp only [State.step, State.readSync] at ht
    rcases List.mem_append.1 ht with h1 | h1
    · exact hq t h1
    · obtain ⟨f, hf, e, _⟩ := readSyncGo_tasks now _ _ t h1
      rw [e]; exact (h.k.wfFrame (mem_iterFrames_mem_frames h.k hf)).id_lt
  | readHist c l n now =>
    intro t ht
    simp only [State.step, State.readHist] at ht
    rcases List.mem_append.1 ht with h1 | h1
    · exact hq t h1
    · obtain ⟨f, hf, e, _⟩ := readHistGo_tasks now _ _ _ t h1
      rw [e]; exact (h.k.wfFrame (mem_iterFrames_mem_frames h.k hf)).id_lt
  | gc =>
    intro t ht
    simp only [State.step, State.gcStep] at ht
    cases hqq : s.gcq with
    | nil => rw [hqq] at ht; exact hq t ht
    | cons a q =>
      rw [hqq] at ht
      simp only [applyTask_gcq] at ht
      exact hq t (by rw [hqq]; exact List.mem_cons_of_mem _ ht)
  | drain =>
    intro t ht
    simp only [State.step, State.drain, foldl_applyTask_gcq] at ht
    cases ht
  | reopen => intro t ht; simp only [State.step, State.reopen] at ht; cases ht

theorem run_inv_gcWf {s : State} (h : Inv s) (hq : GcWf s) (ops : List Op)
    (w : ∀ op ∈ ops, WfOp op) : Inv (s.run ops) ∧ GcWf (s.run ops) := by
  induction ops generalizing s with
  | nil => exact ⟨h, hq⟩
  | cons op ops ih =>
    have w0 := w op (by simp)
    exact ih (step_inv h w0) (gcWf_step h hq w0) (fun o ho => w o (List.mem_cons_of_mem _ ho))

theorem reachable_gcWf (ops : List Op) (w : ∀ op ∈ ops, WfOp op) : GcWf (State.init.run ops) :=
  (run_inv_gcWf inv_init (by intro t ht; cases ht) ops w).2

theorem run_append (s : State) (ops : List Op) (op : Op) :
    s.run (ops ++ [op]) = (s.run ops).step op := by
  simp [State.run, List.foldl_append]

/-- What in a history justifies a queued task.
    `Remove(id)`: a read at clock `now` found the stored frame `id` with its `time:N` elapsed.
    `CheckHeadTTL{c, t, k}`: an accepted append stored a `head:k` frame in context `c`, topic `t`. -/
def TaskJustified (ops : List Op) : GCTask → Prop
  | .remove id => ∃ pre post, ∃ c l : Option Nat, ∃ n : Option Nat, ∃ now : Nat,
      (ops = pre ++ Op.readSync c l n now :: post ∨ ops = pre ++ Op.readHist c l n now :: post) ∧
      ∃ f ∈ frames (State.init.run pre), f.id = id ∧ f.expired now = true
  | .checkHead c t k => ∃ pre post f0 id s' f,
      ops = pre ++ Op.append f0 id :: post ∧ (State.init.run pre).append f0 id = .ok (s', f) ∧
      f.ctx = c ∧ f.topic = t ∧ f.ttl = some (.head k)

theorem TaskJustified.extend {ops : List Op} {t : GCTask} (h : TaskJustified ops t) (op : Op) :
    TaskJustified (ops ++ [op]) t := by
  cases t with
  | remove id =>
    obtain ⟨pre, post, c, l, n, now, e, hf⟩ := h
    refine ⟨pre, post ++ [op], c, l, n, now, ?_, hf⟩
    rcases e with e | e
    · exact Or.inl (by rw [e]; simp)
    · exact Or.inr (by rw [e]; simp)
  | checkHead c tp k =>
    obtain ⟨pre, post, f0, id, s', f, e, h1, h2⟩ := h
    exact ⟨pre, post ++ [op], f0, id, s', f, by rw [e]; simp, h1, h2⟩

/-- C08: every task the collector will ever run is justified by the history so far -/
theorem queue_justified (ops : List Op) (w : ∀ op ∈ ops, WfOp op) :
    ∀ t ∈ (State.init.run ops).gcq, TaskJustified ops t := by
  revert w
  refine list_snoc_induction (P := fun ops => (∀ op ∈ ops, WfOp op) →
    ∀ t ∈ (State.init.run ops).gcq, TaskJustified ops t) ?_ ?_ ops
  · intro _ t ht; cases ht
  · intro ops op ih w
    have w' : ∀ o ∈ ops, WfOp o := fun o ho => w o (by simp [ho])
    have hI := reachable_inv ops w'
    have ih := ih w'
    intro t ht
    rw [run_append] at ht
    generalize hs : State.init.run ops = s at ht ih hI
    have old : ∀ t, t ∈ s.gcq → TaskJustified (ops ++ [op]) t := fun t ht => (ih t ht).extend op
    cases op with
    | append f id =>
      simp only [State.step] at ht
      cases e : s.append f id with
      | error _ => rw [e] at ht; exact old t ht
      | ok r =>
        obtain ⟨s', f'⟩ := r
        rw [e] at ht
        simp only at ht
        rw [append_gcq e] at ht
        rcases List.mem_append.1 ht with h1 | h1
        · exact old t h1
        · split at h1
          · simp at h1
          · unfold headTask at h1
            split at h1
            · rename_i n hn
              simp at h1; subst h1
              exact ⟨ops, [], f, id, s', f', rfl, by rw [hs]; exact e, rfl, rfl, hn⟩
            · simp at h1
    | importF f =>
      simp only [State.step] at ht
      cases e : s.insertFrame f with
      | error _ => rw [e] at ht; exact old t ht
      | ok s' => rw [e] at ht; simp only at ht; rw [insertFrame_gcq e] at ht; exact old t ht
    | remove id => simp only [State.step, remove_gcq] at ht; exact old t ht
    | readSync c l n now =>
      simp only [State.step, State.readSync] at ht
      rcases List.mem_append.1 ht with h1 | h1
      · exact old t h1
      · obtain ⟨f, hf, e, hx⟩ := readSyncGo_tasks now _ _ t h1
        rw [e]
        exact ⟨ops, [], c, l, n, now, Or.inl rfl, f, by rw [hs]; exact mem_iterFrames_mem_frames hI.k hf, rfl, hx⟩
    | readHist c l n now =>
      simp only [State.step, State.readHist] at ht
      rcases List.mem_append.1 ht with h1 | h1
      · exact old t h1
      · obtain ⟨f, hf, e, hx⟩ := readHistGo_tasks now _ _ _ t h1
        rw [e]
        exact ⟨ops, [], c, l, n, now, Or.inr rfl, f, by rw [hs]; exact mem_iterFrames_mem_frames hI.k hf, rfl, hx⟩
    | gc =>
      simp only [State.step, State.gcStep] at ht
      cases hqq : s.gcq with
      | nil => rw [hqq] at ht; exact old t ht
      | cons a q =>
        rw [hqq] at ht
        simp only [applyTask_gcq] at ht
        exact old t (by rw [hqq]; exact List.mem_cons_of_mem _ ht)
    | drain =>
      simp only [State.step, State.drain, foldl_applyTask_gcq] at ht
      cases ht
    | reopen => simp only [State.step, State.reopen] at ht; cases ht

end Xs

namespace Xs
open Part
attribute [local irreducible] be unbe

/-! ### C09 building blocks -/

/-- an ephemeral append stores nothing: partitions, registry and gc queue are untouched;
    the frame is only broadcast -/
theorem append_ephemeral {s s' : State} {f0 f : Frame} {id : Nat}
    (e : s.append f0 id = .ok (s', f)) (he : f.ttl = some .ephemeral) :
    s'.stream = s.stream ∧ s'.idxT = s.idxT ∧ s'.idxC = s.idxC ∧ s'.contexts = s.contexts ∧
    s'.gcq = s.gcq ∧ s'.bcast = s.bcast ++ [f] := by
  obtain ⟨_, _, _, h4⟩ := append_spec.1 e
  simp only [he, if_true] at h4
  rw [h4]
  exact ⟨rfl, rfl, rfl, rfl, rfl, rfl⟩

theorem applyTask_sublist (s : State) (t : GCTask) : (frames (s.applyTask t)).Sublist (frames s) := by
  have hrem : ∀ (s : State) (id : Nat), (frames (s.remove id)).Sublist (frames s) := by
    intro s id
    unfold State.remove frames
    split
    · exact List.Sublist.refl _
    · split
      · exact List.Sublist.refl _
      · exact List.Sublist.map _ (Part.erase_sublist _ _)
  cases t with
  | remove id => exact hrem s id
  | checkHead c tp k =>
    simp only [State.applyTask]
    generalize (List.map (fun kv => idOfTopicKey kv.1)
      (List.drop k (Part.scanPrefix (topicPrefix c tp) s.idxT).reverse)) = ids
    induction ids generalizing s with
    | nil => exact List.Sublist.refl _
    | cons a l ih => exact (ih (s.remove a)).trans (hrem s a)

theorem foldl_applyTask_sublist (s : State) (ts : List GCTask) :
    (frames (ts.foldl State.applyTask s)).Sublist (frames s) := by
  induction ts generalizing s with
  | nil => exact List.Sublist.refl _
  | cons a l ih => exact (ih (s.applyTask a)).trans (applyTask_sublist s a)

theorem topicFrames_length_mono {s s' : State} (h : (frames s').Sublist (frames s)) (c : Nat)
    (t : List Nat) : (topicFrames s' c t).length ≤ (topicFrames s c t).length :=
  (List.Sublist.filter _ h).length_le

/-- once a `Remove(i)` task is in the batch, no frame with id `i` survives the batch -/
theorem foldl_applyTask_removes {s : State} (h : Inv s) (ts : List GCTask)
    (wts : ∀ t ∈ ts, WfTask t) (i : Nat) (hi : GCTask.remove i ∈ ts) :
    ∀ g ∈ frames (ts.foldl State.applyTask s), g.id ≠ i := by
  induction ts generalizing s with
  | nil => cases hi
  | cons a l ih =>
    rcases List.mem_cons.1 hi with e | e
    · subst e
      intro g hg
      have hsub := (foldl_applyTask_sublist (s.applyTask (.remove i)) l).subset hg
      have wi : i < idBound := wts (.remove i) (by simp)
      exact ((mem_frames_remove h.k wi g).1 hsub).2
    · exact ih (applyTask_inv h a) (fun t ht => wts t (List.mem_cons_of_mem _ ht)) e

/-- once a `CheckHeadTTL{c,t,k}` task is in the batch, the topic holds at most `k` frames
    after the batch -/
theorem foldl_applyTask_head_bound {s : State} (h : Inv s) (ts : List GCTask)
    (wts : ∀ t ∈ ts, WfTask t) {c : Nat} {tp : List Nat} {k : Nat}
    (hi : GCTask.checkHead c tp k ∈ ts) :
    (topicFrames (ts.foldl State.applyTask s) c tp).length ≤ k := by
  induction ts generalizing s with
  | nil => cases hi
  | cons a l ih =>
    rcases List.mem_cons.1 hi with e | e
    · subst e
      have w : WfTask (.checkHead c tp k) := wts _ (by simp)
      have := checkHead_bound h w.2 w.1 k
      exact Nat.le_trans (topicFrames_length_mono (foldl_applyTask_sublist _ l) c tp) this
    · exact ih (applyTask_inv h a) (fun t ht => wts t (List.mem_cons_of_mem _ ht)) e

/-- an unlimited synchronous read queues a `Remove` for every expired frame it passes -/
theorem readSyncGo_tasks_complete (now : Nat) (n : Nat) (l : List Frame) (hn : l.length ≤ n)
    (f : Frame) (hf : f ∈ l) (he : f.expired now = true) :
    GCTask.remove f.id ∈ (readSyncGo now n l).2 := by
  induction l generalizing n with
  | nil => cases hf
  | cons a r ih =>
    cases n with
    | zero => simp at hn
    | succ n =>
      unfold readSyncGo
      have hn' : r.length ≤ n := by simpa using hn
      by_cases ha : a.expired now = true
      · simp only [ha, if_true]
        rcases List.mem_cons.1 hf with e | e
        · subst e; simp
        · exact List.mem_cons_of_mem _ (ih (n + 1) (by omega) e)
      · simp only [ha, Bool.false_eq_true, if_false]
        rcases List.mem_cons.1 hf with e | e
        · subst e; exact absurd he ha
        · exact ih n hn' e

end Xs
