/-
  Invariants of the append / follow LTS (XsModel/Follow.lean).
-/
import XsModel.Follow
import XsProofs.ListAux
namespace Xs.Follow

def idsLt (l : List Frame) (n : Nat) : Prop := ∀ f ∈ l, f.id < n
def idsLe (l : List Frame) (n : Nat) : Prop := ∀ f ∈ l, f.id ≤ n
def Sorted (l : List Frame) : Prop := l.Pairwise (fun a b => a.id < b.id)

theorem sorted_snoc {l : List Frame} {f : Frame} (h : Sorted l) (hl : idsLt l f.id) : Sorted (l ++ [f]) := by
  unfold Sorted
  rw [List.pairwise_append]
  refine ⟨h, by simp, ?_⟩
  intro a ha b hb
  simp at hb; subst hb
  exact hl a ha

theorem idsLt.le {l : List Frame} {n : Nat} (h : idsLt l n) : idsLe l n := fun f hf => Nat.le_of_lt (h f hf)
theorem idsLe.lt_of_lt {l : List Frame} {n m : Nat} (h : idsLe l n) (hm : n < m) : idsLt l m :=
  fun f hf => Nat.lt_of_le_of_lt (h f hf) hm
theorem idsLe.mono {l : List Frame} {n m : Nat} (h : idsLe l n) (hm : n ≤ m) : idsLe l m :=
  fun f hf => Nat.le_trans (h f hf) hm

/-- C02 core: ids, commits and broadcasts are totally ordered by the append lock -/
structure Inv1 (s : Sys) : Prop where
  cs : Sorted s.committed
  bs : Sorted s.bcast
  cle : idsLe s.committed s.lastId
  ble : idsLe s.bcast s.lastId
  lk : ∀ f st, s.lock = some (f, st) →
    f.id = s.lastId ∧ idsLt s.bcast s.lastId ∧
    (st = false → idsLt s.committed s.lastId) ∧
    (st = true → f.ttl ≠ some .ephemeral ∧ ∃ pre, s.committed = pre ++ [f])

theorem inv1_init : Inv1 {} := by
  refine ⟨List.Pairwise.nil, List.Pairwise.nil, ?_, ?_, ?_⟩
  · intro f hf; cases hf
  · intro f hf; cases hf
  · intro f st h; cases h

/-- the reader component does not matter for `Inv1` -/
theorem inv1_of_eq {s s' : Sys} (h : Inv1 s) (e1 : s'.committed = s.committed) (e2 : s'.bcast = s.bcast)
    (e3 : s'.lastId = s.lastId) (e4 : s'.lock = s.lock) : Inv1 s' := by
  refine ⟨e1 ▸ h.cs, e2 ▸ h.bs, ?_, ?_, ?_⟩
  · rw [e1, e3]; exact h.cle
  · rw [e2, e3]; exact h.ble
  · rw [e1, e2, e3, e4]; exact h.lk

theorem step_inv1 {s s' : Sys} (h : Inv1 s) (a : Act) (e : step s a = some s') : Inv1 s' := by
  cases a with
  | appendId f id =>
    simp only [step] at e
    split at e
    · cases e
    · rename_i hg
      simp only [Bool.or_eq_true, decide_eq_true_eq, not_or, Nat.not_le] at hg
      injection e with e; subst e
      refine ⟨h.cs, h.bs, (h.cle.lt_of_lt hg.2).le, (h.ble.lt_of_lt hg.2).le, ?_⟩
      intro f' st hl
      simp only [Option.some.injEq, Prod.mk.injEq] at hl
      obtain ⟨rfl, rfl⟩ := hl
      exact ⟨rfl, h.ble.lt_of_lt hg.2, fun _ => h.cle.lt_of_lt hg.2, fun e => Bool.noConfusion e⟩
  | appendCommit =>
    simp only [step] at e
    split at e
    · rename_i f hl
      split at e
      · cases e
      · rename_i hne
        injection e with e; subst e
        obtain ⟨hid, hb, hc, _⟩ := h.lk f false hl
        have hc := hc rfl
        refine ⟨sorted_snoc h.cs (by rw [hid]; exact hc), h.bs, ?_, h.ble, ?_⟩
        · intro g hg
          rcases List.mem_append.1 hg with hg | hg
          · exact h.cle g hg
          · simp at hg; subst hg; exact Nat.le_of_eq hid
        · intro f' st hl'
          simp only [Option.some.injEq, Prod.mk.injEq] at hl'
          obtain ⟨rfl, rfl⟩ := hl'
          exact ⟨hid, hb, fun e => Bool.noConfusion e, fun _ => ⟨hne, _, rfl⟩⟩
    · cases e
  | appendAbort =>
    simp only [step] at e
    split at e
    · injection e with e; subst e
      exact ⟨h.cs, h.bs, h.cle, h.ble, fun f st hl => by cases hl⟩
    · cases e
  | appendBroadcast =>
    simp only [step] at e
    split at e
    · rename_i f stored hl
      split at e
      · cases e
      · injection e with e; subst e
        obtain ⟨hid, hb, _, _⟩ := h.lk f stored hl
        refine ⟨h.cs, sorted_snoc h.bs (by rw [hid]; exact hb), h.cle, ?_, fun f st hl => by cases hl⟩
        intro g hg
        rcases List.mem_append.1 hg with hg | hg
        · exact h.ble g hg
        · simp at hg; subst hg; exact Nat.le_of_eq hid
    · cases e
  | subscribe o cutId =>
    simp only [step] at e
    split at e
    · cases e
    · rename_i hg
      simp only [Bool.or_eq_true, Bool.and_eq_true, decide_eq_true_eq, not_or, not_and, Nat.not_le] at hg
      injection e with e; subst e
      by_cases hf : o.follow = true
      · have hlt : s.lastId < cutId := hg.2 hf
        have hlock : s.lock = none := by
          have := hg.1.1 hf
          simpa using this
        refine ⟨h.cs, h.bs, ?_, ?_, ?_⟩
        · simp only [hf, if_true]; exact h.cle.mono (Nat.le_of_lt hlt)
        · simp only [hf, if_true]; exact h.ble.mono (Nat.le_of_lt hlt)
        · intro f st hl; simp only at hl; rw [hlock] at hl; cases hl
      · have hf' : o.follow = false := by simpa using hf
        refine ⟨h.cs, h.bs, ?_, ?_, ?_⟩
        · simp only [hf', Bool.false_eq_true, if_false]; exact h.cle
        · simp only [hf', Bool.false_eq_true, if_false]; exact h.ble
        · simp only [hf', Bool.false_eq_true, if_false]; exact h.lk
  | r a =>
    simp only [step] at e
    split at e
    · rename_i rd _
      cases hr : stepReader s.committed rd a with
      | none => rw [hr] at e; cases e
      | some r' =>
        rw [hr] at e
        simp only [Option.map_some] at e
        injection e with e; subst e
        exact inv1_of_eq h rfl rfl rfl rfl
    · cases e

theorem run_inv1 {s s' : Sys} (h : Inv1 s) (as : List Act) (e : run s as = some s') : Inv1 s' := by
  induction as generalizing s with
  | nil => simp [run] at e; subst e; exact h
  | cons a as ih =>
    simp only [run] at e
    split at e
    · rename_i s1 hs; exact ih (step_inv1 h a hs) e
    · cases e

end Xs.Follow

namespace Xs.Follow

/-! ### C02 corollaries -/

/-- a step never rewrites history: the stored stream only grows at its end, by a frame whose
    id is greater than every id already stored -/
theorem step_committed_grows {s s' : Sys} (h : Inv1 s) (a : Act) (e : step s a = some s') :
    s'.committed = s.committed ∨
      ∃ f, s'.committed = s.committed ++ [f] ∧ ∀ g ∈ s.committed, g.id < f.id := by
  cases a with
  | appendId f id =>
    simp only [step] at e; split at e
    · cases e
    · injection e with e; subst e; exact Or.inl rfl
  | appendCommit =>
    simp only [step] at e
    split at e
    · rename_i f hl
      split at e
      · cases e
      · injection e with e; subst e
        obtain ⟨hid, _, hc, _⟩ := h.lk f false hl
        exact Or.inr ⟨f, rfl, by rw [hid]; exact hc rfl⟩
    · cases e
  | appendAbort =>
    simp only [step] at e; split at e
    · injection e with e; subst e; exact Or.inl rfl
    · cases e
  | appendBroadcast =>
    simp only [step] at e; split at e
    · split at e
      · cases e
      · injection e with e; subst e; exact Or.inl rfl
    · cases e
  | subscribe o c =>
    simp only [step] at e; split at e
    · cases e
    · injection e with e; subst e; exact Or.inl rfl
  | r a =>
    simp only [step] at e
    split at e
    · rename_i rd _
      cases hr : stepReader s.committed rd a with
      | none => rw [hr] at e; cases e
      | some r' => rw [hr] at e; simp only [Option.map_some] at e; injection e with e; subst e; exact Or.inl rfl
    · cases e

/-- over any schedule: the later stream is the earlier one plus newer frames at its end -/
theorem run_committed_extends {s s' : Sys} (h : Inv1 s) (as : List Act) (e : run s as = some s') :
    ∃ new, s'.committed = s.committed ++ new ∧ ∀ f ∈ new, ∀ g ∈ s.committed, g.id < f.id := by
  induction as generalizing s with
  | nil => simp [run] at e; subst e; exact ⟨[], by simp, by simp⟩
  | cons a as ih =>
    simp only [run] at e
    split at e
    · rename_i s1 hs
      obtain ⟨new, e1, h1⟩ := ih (step_inv1 h a hs) e
      rcases step_committed_grows h a hs with e0 | ⟨f, e0, h0⟩
      · exact ⟨new, by rw [e1, e0], by intro f hf g hg; exact h1 f hf g (by rw [e0]; exact hg)⟩
      · refine ⟨f :: new, by rw [e1, e0]; simp, ?_⟩
        intro x hx g hg
        rcases List.mem_cons.1 hx with rfl | hx
        · exact h0 g hg
        · exact h1 x hx g (by rw [e0]; exact List.mem_append_left _ hg)
    · cases e

/-- what a client polling with `last-id` = the newest frame it has seen gets next -/
def pollAfter (committed : List Frame) (last : Option Nat) : List Frame :=
  committed.filter (afterId last)

def newestId (l : List Frame) : Option Nat := l.getLast?.map (·.id)

/-- C02: a poller that has seen exactly the stream of state `s` receives, at any later state,
    exactly the frames appended since — none missed, none twice — whatever the interleaving -/
theorem poller_exactly_once {s s' : Sys} (h : Inv1 s) (as : List Act) (e : run s as = some s') :
    ∃ new, s'.committed = s.committed ++ new ∧ pollAfter s'.committed (newestId s.committed) = new := by
  obtain ⟨new, e1, h1⟩ := run_committed_extends h as e
  refine ⟨new, e1, ?_⟩
  unfold pollAfter newestId
  rw [e1, List.filter_append]
  cases hl : s.committed.getLast? with
  | none =>
    have : s.committed = [] := List.getLast?_eq_none_iff.1 hl
    simp [this, afterId]
  | some g =>
    have hg : g ∈ s.committed := List.mem_of_getLast? hl
    have hmax : ∀ x ∈ s.committed, x.id ≤ g.id := by
      intro x hx
      obtain ⟨pre, hpre⟩ : ∃ pre, s.committed = pre ++ [g] := by
        have := List.getLast?_eq_some_iff.1 hl
        exact this
      rw [hpre] at hx
      rcases List.mem_append.1 hx with hx | hx
      · have hs := h.cs
        rw [hpre] at hs
        have := (List.pairwise_append.1 hs).2.2 x hx g (by simp)
        exact Nat.le_of_lt this
      · simp at hx; subst hx; exact Nat.le_refl _
    have e2 : s.committed.filter (afterId (Option.map (fun x => x.id) (some g))) = [] := by
      apply List.filter_eq_nil_iff.2
      intro x hx
      simp only [Option.map_some, afterId, decide_eq_true_eq]
      have := hmax x hx
      omega
    have e3 : new.filter (afterId (Option.map (fun x => x.id) (some g))) = new := by
      apply List.filter_eq_self.2
      intro x hx
      simp only [Option.map_some, afterId, decide_eq_true_eq]
      exact h1 x hx g hg
    rw [e2, e3]; rfl

/-- C02: frames are handed to subscribers in increasing id order -/
theorem broadcast_in_id_order {s s' : Sys} (h : Inv1 s) (as : List Act) (e : run s as = some s') :
    Sorted s'.bcast := (run_inv1 h as e).bs

/-- C02: no two appends are ever in flight together: a second `append.id` is not enabled
    until the first append has broadcast (or failed) -/
theorem append_mutually_exclusive (s : Sys) (f g : Frame) (i j : Nat) (s1 : Sys)
    (e : step s (.appendId f i) = some s1) : step s1 (.appendId g j) = none := by
  simp only [step] at e
  split at e
  · cases e
  · injection e with e; subst e
    simp [step]

/-- C03/C02: a follow cannot subscribe in the middle of an append -/
theorem subscribe_not_during_append (s : Sys) (f : Frame) (i : Nat) (s1 : Sys) (o : ROpts) (c : Nat)
    (e : step s (.appendId f i) = some s1) (ho : o.follow = true) : step s1 (.subscribe o c) = none := by
  simp only [step] at e
  split at e
  · cases e
  · injection e with e; subst e
    simp [step, ho]

end Xs.Follow

namespace Xs.Follow

/-! ### the reader: what it has delivered so far -/

/-- the live task's delivery test -/
def livePass (r : Reader) (f : Frame) : Bool := inScope r.opts.ctx f && !dupOfHistory r.dedupe f

/-- stored frames the scan is responsible for: in scope and after `last-id` -/
def scanScope (r : Reader) (f : Frame) : Bool := inScope r.opts.ctx f && afterId r.opts.last f

theorem realFrames_append (a b : List Out) : realFrames (a ++ b) = realFrames a ++ realFrames b := by
  simp [realFrames, List.filterMap_append]

/-- bookkeeping invariant of one reader (does not need the lock discipline) -/
structure InvR (committed bcast : List Frame) (r : Reader) : Prop where
  /-- deliveries = history part, then live part -/
  out_eq : realFrames r.out = r.hout ++ r.lout
  /-- the live part is what the live task took, filtered -/
  lout_eq : r.lout = r.taken.filter (livePass r)
  /-- taken and queued frames are, in order, what was broadcast since the subscription -/
  sub_prefix : (r.taken ++ r.queue) <+: bcast.drop r.subAt
  /-- nothing broadcast since the subscription is missing unless the reader lagged or ended -/
  sub_all : r.opts.follow = true → r.lagged = false → r.lphase ≠ .ended →
    r.taken ++ r.queue = bcast.drop r.subAt
  /-- the history part: every stored frame in scope after `last-id` up to the cursor -/
  hout_eq : r.hout = committed.filter (fun f => scanScope r f && !afterId r.cursor f)
  hcount_eq : r.hcount = r.hout.length
  /-- history and live never overlap in time -/
  ph_run : r.lphase = .running → r.hphase = .handed ∨ r.hphase = .none
  ph_scan : r.hphase = .scanning → r.taken = [] ∧ (r.lphase = .waiting ∨ r.lphase = .absent)
  ph_none : r.hphase = .none → r.hout = []
  /-- limit accounting -/
  lcount_eq : r.lphase = .running ∨ r.lphase = .ended → r.hphase ≠ .stopped → r.lcount = r.hout.length + r.lout.length
  lim_hist : ∀ n, r.opts.limit = some n → r.hout.length ≤ n
  lim_live : ∀ n, r.opts.limit = some n → r.lphase = .running → r.hout.length + r.lout.length < n ∨ (n = 0 ∧ r.opts.tail = true ∧ r.lout = [])
  lim_done : ∀ n, r.opts.limit = some n → r.hout.length + r.lout.length ≤ n ∨ (n = 0 ∧ r.opts.tail = true ∧ r.lout.length ≤ 1)
  /-- no live delivery unless the live task ran -/
  no_live : r.lphase = .waiting ∨ r.lphase = .absent → r.taken = []
  nofollow : r.opts.follow = false → r.lphase = .absent ∧ r.queue = []
  cursor_ok : r.cursor = r.opts.last ∨ ∃ f ∈ committed, r.cursor = some f.id
  cursor_ge : ∀ f, afterId r.cursor f = true → afterId r.opts.last f = true
  sub_le : r.subAt ≤ bcast.length

end Xs.Follow

namespace Xs.Follow

theorem afterId_mono {c : Option Nat} {f g : Frame} (h : afterId c f = true) (hlt : f.id < g.id) :
    afterId c g = true := by
  cases c with
  | none => rfl
  | some c => simp only [afterId, decide_eq_true_eq] at h ⊢; omega

/-- the scan's next frame extends the delivered history by exactly that frame -/
theorem filter_scan_step {committed : List Frame} (hs : Sorted committed) (r : Reader) (f : Frame)
    (hnext : nextFrame committed r.opts.ctx r.cursor = some f)
    (hge : ∀ g, afterId r.cursor g = true → afterId r.opts.last g = true) :
    committed.filter (fun x => scanScope r x && !afterId (some f.id) x) =
      committed.filter (fun x => scanScope r x && !afterId r.cursor x) ++ [f] := by
  unfold nextFrame at hnext
  obtain ⟨hP, pre, post, hsplit, hpre⟩ := List.find?_eq_some_iff_append.1 hnext
  simp only [Bool.and_eq_true] at hP
  rw [hsplit] at hs ⊢
  have hs' := List.pairwise_append.1 hs
  have hpost : ∀ x ∈ post, f.id < x.id := (List.pairwise_cons.1 hs'.2.1).1
  have hprelt : ∀ x ∈ pre, x.id < f.id := fun x hx => hs'.2.2 x hx f (by simp)
  simp only [List.filter_append, List.filter_cons]
  have e1 : pre.filter (fun x => scanScope r x && !afterId (some f.id) x) =
      pre.filter (fun x => scanScope r x && !afterId r.cursor x) := by
    apply List.filter_congr
    intro x hx
    have hlt := hprelt x hx
    have hnP := hpre x hx
    have h1 : afterId (some f.id) x = false := by simp [afterId]; omega
    rw [h1]
    by_cases hsc : scanScope r x = true
    · simp only [hsc, Bool.true_and, Bool.not_false]
      simp only [scanScope, Bool.and_eq_true] at hsc
      have : afterId r.cursor x = false := by
        cases ha : afterId r.cursor x with
        | false => rfl
        | true => rw [hsc.1, ha] at hnP; simp at hnP
      simp [this]
    · simp [hsc]
  have e2 : (scanScope r f && !afterId (some f.id) f) = true := by
    have h1 : afterId (some f.id) f = false := by simp [afterId]
    simp [scanScope, hP.1, hge f hP.2, h1]
  have e3 : (scanScope r f && !afterId r.cursor f) = false := by simp [hP.2]
  have e4 : post.filter (fun x => scanScope r x && !afterId (some f.id) x) = [] := by
    apply List.filter_eq_nil_iff.2
    intro x hx
    have := hpost x hx
    simp [afterId, this]
  have e5 : post.filter (fun x => scanScope r x && !afterId r.cursor x) = [] := by
    apply List.filter_eq_nil_iff.2
    intro x hx
    simp [afterId_mono hP.2 (hpost x hx)]
  rw [e1, e2, e3, e4, e5]
  simp

/-- a newly stored frame (newer than everything) is not in the delivered history -/
theorem filter_scan_commit {committed : List Frame} (r : Reader) (f : Frame)
    (hnew : ∀ g ∈ committed, g.id < f.id)
    (hc : r.cursor = r.opts.last ∨ ∃ g ∈ committed, r.cursor = some g.id) :
    (committed ++ [f]).filter (fun x => scanScope r x && !afterId r.cursor x) =
      committed.filter (fun x => scanScope r x && !afterId r.cursor x) := by
  rw [List.filter_append]
  have : [f].filter (fun x => scanScope r x && !afterId r.cursor x) = [] := by
    apply List.filter_eq_nil_iff.2
    intro x hx
    simp at hx; subst hx
    rcases hc with hc | ⟨g, hg, hc⟩
    · rw [hc]; simp only [scanScope]
      cases afterId r.opts.last x <;> simp
    · rw [hc]
      have := hnew g hg
      simp [afterId, this]
  rw [this]; simp

end Xs.Follow

namespace Xs.Follow

theorem invR_subscribe (committed bcast : List Frame) (o : ROpts) (cutId : Nat) :
    InvR committed bcast {
      opts := o
      cut := if o.follow then some cutId else none
      dedupe := if o.follow && !o.tail then some cutId else none
      queue := []
      lagged := false
      cursor := o.last
      hcount := 0
      hphase := if o.tail then .none else .scanning
      lcount := 0
      lphase := if o.follow then (if o.tail then .running else .waiting) else .absent
      hbAlive := o.follow && o.heartbeat
      out := []
      subAt := bcast.length
      snap := committed } := by
  have hf : committed.filter (fun f => (inScope o.ctx f && afterId o.last f) && !afterId o.last f) = [] := by
    apply List.filter_eq_nil_iff.2
    intro x _
    cases afterId o.last x <;> simp
  refine { out_eq := by simp [realFrames], lout_eq := by simp, sub_prefix := by simp, sub_all := by simp, hout_eq := ?_, hcount_eq := by simp, ph_run := ?_, ph_scan := ?_, ph_none := by simp, lcount_eq := by simp, lim_hist := by simp, lim_live := ?_, lim_done := by simp, no_live := by simp, nofollow := ?_, cursor_ok := Or.inl rfl, cursor_ge := fun f h => h, sub_le := Nat.le_refl _ }
  · simp only [scanScope]; exact hf.symm
  · intro h
    by_cases hfo : o.follow = true
    · by_cases ht : o.tail = true
      · simp [ht]
      · simp [hfo, ht] at h
    · simp [hfo] at h
  · intro h
    refine ⟨rfl, ?_⟩
    by_cases ht : o.tail = true
    · simp [ht] at h
    · by_cases hfo : o.follow = true
      · simp [hfo, ht]
      · simp [hfo]
  · intro n hn h
    by_cases hfo : o.follow = true
    · by_cases ht : o.tail = true
      · simp only [List.length_nil, Nat.add_zero]
        by_cases h0 : n = 0
        · exact Or.inr ⟨h0, ht, by simp⟩
        · exact Or.inl (by omega)
      · simp [hfo, ht] at h
    · simp [hfo] at h
  · intro h
    have h' : o.follow = false := h
    simp [h']

/-- a commit of a frame newer than everything stored keeps the reader invariant -/
theorem invR_commit {committed bcast : List Frame} {r : Reader} (h : InvR committed bcast r) (f : Frame)
    (hnew : ∀ g ∈ committed, g.id < f.id) : InvR (committed ++ [f]) bcast r := by
  refine { h with hout_eq := ?_, cursor_ok := ?_ }
  · rw [filter_scan_commit r f hnew h.cursor_ok]; exact h.hout_eq
  · rcases h.cursor_ok with hc | ⟨g, hg, hc⟩
    · exact Or.inl hc
    · exact Or.inr ⟨g, List.mem_append_left _ hg, hc⟩

theorem drop_snoc {l : List Frame} {n : Nat} (f : Frame) (h : n ≤ l.length) :
    (l ++ [f]).drop n = l.drop n ++ [f] := by
  rw [List.drop_append_of_le_length h]

/-- a broadcast reaches the subscription (or makes it lag) -/
theorem invR_receive {committed bcast : List Frame} {r : Reader} (h : InvR committed bcast r) (cap : Nat)
    (f : Frame) : InvR committed (bcast ++ [f]) (r.receive cap f) := by
  have hdrop := drop_snoc f h.sub_le
  have hle : r.subAt ≤ (bcast ++ [f]).length := by simp; exact Nat.le_succ_of_le h.sub_le
  unfold Reader.receive
  by_cases hc : (r.opts.follow && r.lphase ≠ .ended && !r.lagged) = true
  · simp only [hc, if_true]
    simp only [Bool.and_eq_true, Bool.not_eq_true', decide_eq_true_eq] at hc
    obtain ⟨⟨hfo, hne⟩, hlag⟩ := hc
    have hall := h.sub_all hfo hlag hne
    by_cases hq : r.queue.length < cap
    · simp only [hq, if_true]
      refine { h with sub_prefix := ?_, sub_all := ?_, sub_le := hle, nofollow := ?_ }
      · rw [hdrop, ← hall]; simp
      · intro _ _ _; rw [hdrop, ← hall]; simp
      · intro hnf; rw [hnf] at hfo; cases hfo
    · simp only [hq, if_false]
      refine { h with sub_prefix := ?_, sub_all := ?_, sub_le := hle }
      · rw [hdrop]; exact List.IsPrefix.trans h.sub_prefix (List.prefix_append _ _)
      · intro _ hl _; cases hl
  · have hc' : (r.opts.follow && r.lphase ≠ .ended && !r.lagged) = false := by simpa using hc
    simp only [hc', Bool.false_eq_true, if_false]
    refine { h with sub_prefix := ?_, sub_all := ?_, sub_le := hle }
    · rw [hdrop]; exact List.IsPrefix.trans h.sub_prefix (List.prefix_append _ _)
    · intro hfo hl hne
      simp [hfo, hl, hne] at hc'

end Xs.Follow

namespace Xs.Follow

theorem limitReached_false {l : Option Nat} {c : Nat} (h : limitReached l c = false) :
    ∀ n, l = some n → c < n := by
  intro n hn; subst hn
  simp only [limitReached, decide_eq_false_iff_not, Nat.not_le] at h
  exact h

theorem limitReached_true {l : Option Nat} {c : Nat} (h : limitReached l c = true) :
    ∃ n, l = some n ∧ n ≤ c := by
  cases l with
  | none => simp [limitReached] at h
  | some n => exact ⟨n, rfl, by simpa [limitReached] using h⟩

theorem invR_histSend {c b : List Frame} {r r' : Reader} (h : InvR c b r) (hs : Sorted c)
    (e : stepReader c r .histSend = some r') : InvR c b r' := by
  simp only [stepReader] at e
  split at e
  · cases e
  · rename_i hph
    have hph : r.hphase = .scanning := by simpa using hph
    split at e
    · cases e
    · rename_i f hnext
      split at e
      · cases e
      · split at e
        · cases e
        · rename_i hcut hlim
          have hlim : limitReached r.opts.limit r.hcount = false := by simpa using hlim
          injection e with e; subst e
          obtain ⟨htk, hlp⟩ := h.ph_scan hph
          have hlo : r.lout = [] := by rw [h.lout_eq, htk]; rfl
          have hfm : f ∈ c := List.mem_of_find?_eq_some hnext
          have hP : inScope r.opts.ctx f = true ∧ afterId r.cursor f = true := by
            have := List.find?_some hnext
            simpa using this
          refine { h with out_eq := ?_, hout_eq := ?_, hcount_eq := ?_, ph_run := ?_, ph_scan := ?_, ph_none := ?_, lcount_eq := ?_, lim_hist := ?_, lim_live := ?_, lim_done := ?_, cursor_ok := ?_, cursor_ge := ?_ }
          · simp only [realFrames_append, h.out_eq, hlo]; simp [realFrames]
          · show r.hout ++ [f] = _
            rw [h.hout_eq]
            exact (filter_scan_step hs r f hnext h.cursor_ge).symm
          · simp [h.hcount_eq]
          · intro hl; exact h.ph_run hl
          · intro _; exact ⟨htk, hlp⟩
          · intro hn; rw [hph] at hn; cases hn
          · intro hl _
            rcases hl with hl | hl <;> rcases hlp with hw | hw <;> rw [hw] at hl <;> cases hl
          · intro n hn
            have := limitReached_false hlim n hn
            simp only [List.length_append, List.length_singleton]
            rw [← h.hcount_eq]; omega
          · intro n hn hl
            rcases hlp with hw | hw <;> rw [hw] at hl <;> cases hl
          · intro n hn
            have := limitReached_false hlim n hn
            left
            simp only [List.length_append, List.length_singleton, hlo, List.length_nil]
            rw [← h.hcount_eq]; omega
          · exact Or.inr ⟨f, hfm, rfl⟩
          · intro g hg
            have : f.id < g.id := by simpa [afterId] using hg
            exact h.cursor_ge g (afterId_mono hP.2 this)

theorem invR_histEnd {c b : List Frame} {r r' : Reader} (h : InvR c b r)
    (e : stepReader c r .histEnd = some r') : InvR c b r' := by
  simp only [stepReader] at e
  split at e
  · cases e
  · rename_i hph
    have hph : r.hphase = .scanning := by simpa using hph
    obtain ⟨htk, hlp⟩ := h.ph_scan hph
    have hlo : r.lout = [] := by rw [h.lout_eq, htk]; rfl
    split at e
    · cases e
    · split at e
      · -- limit met by history
        injection e with e; subst e
        refine { h with ph_run := ?_, ph_scan := ?_, ph_none := ?_, lcount_eq := ?_, lim_live := ?_, no_live := ?_, nofollow := ?_, sub_all := ?_ }
        · intro _ _ hne; simp at hne
          by_cases hf : r.opts.follow = true
          · simp [hf] at hne
          · have hf' : r.opts.follow = false := by simpa using hf
            rename_i h1 _; rw [hf'] at h1; cases h1
        · intro hl; by_cases hf : r.opts.follow = true <;> simp [hf] at hl
        · intro hn; cases hn
        · intro hn; cases hn
        · intro _ hn; exact absurd rfl hn
        · intro n _ hl; by_cases hf : r.opts.follow = true <;> simp [hf] at hl
        · intro _; exact htk
        · intro hf
          have hf' : r.opts.follow = false := hf
          exact ⟨by simp [hf'], (h.nofollow hf').2⟩
      · rename_i hlim
        have hlim : limitReached r.opts.limit r.hcount = false := by simpa using hlim
        split at e
        · -- hand-off to the live task
          rename_i hf
          injection e with e; subst e
          refine { h with out_eq := ?_, sub_all := ?_, ph_run := ?_, ph_scan := ?_, ph_none := ?_, lcount_eq := ?_, lim_live := ?_, no_live := ?_, nofollow := ?_ }
          · by_cases hl : r.opts.limit.isNone = true
            · simp only [hl, if_true, realFrames_append, h.out_eq]; simp [realFrames]
            · simp only [hl, Bool.false_eq_true, if_false, h.out_eq]
          · intro hfo hl _
            exact h.sub_all hfo hl (by rcases hlp with hw | hw <;> rw [hw] <;> simp)
          · intro _; exact Or.inl rfl
          · intro hn; cases hn
          · intro hn; cases hn
          · intro _ _; simp [h.hcount_eq, hlo]
          · intro n hn _
            left
            have := limitReached_false hlim n hn
            simp only [hlo, List.length_nil, Nat.add_zero]
            rw [← h.hcount_eq]; exact this
          · intro hl; rcases hl with hl | hl <;> cases hl
          · intro hnf; rw [hnf] at hf; cases hf
        · -- non-following read: the thread ends, the channel closes
          rename_i hf
          injection e with e; subst e
          have hf' : r.opts.follow = false := by simpa using hf
          have hab := (h.nofollow hf').1
          refine { h with ph_run := ?_, ph_scan := ?_, ph_none := ?_, lcount_eq := ?_ }
          · intro hl; rw [hab] at hl; cases hl
          · intro hn; cases hn
          · intro hn; cases hn
          · intro _ hn; exact absurd rfl hn

theorem invR_liveRecv {c b : List Frame} {r r' : Reader} (h : InvR c b r)
    (e : stepReader c r .liveRecv = some r') : InvR c b r' := by
  simp only [stepReader] at e
  split at e
  · cases e
  · rename_i hg
    simp only [Bool.or_eq_true, decide_eq_true_eq, not_or, Bool.not_eq_true, ne_eq] at hg
    obtain ⟨hrun, hlag⟩ := hg
    have hrun : r.lphase = .running := by
      by_cases hh : r.lphase = .running
      · exact hh
      · exact absurd hh hrun
    have hhp := h.ph_run hrun
    have hns : r.hphase ≠ .scanning := by rcases hhp with hh | hh <;> rw [hh] <;> simp
    have hnst : r.hphase ≠ .stopped := by rcases hhp with hh | hh <;> rw [hh] <;> simp
    have hlc := h.lcount_eq (Or.inl hrun) hnst
    split at e
    · cases e
    · rename_i f q hq
      have hpre : (r.taken ++ [f]) ++ q = r.taken ++ r.queue := by rw [hq]; simp
      -- common part: the frame moves from the queue to `taken`
      have base : ∀ (lo : List Frame) (oo : List Out) (lc : Nat) (lp : LPhase) (hb : Bool),
          realFrames oo = r.hout ++ lo → lo = (r.taken ++ [f]).filter (livePass r) →
          (lp = .running → r.hphase = .handed ∨ r.hphase = .none) →
          ((lp = .running ∨ lp = .ended) → lc = r.hout.length + lo.length) →
          (∀ n, r.opts.limit = some n → lp = .running → r.hout.length + lo.length < n ∨ (n = 0 ∧ r.opts.tail = true ∧ lo = [])) →
          (∀ n, r.opts.limit = some n → r.hout.length + lo.length ≤ n ∨ (n = 0 ∧ r.opts.tail = true ∧ lo.length ≤ 1)) →
          (lp = .running ∨ lp = .ended) →
          InvR c b { r with queue := q, taken := r.taken ++ [f], out := oo, lout := lo, lcount := lc, lphase := lp, hbAlive := hb } := by
        intro lo oo lc lp hb h1 h2 h3 h4 h5 h6 h7
        refine { h with out_eq := h1, lout_eq := ?_, sub_prefix := ?_, sub_all := ?_, ph_run := h3, ph_scan := ?_, lcount_eq := ?_, lim_live := h5, lim_done := h6, no_live := ?_, nofollow := ?_ }
        · simp only [livePass] at h2 ⊢; exact h2
        · show (r.taken ++ [f]) ++ q <+: _
          rw [hpre]; exact h.sub_prefix
        · intro hf hl hne
          show (r.taken ++ [f]) ++ q = _
          rw [hpre]
          exact h.sub_all hf hl (by rw [hrun]; simp)
        · intro hsc; exact absurd hsc hns
        · intro hl _; exact h4 hl
        · intro hl; rcases h7 with h7 | h7 <;> rcases hl with hl | hl <;> rw [h7] at hl <;> cases hl
        · intro hnf; have := (h.nofollow hnf).1; rw [hrun] at this; cases this
      split at e
      · -- out of scope: skipped
        rename_i hsc
        injection e with e; subst e
        have hsc' : inScope r.opts.ctx f = false := by simpa using hsc
        have hnp : livePass r f = false := by simp only [livePass, hsc', Bool.false_and]
        have := base r.lout r.out r.lcount r.lphase r.hbAlive h.out_eq
          (by rw [List.filter_append, ← h.lout_eq]; simp [hnp])
          (fun _ => hhp) (fun _ => hlc) (fun n hn _ => h.lim_live n hn hrun) h.lim_done (Or.inl hrun)
        exact this
      · split at e
        · -- the historical scan was responsible for it: skipped
          rename_i hsc hdup
          injection e with e; subst e
          have hdup' : dupOfHistory r.dedupe f = true := by simpa using hdup
          have hnp : livePass r f = false := by simp only [livePass, hdup', Bool.not_true, Bool.and_false]
          exact base r.lout r.out r.lcount r.lphase r.hbAlive h.out_eq
            (by rw [List.filter_append, ← h.lout_eq]; simp [hnp])
            (fun _ => hhp) (fun _ => hlc) (fun n hn _ => h.lim_live n hn hrun) h.lim_done (Or.inl hrun)
        · rename_i hsc hdup
          have hp : livePass r f = true := by
            simp only [livePass, Bool.and_eq_true, Bool.not_eq_true']
            exact ⟨by simpa using hsc, by simpa using hdup⟩
          have hlo' : r.lout ++ [f] = (r.taken ++ [f]).filter (livePass r) := by
            rw [List.filter_append, ← h.lout_eq]; simp [hp]
          have hout' : realFrames (r.out ++ [Out.frame f]) = r.hout ++ (r.lout ++ [f]) := by
            rw [realFrames_append, h.out_eq]; simp [realFrames]
          split at e
          · -- limit reached by this delivery: the live task ends
            rename_i hlim
            injection e with e; subst e
            obtain ⟨n, hn, hle⟩ := limitReached_true hlim
            have hdone : ∀ m, r.opts.limit = some m →
                r.hout.length + (r.lout ++ [f]).length ≤ m ∨ (m = 0 ∧ r.opts.tail = true ∧ (r.lout ++ [f]).length ≤ 1) := by
              intro m hm
              rcases h.lim_live m hm hrun with hlt | ⟨h0, ht, hl0⟩
              · left; simp only [List.length_append, List.length_singleton]; omega
              · right; exact ⟨h0, ht, by simp [hl0]⟩
            exact base (r.lout ++ [f]) (r.out ++ [Out.frame f]) (r.lcount + 1) .ended false hout' hlo'
              (fun hl => by cases hl) (fun _ => by simp [hlc]; omega) (fun n hn hl => by cases hl) hdone (Or.inr rfl)
          · rename_i hlim
            have hlim : limitReached r.opts.limit (r.lcount + 1) = false := by simpa using hlim
            injection e with e; subst e
            have hlive : ∀ m, r.opts.limit = some m → r.lphase = .running →
                r.hout.length + (r.lout ++ [f]).length < m ∨ (m = 0 ∧ r.opts.tail = true ∧ r.lout ++ [f] = []) := by
              intro m hm _
              left
              have := limitReached_false hlim m hm
              simp only [List.length_append, List.length_singleton]; omega
            have hdone : ∀ m, r.opts.limit = some m →
                r.hout.length + (r.lout ++ [f]).length ≤ m ∨ (m = 0 ∧ r.opts.tail = true ∧ (r.lout ++ [f]).length ≤ 1) := by
              intro m hm
              rcases hlive m hm hrun with hlt | ⟨_, _, hl0⟩
              · left; omega
              · simp at hl0
            exact base (r.lout ++ [f]) (r.out ++ [Out.frame f]) (r.lcount + 1) r.lphase r.hbAlive hout' hlo'
              (fun _ => hhp) (fun _ => by simp [hlc]; omega) hlive hdone (Or.inl hrun)

theorem invR_liveEnd {c b : List Frame} {r r' : Reader} (h : InvR c b r)
    (e : stepReader c r .liveEnd = some r') : InvR c b r' := by
  simp only [stepReader] at e
  split at e
  · rename_i hg
    simp only [Bool.and_eq_true, decide_eq_true_eq] at hg
    injection e with e; subst e
    have hhp := h.ph_run hg.1
    have hnst : r.hphase ≠ .stopped := by rcases hhp with hh | hh <;> rw [hh] <;> simp
    refine { h with sub_all := ?_, ph_run := ?_, ph_scan := ?_, lcount_eq := ?_, lim_live := ?_, no_live := ?_, nofollow := ?_ }
    · intro _ _ hne; exact absurd rfl hne
    · intro hl; cases hl
    · intro hsc; rcases hhp with hh | hh <;> rw [hh] at hsc <;> cases hsc
    · intro _ hn; exact h.lcount_eq (Or.inl hg.1) hn
    · intro n _ hl; cases hl
    · intro hl; rcases hl with hl | hl <;> cases hl
    · intro hnf; have := (h.nofollow hnf).1; rw [hg.1] at this; cases this
  · cases e

theorem invR_pulse {c b : List Frame} {r r' : Reader} (h : InvR c b r)
    (e : stepReader c r .pulse = some r') : InvR c b r' := by
  simp only [stepReader] at e
  split at e
  · injection e with e; subst e
    refine { h with out_eq := ?_ }
    rw [realFrames_append, h.out_eq]; simp [realFrames]
  · cases e

theorem invR_stepReader {c b : List Frame} {r r' : Reader} (h : InvR c b r) (hs : Sorted c) (a : RAct)
    (e : stepReader c r a = some r') : InvR c b r' := by
  cases a with
  | histSend => exact invR_histSend h hs e
  | histEnd => exact invR_histEnd h e
  | liveRecv => exact invR_liveRecv h e
  | liveEnd => exact invR_liveEnd h e
  | pulse => exact invR_pulse h e

end Xs.Follow

namespace Xs.Follow

/-! ### the whole system -/

structure InvS (s : Sys) : Prop where
  i1 : Inv1 s
  rd : ∀ r, s.reader = some r → InvR s.committed s.bcast r

theorem invS_init : InvS {} := ⟨inv1_init, fun r h => by cases h⟩

theorem step_invS {s s' : Sys} (h : InvS s) (a : Act) (e : step s a = some s') : InvS s' := by
  refine ⟨step_inv1 h.i1 a e, ?_⟩
  cases a with
  | appendId f id =>
    simp only [step] at e; split at e
    · cases e
    · injection e with e; subst e; exact h.rd
  | appendCommit =>
    simp only [step] at e
    split at e
    · rename_i f hl
      split at e
      · cases e
      · injection e with e; subst e
        obtain ⟨hid, _, hc, _⟩ := h.i1.lk f false hl
        intro r hr
        exact invR_commit (h.rd r hr) f (by rw [hid]; exact hc rfl)
    · cases e
  | appendAbort =>
    simp only [step] at e; split at e
    · injection e with e; subst e; exact h.rd
    · cases e
  | appendBroadcast =>
    simp only [step] at e; split at e
    · rename_i f stored hl
      split at e
      · cases e
      · injection e with e; subst e
        intro r hr
        simp only [Option.map_eq_some_iff] at hr
        obtain ⟨r0, hr0, rfl⟩ := hr
        exact invR_receive (h.rd r0 hr0) s.cap f
    · cases e
  | subscribe o c =>
    simp only [step] at e; split at e
    · cases e
    · injection e with e; subst e
      intro r hr
      simp only [Option.some.injEq] at hr
      subst hr
      exact invR_subscribe s.committed s.bcast o c
  | r a =>
    simp only [step] at e
    split at e
    · rename_i rd hrd
      cases hr : stepReader s.committed rd a with
      | none => rw [hr] at e; cases e
      | some r' =>
        rw [hr] at e
        simp only [Option.map_some] at e
        injection e with e; subst e
        intro r hr'
        simp only [Option.some.injEq] at hr'
        subst hr'
        exact invR_stepReader (h.rd rd hrd) h.i1.cs a hr
    · cases e

theorem run_invS {s s' : Sys} (h : InvS s) (as : List Act) (e : run s as = some s') : InvS s' := by
  induction as generalizing s with
  | nil => simp [run] at e; subst e; exact h
  | cons a as ih =>
    simp only [run] at e
    split at e
    · rename_i s1 hs; exact ih (step_invS h a hs) e
    · cases e

end Xs.Follow

namespace Xs.Follow

/-! ### the cut, the threshold and stream end -/

def thresholds (o : List Out) : Nat := (o.filter (fun x => x == Out.threshold)).length
def pulses (o : List Out) : Nat := (o.filter (fun x => x == Out.pulse)).length

/-- shape of the delivered sequence and flags that only ever go one way -/
structure InvT (r : Reader) : Prop where
  tail_none : r.opts.tail = true → r.hphase = .none
  notail : r.opts.tail = false → r.hphase ≠ .none
  hb : r.hbAlive = true → r.opts.follow = true ∧ r.opts.heartbeat = true ∧ r.lphase ≠ .ended
  pulse_only_hb : pulses r.out > 0 → r.opts.heartbeat = true
  /-- before the hand-off there is no threshold and nothing live -/
  pre : r.hphase = .scanning ∨ r.hphase = .stopped ∨ r.hphase = .none → thresholds r.out = 0
  /-- after the hand-off of an unlimited follow: exactly one threshold, after the whole
      history part and before the whole live part -/
  post : r.hphase = .handed →
    (r.opts.limit = none → ∃ A B, r.out = A ++ [Out.threshold] ++ B ∧ thresholds A = 0 ∧ thresholds B = 0 ∧
        realFrames A = r.hout ∧ realFrames B = r.lout) ∧
    (r.opts.limit ≠ none → thresholds r.out = 0)

theorem thresholds_append (a b : List Out) : thresholds (a ++ b) = thresholds a + thresholds b := by
  simp [thresholds, List.filter_append]

theorem pulses_append (a b : List Out) : pulses (a ++ b) = pulses a + pulses b := by
  simp [pulses, List.filter_append]

theorem thresholds_snoc_frame (o : List Out) (f : Frame) : thresholds (o ++ [Out.frame f]) = thresholds o := by
  simp [thresholds, List.filter_append]

theorem thresholds_snoc_pulse (o : List Out) : thresholds (o ++ [Out.pulse]) = thresholds o := by
  simp [thresholds, List.filter_append]

theorem invT_subscribe (committed : List Frame) (n : Nat) (o : ROpts) (cutId : Nat) :
    InvT { opts := o, cut := if o.follow then some cutId else none,
           dedupe := if o.follow && !o.tail then some cutId else none, queue := [], lagged := false,
           cursor := o.last, hcount := 0, hphase := if o.tail then .none else .scanning, lcount := 0,
           lphase := if o.follow then (if o.tail then .running else .waiting) else .absent,
           hbAlive := o.follow && o.heartbeat, out := [], subAt := n, snap := committed } := by
  refine ⟨?_, ?_, ?_, ?_, ?_, ?_⟩
  · intro h; have h' : o.tail = true := h; simp [h']
  · intro h; have h' : o.tail = false := h; simp [h']
  · intro h
    have h' : (o.follow && o.heartbeat) = true := h
    simp only [Bool.and_eq_true] at h'
    refine ⟨h'.1, h'.2, ?_⟩
    simp only [h'.1, if_true]
    by_cases ht : o.tail = true <;> simp [ht]
  · intro h; simp [pulses] at h
  · intro _; simp [thresholds]
  · intro h
    by_cases ht : o.tail = true <;> simp [ht] at h

theorem invT_stepReader {c b : List Frame} {r r' : Reader} (hR : InvR c b r) (h : InvT r) (a : RAct)
    (e : stepReader c r a = some r') : InvT r' := by
  cases a with
  | histSend =>
    simp only [stepReader] at e
    split at e
    · cases e
    · rename_i hph
      have hph : r.hphase = .scanning := by simpa using hph
      split at e
      · cases e
      · split at e
        · cases e
        · split at e
          · cases e
          · injection e with e; subst e
            refine ⟨h.tail_none, h.notail, h.hb, ?_, ?_, ?_⟩
            · intro hp; apply h.pulse_only_hb
              simpa [pulses_append, pulses] using hp
            · intro _
              have := h.pre (Or.inl hph)
              show thresholds (r.out ++ [Out.frame _]) = 0
              rw [thresholds_snoc_frame]; exact this
            · intro hh; rw [hph] at hh; cases hh
  | histEnd =>
    simp only [stepReader] at e
    split at e
    · cases e
    · rename_i hph
      have hph : r.hphase = .scanning := by simpa using hph
      have hpre := h.pre (Or.inl hph)
      obtain ⟨htk, hlp⟩ := hR.ph_scan hph
      have hlo : r.lout = [] := by rw [hR.lout_eq, htk]; rfl
      have hnt : r.opts.tail = false := by
        cases ht : r.opts.tail with
        | false => rfl
        | true => have := h.tail_none ht; rw [hph] at this; cases this
      split at e
      · cases e
      · split at e
        · injection e with e; subst e
          refine ⟨?_, ?_, ?_, h.pulse_only_hb, fun _ => hpre, ?_⟩
          · intro ht; rw [hnt] at ht; cases ht
          · intro _ hh; cases hh
          · intro hh; cases hh
          · intro hh; cases hh
        · split at e
          · rename_i hf
            injection e with e; subst e
            refine ⟨?_, ?_, ?_, ?_, ?_, ?_⟩
            · intro ht; rw [hnt] at ht; cases ht
            · intro _ hh; cases hh
            · intro hb
              obtain ⟨h1, h2, _⟩ := h.hb hb
              exact ⟨h1, h2, by simp⟩
            · intro hp
              apply h.pulse_only_hb
              by_cases hl : r.opts.limit.isNone = true
              · simp only [hl, if_true, pulses_append] at hp
                simpa [pulses] using hp
              · simpa [hl] using hp
            · intro hh; rcases hh with hh | hh | hh <;> cases hh
            · intro _
              constructor
              · intro hl
                have hl' : r.opts.limit = none := hl
                refine ⟨r.out, [], ?_, hpre, by simp [thresholds], ?_, by simp [realFrames, hlo]⟩
                · simp [hl']
                · rw [hR.out_eq, hlo]; simp
              · intro hl
                have : r.opts.limit.isNone = false := by
                  cases hx : r.opts.limit with
                  | none => exact absurd hx hl
                  | some _ => rfl
                simp only [this, Bool.false_eq_true, if_false]
                exact hpre
          · injection e with e; subst e
            refine ⟨?_, ?_, h.hb, h.pulse_only_hb, fun _ => hpre, ?_⟩
            · intro ht; rw [hnt] at ht; cases ht
            · intro _ hh; cases hh
            · intro hh; cases hh
  | liveRecv =>
    simp only [stepReader] at e
    split at e
    · cases e
    · rename_i hg
      simp only [Bool.or_eq_true, decide_eq_true_eq, not_or, Bool.not_eq_true, ne_eq] at hg
      have hrun : r.lphase = .running := by
        by_cases hh : r.lphase = .running
        · exact hh
        · exact absurd hh hg.1
      have hhp := hR.ph_run hrun
      split at e
      · cases e
      · rename_i f q hq
        -- a delivery `f` goes to the end of the live part
        have deliver : ∀ (lp : LPhase) (hbv : Bool) (lc : Nat), (hbv = true → r.hbAlive = true ∧ lp ≠ .ended) →
            InvT { r with queue := q, taken := r.taken ++ [f], out := r.out ++ [Out.frame f],
                          lout := r.lout ++ [f], lcount := lc, lphase := lp, hbAlive := hbv } := by
          intro lp hbv lc hhb
          refine ⟨h.tail_none, h.notail, ?_, ?_, ?_, ?_⟩
          · intro hb; obtain ⟨h1, h2⟩ := hhb hb
            obtain ⟨h3, h4, _⟩ := h.hb h1
            exact ⟨h3, h4, h2⟩
          · intro hp; apply h.pulse_only_hb; simpa [pulses_append, pulses] using hp
          · intro hh
            have := h.pre hh
            show thresholds (r.out ++ [Out.frame f]) = 0
            rw [thresholds_snoc_frame]; exact this
          · intro hh
            obtain ⟨p1, p2⟩ := h.post hh
            constructor
            · intro hl
              obtain ⟨A, B, e1, e2, e3, e4, e5⟩ := p1 hl
              refine ⟨A, B ++ [Out.frame f], ?_, e2, ?_, e4, ?_⟩
              · show r.out ++ [Out.frame f] = _
                rw [e1]; simp
              · rw [thresholds_snoc_frame]; exact e3
              · show realFrames (B ++ [Out.frame f]) = r.lout ++ [f]
                rw [realFrames_append, e5]; simp [realFrames]
            · intro hl
              have := p2 hl
              show thresholds (r.out ++ [Out.frame f]) = 0
              rw [thresholds_snoc_frame]; exact this
        have skip : InvT { r with queue := q, taken := r.taken ++ [f] } :=
          ⟨h.tail_none, h.notail, h.hb, h.pulse_only_hb, h.pre, h.post⟩
        split at e
        · injection e with e; subst e; exact skip
        · split at e
          · injection e with e; subst e; exact skip
          · split at e
            · injection e with e; subst e
              exact deliver .ended false (r.lcount + 1) (fun hb => Bool.noConfusion hb)
            · injection e with e; subst e
              exact deliver r.lphase r.hbAlive (r.lcount + 1) (fun hb => ⟨hb, (h.hb hb).2.2⟩)
  | liveEnd =>
    simp only [stepReader] at e
    split at e
    · injection e with e; subst e
      exact ⟨h.tail_none, h.notail, fun hb => Bool.noConfusion hb, h.pulse_only_hb, h.pre, h.post⟩
    · cases e
  | pulse =>
    simp only [stepReader] at e
    split at e
    · rename_i hb
      injection e with e; subst e
      refine ⟨h.tail_none, h.notail, h.hb, fun _ => (h.hb hb).2.1, ?_, ?_⟩
      · intro hh
        have := h.pre hh
        show thresholds (r.out ++ [Out.pulse]) = 0
        rw [thresholds_snoc_pulse]; exact this
      · intro hh
        obtain ⟨p1, p2⟩ := h.post hh
        constructor
        · intro hl
          obtain ⟨A, B, e1, e2, e3, e4, e5⟩ := p1 hl
          refine ⟨A, B ++ [Out.pulse], ?_, e2, ?_, e4, ?_⟩
          · show r.out ++ [Out.pulse] = _
            rw [e1]; simp
          · rw [thresholds_snoc_pulse]; exact e3
          · rw [realFrames_append, e5]; simp [realFrames]
        · intro hl
          have := p2 hl
          show thresholds (r.out ++ [Out.pulse]) = 0
          rw [thresholds_snoc_pulse]; exact this
    · cases e

theorem invT_receive {r : Reader} (h : InvT r) (cap : Nat) (f : Frame) : InvT (r.receive cap f) := by
  unfold Reader.receive
  split
  · split
    · exact ⟨h.tail_none, h.notail, h.hb, h.pulse_only_hb, h.pre, h.post⟩
    · exact ⟨h.tail_none, h.notail, h.hb, h.pulse_only_hb, h.pre, h.post⟩
  · exact h

end Xs.Follow

namespace Xs.Follow

/-- facts about the cut of a following reader -/
structure InvC (s : Sys) (r : Reader) : Prop where
  cut : r.opts.follow = true → ∃ c, r.cut = some c ∧ c ≤ s.lastId ∧ (∀ f ∈ r.hout, f.id ≤ c) ∧
    (∀ f ∈ s.bcast.drop r.subAt, c < f.id) ∧ (∀ f st, s.lock = some (f, st) → c < f.id) ∧
    (r.dedupe = none ∨ r.dedupe = some c)

theorem stepReader_static {c : List Frame} {r r' : Reader} (a : RAct) (e : stepReader c r a = some r') :
    r'.cut = r.cut ∧ r'.dedupe = r.dedupe ∧ r'.subAt = r.subAt ∧ r'.opts = r.opts ∧
    (r'.hout = r.hout ∨ ∃ f, r'.hout = r.hout ++ [f] ∧ beyondCut r.cut f = false) := by
  cases a with
  | histSend =>
    simp only [stepReader] at e
    split at e
    · cases e
    · split at e
      · cases e
      · rename_i f _
        split at e
        · cases e
        · rename_i hb
          split at e
          · cases e
          · injection e with e; subst e
            exact ⟨rfl, rfl, rfl, rfl, Or.inr ⟨f, rfl, by simpa using hb⟩⟩
  | histEnd =>
    simp only [stepReader] at e
    split at e
    · cases e
    · split at e
      · cases e
      · split at e
        · injection e with e; subst e; exact ⟨rfl, rfl, rfl, rfl, Or.inl rfl⟩
        · split at e
          · injection e with e; subst e; exact ⟨rfl, rfl, rfl, rfl, Or.inl rfl⟩
          · injection e with e; subst e; exact ⟨rfl, rfl, rfl, rfl, Or.inl rfl⟩
  | liveRecv =>
    simp only [stepReader] at e
    split at e
    · cases e
    · split at e
      · cases e
      · split at e
        · injection e with e; subst e; exact ⟨rfl, rfl, rfl, rfl, Or.inl rfl⟩
        · split at e
          · injection e with e; subst e; exact ⟨rfl, rfl, rfl, rfl, Or.inl rfl⟩
          · split at e
            · injection e with e; subst e; exact ⟨rfl, rfl, rfl, rfl, Or.inl rfl⟩
            · injection e with e; subst e; exact ⟨rfl, rfl, rfl, rfl, Or.inl rfl⟩
  | liveEnd =>
    simp only [stepReader] at e
    split at e
    · injection e with e; subst e; exact ⟨rfl, rfl, rfl, rfl, Or.inl rfl⟩
    · cases e
  | pulse =>
    simp only [stepReader] at e
    split at e
    · injection e with e; subst e; exact ⟨rfl, rfl, rfl, rfl, Or.inl rfl⟩
    · cases e

theorem receive_static (r : Reader) (cap : Nat) (f : Frame) :
    (r.receive cap f).cut = r.cut ∧ (r.receive cap f).dedupe = r.dedupe ∧ (r.receive cap f).subAt = r.subAt ∧
    (r.receive cap f).opts = r.opts ∧ (r.receive cap f).hout = r.hout := by
  unfold Reader.receive
  split
  · split <;> exact ⟨rfl, rfl, rfl, rfl, rfl⟩
  · exact ⟨rfl, rfl, rfl, rfl, rfl⟩

/-- everything together -/
structure Good (s : Sys) : Prop where
  inv : InvS s
  thr : ∀ r, s.reader = some r → InvT r
  cutc : ∀ r, s.reader = some r → InvC s r

theorem good_init : Good {} := ⟨invS_init, (fun r h => by cases h), (fun r h => by cases h)⟩

theorem step_good {s s' : Sys} (h : Good s) (a : Act) (e : step s a = some s') : Good s' := by
  have hS := step_invS h.inv a e
  refine ⟨hS, ?_, ?_⟩
  · -- InvT
    cases a with
    | appendId f id =>
      simp only [step] at e; split at e
      · cases e
      · injection e with e; subst e; exact h.thr
    | appendCommit =>
      simp only [step] at e; split at e
      · split at e
        · cases e
        · injection e with e; subst e; exact h.thr
      · cases e
    | appendAbort =>
      simp only [step] at e; split at e
      · injection e with e; subst e; exact h.thr
      · cases e
    | appendBroadcast =>
      simp only [step] at e; split at e
      · split at e
        · cases e
        · injection e with e; subst e
          intro r hr
          simp only [Option.map_eq_some_iff] at hr
          obtain ⟨r0, hr0, rfl⟩ := hr
          exact invT_receive (h.thr r0 hr0) s.cap _
      · cases e
    | subscribe o c =>
      simp only [step] at e; split at e
      · cases e
      · injection e with e; subst e
        intro r hr
        simp only [Option.some.injEq] at hr
        subst hr
        exact invT_subscribe s.committed s.bcast.length o c
    | r a =>
      simp only [step] at e
      split at e
      · rename_i rd hrd
        cases hr : stepReader s.committed rd a with
        | none => rw [hr] at e; cases e
        | some r' =>
          rw [hr] at e
          simp only [Option.map_some] at e
          injection e with e; subst e
          intro r hr'
          simp only [Option.some.injEq] at hr'
          subst hr'
          exact invT_stepReader (h.inv.rd rd hrd) (h.thr rd hrd) a hr
      · cases e
  · -- InvC
    cases a with
    | appendId f id =>
      simp only [step] at e; split at e
      · cases e
      · rename_i hg
        simp only [Bool.or_eq_true, decide_eq_true_eq, not_or, Nat.not_le] at hg
        injection e with e; subst e
        intro r hr
        refine ⟨fun hf => ?_⟩
        obtain ⟨c, h1, h2, h3, h4, _, h6⟩ := (h.cutc r hr).cut hf
        refine ⟨c, h1, Nat.le_trans h2 (Nat.le_of_lt hg.2), h3, h4, ?_, h6⟩
        intro f' st hl
        simp only [Option.some.injEq, Prod.mk.injEq] at hl
        obtain ⟨rfl, _⟩ := hl
        exact Nat.lt_of_le_of_lt h2 hg.2
    | appendCommit =>
      simp only [step] at e; split at e
      · rename_i f hl
        split at e
        · cases e
        · injection e with e; subst e
          intro r hr
          refine ⟨fun hf => ?_⟩
          obtain ⟨c, h1, h2, h3, h4, h5, h6⟩ := (h.cutc r hr).cut hf
          refine ⟨c, h1, h2, h3, h4, ?_, h6⟩
          intro f' st hl'
          simp only [Option.some.injEq, Prod.mk.injEq] at hl'
          obtain ⟨rfl, _⟩ := hl'
          exact h5 f false hl
      · cases e
    | appendAbort =>
      simp only [step] at e; split at e
      · injection e with e; subst e
        intro r hr
        refine ⟨fun hf => ?_⟩
        obtain ⟨c, h1, h2, h3, h4, _, h6⟩ := (h.cutc r hr).cut hf
        exact ⟨c, h1, h2, h3, h4, (fun f st hl => by cases hl), h6⟩
      · cases e
    | appendBroadcast =>
      simp only [step] at e; split at e
      · rename_i f stored hl
        split at e
        · cases e
        · injection e with e; subst e
          intro r hr
          simp only [Option.map_eq_some_iff] at hr
          obtain ⟨r0, hr0, rfl⟩ := hr
          obtain ⟨e1, e2, e3, e4, e5⟩ := receive_static r0 s.cap f
          refine ⟨fun hf => ?_⟩
          rw [e4] at hf
          obtain ⟨c, h1, h2, h3, h4, h5, h6⟩ := (h.cutc r0 hr0).cut hf
          refine ⟨c, (by rw [e1]; exact h1), h2, (by rw [e5]; exact h3), ?_, (fun f st hl => by cases hl), (by rw [e2]; exact h6)⟩
          rw [e3, drop_snoc f (h.inv.rd r0 hr0).sub_le]
          intro g hg
          rcases List.mem_append.1 hg with hg | hg
          · exact h4 g hg
          · simp at hg; subst hg; exact h5 g stored hl
      · cases e
    | subscribe o c =>
      simp only [step] at e; split at e
      · cases e
      · rename_i hg
        simp only [Bool.or_eq_true, Bool.and_eq_true, decide_eq_true_eq, not_or, not_and, Nat.not_le] at hg
        injection e with e; subst e
        intro r hr
        simp only [Option.some.injEq] at hr
        subst hr
        refine ⟨fun hf => ?_⟩
        have hf' : o.follow = true := hf
        have hlock : s.lock = none := by simpa using hg.1.1 hf'
        refine ⟨c, (by simp [hf']), (by simp [hf']), (by simp), (by simp), ?_, ?_⟩
        · intro f st hl; simp only at hl; rw [hlock] at hl; cases hl
        · by_cases ht : o.tail = true <;> simp [hf', ht]
    | r a =>
      simp only [step] at e
      split at e
      · rename_i rd hrd
        cases hr : stepReader s.committed rd a with
        | none => rw [hr] at e; cases e
        | some r' =>
          rw [hr] at e
          simp only [Option.map_some] at e
          injection e with e; subst e
          intro r hr'
          simp only [Option.some.injEq] at hr'
          subst hr'
          obtain ⟨e1, e2, e3, e4, e5⟩ := stepReader_static a hr
          refine ⟨fun hf => ?_⟩
          rw [e4] at hf
          obtain ⟨c, h1, h2, h3, h4, h5, h6⟩ := (h.cutc rd hrd).cut hf
          refine ⟨c, (by rw [e1]; exact h1), h2, ?_, (by rw [e3]; exact h4), h5, (by rw [e2]; exact h6)⟩
          rcases e5 with e5 | ⟨f, e5, hb⟩
          · rw [e5]; exact h3
          · rw [e5]
            intro g hg
            rcases List.mem_append.1 hg with hg | hg
            · exact h3 g hg
            · simp at hg; subst hg
              rw [h1] at hb
              simpa [beyondCut] using hb
      · cases e

theorem run_good {s s' : Sys} (h : Good s) (as : List Act) (e : run s as = some s') : Good s' := by
  induction as generalizing s with
  | nil => simp [run] at e; subst e; exact h
  | cons a as ih =>
    simp only [run] at e
    split at e
    · rename_i s1 hs; exact ih (step_good h a hs) e
    · cases e

end Xs.Follow

namespace Xs.Follow

/-- phase bookkeeping -/
structure InvP (r : Reader) : Prop where
  wait_scan : r.lphase = .waiting → r.hphase = .scanning
  absent_nofollow : r.lphase = .absent → r.opts.follow = false
  nofollow_absent : r.opts.follow = false → r.lphase = .absent
  handed_follow : r.hphase = .handed → r.opts.follow = true

theorem invP_subscribe (committed : List Frame) (n : Nat) (o : ROpts) (cutId : Nat) :
    InvP { opts := o, cut := if o.follow then some cutId else none,
           dedupe := if o.follow && !o.tail then some cutId else none, queue := [], lagged := false,
           cursor := o.last, hcount := 0, hphase := if o.tail then .none else .scanning, lcount := 0,
           lphase := if o.follow then (if o.tail then .running else .waiting) else .absent,
           hbAlive := o.follow && o.heartbeat, out := [], subAt := n, snap := committed } := by
  constructor
  · intro h
    by_cases hf : o.follow = true
    · by_cases ht : o.tail = true
      · simp [hf, ht] at h
      · simp [ht]
    · simp [hf] at h
  · intro h
    by_cases hf : o.follow = true
    · by_cases ht : o.tail = true <;> simp [hf, ht] at h
    · simpa using hf
  · intro h
    have h' : o.follow = false := h
    simp [h']
  · intro h
    by_cases ht : o.tail = true <;> simp [ht] at h

theorem invP_stepReader {c : List Frame} {r r' : Reader} (h : InvP r) (a : RAct)
    (e : stepReader c r a = some r') : InvP r' := by
  obtain ⟨h1, h2, h3, h4⟩ := h
  cases a <;> simp only [stepReader] at e <;> (repeat' (split at e)) <;> (try (cases e; done)) <;>
    (injection e with e; subst e; constructor <;> simp_all)

theorem invP_receive {r : Reader} (h : InvP r) (cap : Nat) (f : Frame) : InvP (r.receive cap f) := by
  unfold Reader.receive
  split
  · split <;> exact ⟨h.wait_scan, h.absent_nofollow, h.nofollow_absent, h.handed_follow⟩
  · exact h

end Xs.Follow

namespace Xs.Follow

def PhOk (s : Sys) : Prop := ∀ r, s.reader = some r → InvP r

theorem step_phOk {s s' : Sys} (h : PhOk s) (a : Act) (e : step s a = some s') : PhOk s' := by
  cases a with
  | appendId f id =>
    simp only [step] at e; split at e
    · cases e
    · injection e with e; subst e; exact h
  | appendCommit =>
    simp only [step] at e; split at e
    · split at e
      · cases e
      · injection e with e; subst e; exact h
    · cases e
  | appendAbort =>
    simp only [step] at e; split at e
    · injection e with e; subst e; exact h
    · cases e
  | appendBroadcast =>
    simp only [step] at e; split at e
    · split at e
      · cases e
      · injection e with e; subst e
        intro r hr
        simp only [Option.map_eq_some_iff] at hr
        obtain ⟨r0, hr0, rfl⟩ := hr
        exact invP_receive (h r0 hr0) s.cap _
    · cases e
  | subscribe o c =>
    simp only [step] at e; split at e
    · cases e
    · injection e with e; subst e
      intro r hr
      simp only [Option.some.injEq] at hr
      subst hr
      exact invP_subscribe s.committed s.bcast.length o c
  | r a =>
    simp only [step] at e
    split at e
    · rename_i rd hrd
      cases hr : stepReader s.committed rd a with
      | none => rw [hr] at e; cases e
      | some r' =>
        rw [hr] at e
        simp only [Option.map_some] at e
        injection e with e; subst e
        intro r hr'
        simp only [Option.some.injEq] at hr'
        subst hr'
        exact invP_stepReader (h rd hrd) a hr
    · cases e

/-- every invariant of the LTS -/
structure AllInv (s : Sys) : Prop where
  g : Good s
  p : PhOk s

theorem allInv_init : AllInv {} := ⟨good_init, fun r h => by cases h⟩

theorem run_allInv {s s' : Sys} (h : AllInv s) (as : List Act) (e : run s as = some s') : AllInv s' := by
  induction as generalizing s with
  | nil => simp [run] at e; subst e; exact h
  | cons a as ih =>
    simp only [run] at e
    split at e
    · rename_i s1 hs; exact ih ⟨step_good h.g a hs, step_phOk h.p a hs⟩ e
    · cases e

/-! ### consequences -/

/-- no reader-side step is possible any more -/
def Quiescent (committed : List Frame) (r : Reader) : Prop := ∀ a, stepReader committed r a = none

/-- a closed stream is final: nothing is ever delivered on it again -/
theorem closed_final (c : List Frame) (r : Reader) (h : r.closed = true) : Quiescent c r := by
  simp only [Reader.closed, Bool.and_eq_true, Bool.or_eq_true, decide_eq_true_eq, Bool.not_eq_true'] at h
  obtain ⟨⟨hh, hl⟩, hb⟩ := h
  intro a
  cases a <;> simp only [stepReader]
  · rcases hh with (hh | hh) | hh <;> simp [hh]
  · rcases hh with (hh | hh) | hh <;> simp [hh]
  · rcases hl with hl | hl <;> simp [hl]
  · rcases hl with hl | hl <;> simp [hl]
  · simp [hb]

/-- C11: once the limit is met and the reader's tasks have wound down, the stream is closed -/
theorem limit_met_closed {c b : List Frame} {r : Reader} (hR : InvR c b r) (hT : InvT r) (hP : InvP r)
    (n : Nat) (hn : r.opts.limit = some n) (h1 : 1 ≤ n) (hfull : (realFrames r.out).length = n)
    (hq : Quiescent c r) : r.closed = true := by
  rw [hR.out_eq, List.length_append] at hfull
  have hlim : ∀ k, n ≤ k → limitReached r.opts.limit k = true := by
    intro k hk; simp [limitReached, hn, hk]
  -- the history thread cannot still be scanning
  have hns : r.hphase ≠ .scanning := by
    intro hsc
    obtain ⟨htk, _⟩ := hR.ph_scan hsc
    have hlo : r.lout = [] := by rw [hR.lout_eq, htk]; rfl
    have hc : r.hcount = n := by rw [hR.hcount_eq]; simpa [hlo] using hfull
    have := hq .histEnd
    simp [stepReader, hsc, hlim r.hcount (by omega)] at this
  -- the live task cannot still be running
  have hnr : r.lphase ≠ .running := by
    intro hrun
    rcases hR.lim_live n hn hrun with hlt | ⟨h0, _, _⟩
    · omega
    · omega
  have hnw : r.lphase ≠ .waiting := fun hw => hns (hP.wait_scan hw)
  have hl : r.lphase = .ended ∨ r.lphase = .absent := by
    cases hx : r.lphase with
    | waiting => exact absurd hx hnw
    | running => exact absurd hx hnr
    | ended => exact Or.inl rfl
    | absent => exact Or.inr rfl
  have hb : r.hbAlive = false := by
    cases hx : r.hbAlive with
    | false => rfl
    | true =>
      obtain ⟨hf, _, hne⟩ := hT.hb hx
      rcases hl with hl | hl
      · exact absurd hl hne
      · have := hP.absent_nofollow hl; rw [hf] at this; cases this
  have hh : r.hphase = .stopped ∨ r.hphase = .handed ∨ r.hphase = .none := by
    cases hx : r.hphase with
    | scanning => exact absurd hx hns
    | handed => exact Or.inr (Or.inl rfl)
    | stopped => exact Or.inl rfl
    | none => exact Or.inr (Or.inr rfl)
  simp only [Reader.closed, Bool.and_eq_true, Bool.or_eq_true, decide_eq_true_eq, Bool.not_eq_true']
  refine ⟨⟨?_, ?_⟩, hb⟩
  · rcases hh with hh | hh | hh
    · exact Or.inl (Or.inl hh)
    · exact Or.inl (Or.inr hh)
    · exact Or.inr hh
  · exact hl

/-- C11: a subscriber that fell behind ends: at quiescence a lagged follow stream is closed -/
theorem lagged_closed {c b : List Frame} {r : Reader} (hR : InvR c b r) (hT : InvT r) (hP : InvP r)
    (hlag : r.lagged = true) (hq : Quiescent c r)
    (hdone : r.hphase ≠ .scanning) : r.closed = true := by
  have hnr : r.lphase ≠ .running := by
    intro hrun
    have := hq .liveEnd
    simp [stepReader, hrun, hlag] at this
  have hnw : r.lphase ≠ .waiting := fun hw => hdone (hP.wait_scan hw)
  have hl : r.lphase = .ended ∨ r.lphase = .absent := by
    cases hx : r.lphase with
    | waiting => exact absurd hx hnw
    | running => exact absurd hx hnr
    | ended => exact Or.inl rfl
    | absent => exact Or.inr rfl
  have hb : r.hbAlive = false := by
    cases hx : r.hbAlive with
    | false => rfl
    | true =>
      obtain ⟨hf, _, hne⟩ := hT.hb hx
      rcases hl with hl | hl
      · exact absurd hl hne
      · have := hP.absent_nofollow hl; rw [hf] at this; cases this
  have hh : r.hphase = .stopped ∨ r.hphase = .handed ∨ r.hphase = .none := by
    cases hx : r.hphase with
    | scanning => exact absurd hx hdone
    | handed => exact Or.inr (Or.inl rfl)
    | stopped => exact Or.inl rfl
    | none => exact Or.inr (Or.inr rfl)
  simp only [Reader.closed, Bool.and_eq_true, Bool.or_eq_true, decide_eq_true_eq, Bool.not_eq_true']
  refine ⟨⟨?_, hl⟩, hb⟩
  rcases hh with hh | hh | hh
  · exact Or.inl (Or.inl hh)
  · exact Or.inl (Or.inr hh)
  · exact Or.inr hh

/-- C03: the live task's dedupe test never drops a frame broadcast after the subscription -/
theorem livePass_of_new {s : Sys} {r : Reader} (hC : InvC s r) (hf : r.opts.follow = true) (f : Frame)
    (hmem : f ∈ s.bcast.drop r.subAt) : livePass r f = inScope r.opts.ctx f := by
  obtain ⟨c, _, _, _, h4, _, h6⟩ := hC.cut hf
  have := h4 f hmem
  simp only [livePass]
  rcases h6 with h6 | h6 <;> rw [h6] <;> simp [dupOfHistory]
  omega

/-- C03: deliveries of a following reader are strictly increasing in id -/
theorem deliveries_sorted {s : Sys} {r : Reader} (h1 : Inv1 s) (hR : InvR s.committed s.bcast r)
    (hC : InvC s r) (hf : r.opts.follow = true) : Sorted (realFrames r.out) := by
  obtain ⟨c, _, _, h3, h4, _, _⟩ := hC.cut hf
  rw [hR.out_eq]
  unfold Sorted
  rw [List.pairwise_append]
  have htk : r.taken.Sublist s.bcast := by
    have h5 : (r.taken ++ r.queue).Sublist (s.bcast.drop r.subAt) := hR.sub_prefix.sublist
    exact ((List.sublist_append_left _ _).trans h5).trans (List.drop_sublist _ _)
  have hlsub : r.lout.Sublist r.taken := by rw [hR.lout_eq]; exact List.filter_sublist
  refine ⟨?_, ?_, ?_⟩
  · rw [hR.hout_eq]; exact List.Pairwise.sublist List.filter_sublist h1.cs
  · exact List.Pairwise.sublist (hlsub.trans htk) h1.bs
  · intro a ha b hb
    have hbm : b ∈ s.bcast.drop r.subAt := by
      have : b ∈ r.taken ++ r.queue := List.mem_append_left _ (hlsub.subset hb)
      exact hR.sub_prefix.sublist.subset this
    have := h3 a ha
    have := h4 b hbm
    omega

end Xs.Follow
