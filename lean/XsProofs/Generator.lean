import XsModel.Generator
import XsProofs.Command
namespace Xs.Serve
open Xs

/-- C18: every frame of a lifecycle carries the spawn's id as source_id and lives in the
    spawn's context -/
theorem lifecycle_stamped (t : GTask) (ss : List String) :
    ∀ f ∈ lifecycle t ss, metaGet f.mdata "source_id" = some (idText t.id) ∧ f.ctx = t.ctx := by
  intro f hf
  simp only [lifecycle, List.mem_cons, List.mem_append, List.mem_map, List.not_mem_nil, or_false] at hf
  rcases hf with (rfl | ⟨s, _, rfl⟩) | rfl <;> exact ⟨by simp [gframe, gmeta, metaGet], rfl⟩

/-- C18: start, then one recv per produced string - in production order, the string as
    content - then stop -/
theorem lifecycle_shape (t : GTask) (ss : List String) :
    (lifecycle t ss).map (·.topic) =
      topicOf t.name sStart :: ss.map (fun _ => topicOf t.name sRecv) ++ [topicOf t.name sStop] ∧
    (lifecycle t ss).filterMap (·.content) = ss := by
  constructor
  · simp [lifecycle, gframe, Function.comp_def]
  · simp only [lifecycle, List.filterMap_cons, gframe, List.filterMap_append, List.filterMap_nil, List.append_nil]
    induction ss with
    | nil => rfl
    | cons s rest ih => simp only [List.map_cons, List.filterMap_cons]; rw [ih]

theorem duplexLifecycle_contents (t : GTask) (ss : List String) :
    (duplexLifecycle t ss).filterMap (·.content) = ss ∧
    ∀ f ∈ duplexLifecycle t ss, metaGet f.mdata "source_id" = some (idText t.id) ∧ f.ctx = t.ctx := by
  constructor
  · simp only [duplexLifecycle, List.filterMap_cons, gframe]
    induction ss with
    | nil => rfl
    | cons s rest ih => simp only [List.map_cons, List.filterMap_cons]; rw [ih]
  · intro f hf
    simp only [duplexLifecycle, List.mem_cons, List.mem_map] at hf
    rcases hf with rfl | ⟨s, _, rfl⟩ <;> exact ⟨by simp [gframe, gmeta, metaGet], rfl⟩

variable (duplexOf parses : SFrame → Bool)

/-- C18: a spawn for a name that is already running yields exactly one `.spawn.error` naming
    it and changes nothing -/
theorem running_name_rejected (tbl : List GTask) (f : SFrame) (name : String) (t0 : GTask)
    (hc : gclassify f.topic = some (name, .spawn)) (hh : gtblHas tbl (f.ctx, name) = some t0) :
    genStep duplexOf parses tbl f =
      (tbl, some (.reject (spawnError name f "Updating existing generator is not implemented"))) := by
  simp [genStep, hc, hh]

/-- C18: a spawn without content yields exactly one `.spawn.error` naming it -/
theorem missing_content_rejected (tbl : List GTask) (f : SFrame) (name : String)
    (hc : gclassify f.topic = some (name, .spawn)) (hh : gtblHas tbl (f.ctx, name) = none)
    (hn : f.content = none) :
    genStep duplexOf parses tbl f = (tbl, some (.reject (spawnError name f "Missing hash"))) := by
  simp [genStep, hc, hh, hn]

theorem spawnError_names (name : String) (f : SFrame) (reason : String) :
    metaGet (spawnError name f reason).mdata "source_id" = some (idText f.id) ∧
    (spawnError name f reason).ctx = f.ctx ∧ (spawnError name f reason).topic = topicOf name sSpawnError := by
  simp [spawnError, metaGet]

/-- C18: an accepted spawn starts a lifecycle of a task with the spawn's id and context -/
theorem accepted_spawn_starts (tbl : List GTask) (f : SFrame) (name c : String)
    (hc : gclassify f.topic = some (name, .spawn)) (hh : gtblHas tbl (f.ctx, name) = none)
    (hn : f.content = some c) (hp : parses f = true) :
    genStep duplexOf parses tbl f =
      (tbl ++ [{ id := f.id, ctx := f.ctx, name := name, duplex := duplexOf f }],
       some (.start { id := f.id, ctx := f.ctx, name := name, duplex := duplexOf f })) := by
  simp [genStep, hc, hh, hn, hp]

/-- C18: a spawn whose expression does not parse yields exactly one `.spawn.error` naming it
    and occupies nothing -/
theorem unparsable_rejected (tbl : List GTask) (f : SFrame) (name c : String)
    (hc : gclassify f.topic = some (name, .spawn)) (hh : gtblHas tbl (f.ctx, name) = none)
    (hn : f.content = some c) (hp : parses f = false) :
    genStep duplexOf parses tbl f = (tbl, some (.reject (spawnError name f "Parse error"))) := by
  simp [genStep, hc, hh, hn, hp]

/-- C18: after a stop the generator is started again, as the same task -/
theorem stop_restarts (tbl : List GTask) (f : SFrame) (name : String) (t0 : GTask)
    (hc : gclassify f.topic = some (name, .stop)) (hh : gtblHas tbl (f.ctx, name) = some t0) :
    genStep duplexOf parses tbl f = (tbl, some (.start t0)) := by
  simp [genStep, hc, hh]

/-- C18/C06: a `.stop` (or anything else) of another context or name starts nothing -/
theorem foreign_stop_ignored (tbl : List GTask) (f : SFrame) (name : String)
    (hc : gclassify f.topic = some (name, .stop)) (hh : gtblHas tbl (f.ctx, name) = none) :
    genStep duplexOf parses tbl f = (tbl, none) := by
  simp [genStep, hc, hh]

/-- C18 (duplex): what an instance reads is the content of exactly the `.send` frames of its
    context stored after its start - each once, in stream order -/
theorem duplexInput_exact (t : GTask) (startId : Nat) (stream : List SFrame) :
    duplexInput t startId stream =
      (stream.filter (fun f => f.ctx = t.ctx && startId < f.id && f.topic = topicOf t.name sSend)).filterMap (·.content) ∧
    ((stream.filter (fun f => f.ctx = t.ctx && startId < f.id && f.topic = topicOf t.name sSend)).Sublist stream) :=
  ⟨rfl, List.filter_sublist⟩

theorem duplexInput_append (t : GTask) (startId : Nat) (s1 s2 : List SFrame) :
    duplexInput t startId (s1 ++ s2) = duplexInput t startId s1 ++ duplexInput t startId s2 := by
  simp [duplexInput, List.filter_append, List.filterMap_append]

/-- C18/C06: a send of another context is never fed to the instance -/
theorem duplexInput_other_context (t : GTask) (startId : Nat) (f : SFrame) (h : f.ctx ≠ t.ctx) :
    duplexInput t startId [f] = [] := by
  simp [duplexInput, List.filter_cons, h]

/-! ### start-up scan -/

def gkeyOf (f : SFrame) : Option (Key × Bool) :=
  match gclassify f.topic with
  | some (name, .spawn) => some ((f.ctx, name), true)
  | some (name, .spawnError) => some ((f.ctx, name), false)
  | _ => none

theorem gcompactStep_eq (t : List GEntry) (f : SFrame) :
    gcompactStep t f = match gkeyOf f with
      | some (k, b) => t.filter (fun e => e.key ≠ k) ++ [⟨k, f, b⟩]
      | none => t := by
  unfold gcompactStep gkeyOf
  cases gclassify f.topic with
  | none => rfl
  | some nk =>
    obtain ⟨n, kd⟩ := nk
    cases kd <;> rfl

/-- `r` is a spawn / spawn.error entry of key `k` and nothing after it is -/
def GLast (h : List SFrame) (k : Key) (r : SFrame) (b : Bool) : Prop :=
  ∃ pre post, h = pre ++ r :: post ∧ gkeyOf r = some (k, b) ∧ ∀ f ∈ post, ∀ b', gkeyOf f ≠ some (k, b')

theorem glast_snoc {h : List SFrame} {k : Key} {r f : SFrame} {b : Bool} :
    GLast (h ++ [f]) k r b ↔ (GLast h k r b ∧ ∀ b', gkeyOf f ≠ some (k, b')) ∨ (f = r ∧ gkeyOf r = some (k, b)) := by
  constructor
  · rintro ⟨pre, post, he, hr, ha⟩
    rcases List.eq_nil_or_concat post with rfl | ⟨post0, x, rfl⟩
    · right
      have : h ++ [f] = pre ++ [r] := by simpa using he
      have := List.append_inj' this rfl
      simp at this
      exact ⟨this.2, hr⟩
    · left
      have : h ++ [f] = (pre ++ r :: post0) ++ [x] := by simp [he]
      have := List.append_inj' this rfl
      simp only [List.cons.injEq, and_true] at this
      obtain ⟨h1, h2⟩ := this
      subst h2
      exact ⟨⟨pre, post0, h1, hr, fun g hg => ha g (by simp [hg])⟩, ha f (by simp)⟩
  · rintro (⟨⟨pre, post, he, hr, ha⟩, hf⟩ | ⟨rfl, hr⟩)
    · refine ⟨pre, post ++ [f], by simp [he], hr, ?_⟩
      intro g hg
      rcases List.mem_append.mp hg with hg | hg
      · exact ha g hg
      · simp at hg; subst hg; exact hf
    · exact ⟨h, [], by simp, hr, by simp⟩

theorem gcompact_inv (h : List SFrame) :
    ∀ k r b, (⟨k, r, b⟩ : GEntry) ∈ h.foldl gcompactStep [] ↔ GLast h k r b := by
  induction h using list_snoc_induction with
  | hnil => intro k r b; simp [GLast]
  | hsnoc l f ih =>
    intro k r b
    rw [List.foldl_append, List.foldl_cons, List.foldl_nil, gcompactStep_eq, glast_snoc]
    cases hk : gkeyOf f with
    | none =>
      simp only []
      rw [ih]
      constructor
      · intro hl; exact Or.inl ⟨hl, fun b' e => by cases e⟩
      · rintro (⟨hl, _⟩ | ⟨rfl, hr⟩)
        · exact hl
        · rw [hk] at hr; cases hr
    | some kb =>
      obtain ⟨k0, b0⟩ := kb
      simp only [List.mem_append, List.mem_filter, List.mem_singleton, decide_eq_true_eq]
      rw [ih]
      constructor
      · rintro (⟨hl, hne⟩ | he)
        · left; refine ⟨hl, fun b' e => ?_⟩
          injection e with e; injection e with e1 _
          exact hne e1.symm
        · right
          injection he with h1 h2 h3
          subst h1; subst h2; subst h3
          exact ⟨rfl, hk⟩
      · rintro (⟨hl, hne⟩ | ⟨rfl, hr⟩)
        · left; refine ⟨hl, fun e => ?_⟩
          have e : k = k0 := e
          apply hne b0
          rw [e]
        · right
          rw [hk] at hr
          injection hr with hr; injection hr with h1 h2
          subst h1; subst h2; rfl

/-- C17 (generators): exactly the spawns that are the last spawn / spawn.error of their
    (context, name) are started again: "the generators whose latest spawn succeeded" -/
theorem mem_gcompact (h : List SFrame) (r : SFrame) :
    r ∈ gcompact h ↔ ∃ k, GLast h k r true := by
  unfold gcompact
  simp only [List.mem_map, List.mem_filter]
  constructor
  · rintro ⟨e, ⟨he, hs⟩, rfl⟩
    obtain ⟨k, fr, b⟩ := e
    simp only at hs
    subst hs
    exact ⟨k, (gcompact_inv h k fr true).mp he⟩
  · rintro ⟨k, hl⟩
    exact ⟨⟨k, r, true⟩, ⟨(gcompact_inv h k r true).mpr hl, rfl⟩, rfl⟩

/-- C17/C06 (generators): frames of other contexts never change what is restarted for a key -/
theorem gkeyOf_ctx (f : SFrame) (k : Key) (b : Bool) (h : gkeyOf f = some (k, b)) : k.1 = f.ctx := by
  unfold gkeyOf at h
  split at h
  · injection h with h; injection h with h _; rw [← h]
  · injection h with h; injection h with h _; rw [← h]
  · cases h

end Xs.Serve
