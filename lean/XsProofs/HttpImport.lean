import XsModel.Route
import XsProofs.Import
/-!
  An import session over HTTP (`.import` of xs.nu: `POST /cas` for every piece of content,
  `POST /import` for every frame): whatever the order and the interleaving of the two kinds of
  request, the store ends up as `importAll` of the frames in the order they were sent, and the
  content store as the fold of the contents - neither looks at the other.
-/
namespace Xs.Http

/-- one item of an import session -/
inductive Item where
  | frame (f : Frame)
  | content (hash : String) (bytes : List Nat)
  deriving Repr

def Item.request : Item → Request
  | .frame f => { method := .post, path := sImport, query := none, importBody := .frame f }
  | .content h b => { method := .post, path := sCas, query := none, body := b, bodyHash := h }

def Item.frame? : Item → Option Frame
  | .frame f => some f
  | .content _ _ => none

def Item.content? : Item → Option (String × List Nat)
  | .frame _ => none
  | .content h b => some (h, b)

/-- the server after the items have been posted one after another -/
def session (s : Srv) (items : List Item) : Srv := items.foldl (fun s it => (handle s it.request).1) s

/-- `POST /cas`, seen from the content store (an empty body is refused) -/
def casStep (c : List (String × List Nat)) (hb : String × List Nat) : List (String × List Nat) :=
  if hb.2.isEmpty then c else casPut c hb.1 hb.2

theorem route_import (f : Frame) : matchRoute (Item.frame f).request = .importR := by
  simp [Item.request, matchRoute, sImport, sCas]

theorem route_content (h : String) (b : List Nat) : matchRoute (Item.content h b).request = .casPost := by
  simp [Item.request, matchRoute, sCas]

theorem handle_frame (s : Srv) (f : Frame) :
    (handle s (Item.frame f).request).1 = { s with store := s.store.step (.importF f) } := by
  unfold handle
  rw [route_import]
  simp only [handleImport, handleImportRead, Item.request, State.step]
  cases s.store.insertFrame f <;> simp

theorem handle_content (s : Srv) (h : String) (b : List Nat) :
    (handle s (Item.content h b).request).1 = { s with cas := casStep s.cas (h, b) } := by
  unfold handle
  rw [route_content]
  simp only [handleCasPost, handleCasPostRead, Item.request, casStep]
  by_cases hb : b.isEmpty = true <;> simp [hb]

/-- the store after a session: the frames, in the order they were sent; the content requests
    in between do not matter -/
theorem session_store (s : Srv) (items : List Item) :
    (session s items).store = s.store.importAll (items.filterMap Item.frame?) := by
  induction items generalizing s with
  | nil => rfl
  | cons it rest ih =>
    cases it with
    | frame f =>
      simp only [session, List.foldl_cons, List.filterMap_cons, Item.frame?, State.importAll] at ih ⊢
      rw [handle_frame]; exact ih _
    | content h b =>
      simp only [session, List.foldl_cons, List.filterMap_cons, Item.frame?] at ih ⊢
      rw [handle_content]; exact ih _

/-- the content store after a session: the contents, in the order they were sent; the frames in
    between do not matter - in particular a frame may arrive before its content -/
theorem session_cas (s : Srv) (items : List Item) :
    (session s items).cas = (items.filterMap Item.content?).foldl casStep s.cas := by
  induction items generalizing s with
  | nil => rfl
  | cons it rest ih =>
    cases it with
    | frame f =>
      simp only [session, List.foldl_cons, List.filterMap_cons, Item.content?] at ih ⊢
      rw [handle_frame]; exact ih _
    | content h b =>
      simp only [session, List.foldl_cons, List.filterMap_cons, Item.content?] at ih ⊢
      rw [handle_content]; exact ih _

end Xs.Http
