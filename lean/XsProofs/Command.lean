import Std.Data.String.ToNat
import XsModel.Command
import XsProofs.Registry
namespace Xs.Serve

theorem cstamp_ids (m : Option (List (String × String))) (cid fid : Nat) :
    metaGet (cstamp m cid fid) "command_id" = some (idText cid) ∧
    metaGet (cstamp m cid fid) "frame_id" = some (idText fid) := by
  unfold cstamp
  constructor
  · rw [metaGet_metaSet_other _ _ _ _ (by decide), metaGet_metaSet_same]
  · rw [metaGet_metaSet_same]

/-- stamped with the definition's id and the call's id -/
def CStamped (d : CDef) (call o : SFrame) : Prop :=
  metaGet o.mdata "command_id" = some (idText d.id) ∧ metaGet o.mdata "frame_id" = some (idText call.id)

theorem cemit_stamped (d : CDef) (c : SFrame) (o : OutReq) : CStamped d c (cemit d c o) := cstamp_ids _ _ _
theorem crecv_stamped (d : CDef) (c : SFrame) (v : String) : CStamped d c (crecv d c v) := cstamp_ids _ _ _
theorem ccomplete_stamped (d : CDef) (c : SFrame) : CStamped d c (ccomplete d c) := cstamp_ids _ _ _
theorem cerror_stamped (d : CDef) (c : SFrame) (m : String) : CStamped d c (cerror d c m) := by
  constructor <;> simp [cerror, metaGet]

/-- C19: every frame a call produces carries the definition's id and the call's id -/
theorem callOutputs_stamped (d : CDef) (c : SFrame) (r : CallRes) : ∀ o ∈ callOutputs d c r, CStamped d c o := by
  intro o ho
  cases r with
  | ok appends values =>
    simp only [callOutputs, List.mem_append, List.mem_map, List.mem_singleton] at ho
    rcases ho with (⟨q, _, rfl⟩ | ⟨v, _, rfl⟩) | rfl
    · exact cemit_stamped _ _ _
    · exact crecv_stamped _ _ _
    · exact ccomplete_stamped _ _
  | error appends values msg =>
    simp only [callOutputs, List.mem_append, List.mem_map, List.mem_singleton] at ho
    rcases ho with (⟨q, _, rfl⟩ | ⟨v, _, rfl⟩) | rfl
    · exact cemit_stamped _ _ _
    · exact crecv_stamped _ _ _
    · exact cerror_stamped _ _ _

/-- C19: a successful call: one `<name><suffix>` per value, in order, with the value as content and
    the configured ttl, in the caller's context, then exactly one `<name>.complete`, last -/
theorem call_ok_shape (d : CDef) (c : SFrame) (appends : List OutReq) (values : List String) :
    callOutputs d c (.ok appends values) =
      appends.map (cemit d c) ++ values.map (crecv d c) ++ [ccomplete d c] ∧
    (values.map (crecv d c)).map (·.content) = values.map some ∧
    (∀ o ∈ values.map (crecv d c), o.topic = d.name ++ d.suffix ∧ o.ttl = d.ttl ∧ o.ctx = c.ctx) ∧
    (ccomplete d c).ctx = c.ctx := by
  refine ⟨rfl, ?_, ?_, rfl⟩
  · simp [crecv, Function.comp_def]
  · intro o ho
    obtain ⟨v, _, rfl⟩ := List.mem_map.mp ho
    exact ⟨rfl, rfl, rfl⟩

/-- C19: a failing call: the results produced before the failure (none when the closure fails
    at once), then exactly one `<name>.error`, last - and no `<name>.complete` -/
theorem call_error_shape (d : CDef) (c : SFrame) (appends : List OutReq) (values : List String) (msg : String) :
    callOutputs d c (.error appends values msg) =
      appends.map (cemit d c) ++ values.map (crecv d c) ++ [cerror d c msg] ∧
    (cerror d c msg).ctx = c.ctx := ⟨rfl, rfl⟩

/-- C19: exactly one terminal event, and it is the last frame of the call -/
theorem call_one_terminal (d : CDef) (c : SFrame) (r : CallRes) :
    ∃ body t, callOutputs d c r = body ++ [t] ∧ (t = ccomplete d c ∨ ∃ m, t = cerror d c m) := by
  cases r with
  | ok appends values => exact ⟨_, _, rfl, Or.inl rfl⟩
  | error appends values msg => exact ⟨_, _, rfl, Or.inr ⟨msg, rfl⟩⟩

variable (parse : SFrame → Except String CDef) (eval : CDef → SFrame → CallRes)

/-- C19: calls met in the history (before the threshold) are never run -/
theorem history_call_not_run (t : List CEntry) (f : SFrame) (name : String)
    (hc : cclassify f.topic = some (name, .call)) : cmdStep parse eval false t f = (t, []) := by
  simp [cmdStep, hc]

/-- C19: a call of an undefined (context, name) produces nothing -/
theorem undefined_call_ignored (t : List CEntry) (f : SFrame) (name : String) (live : Bool)
    (hc : cclassify f.topic = some (name, .call)) (hu : ctblGet t (f.ctx, name) = none) :
    cmdStep parse eval live t f = (t, []) := by
  cases live <;> simp [cmdStep, hc, hu]

/-- C19: a live call of a defined name runs the definition found under (caller's context, name)
    - its result depends on that definition and the call frame alone -/
theorem defined_call_runs (t : List CEntry) (f : SFrame) (name : String) (d : CDef)
    (hc : cclassify f.topic = some (name, .call)) (hd : ctblGet t (f.ctx, name) = some d) :
    cmdStep parse eval true t f = (t, callOutputs d f (eval d f)) := by
  simp [cmdStep, hc, hd]

theorem find?_filter_key_ne (t : List CEntry) (k k' : Key) (hne : k' ≠ k) :
    (t.filter (fun e => e.key ≠ k)).find? (fun e => e.key = k') = t.find? (fun e => e.key = k') := by
  induction t with
  | nil => rfl
  | cons x rest ih =>
    by_cases hx : x.key = k
    · have hk' : ¬ x.key = k' := by rw [hx]; exact fun e => hne e.symm
      have e1 : (x :: rest).filter (fun e => e.key ≠ k) = rest.filter (fun e => e.key ≠ k) := by
        simp [List.filter_cons, hx]
      rw [e1, ih, List.find?_cons]
      simp [hk']
    · have e1 : (x :: rest).filter (fun e => e.key ≠ k) = x :: rest.filter (fun e => e.key ≠ k) := by
        simp [List.filter_cons, hx]
      rw [e1, List.find?_cons, List.find?_cons, ih]

theorem find?_filter_key_self (t : List CEntry) (k : Key) :
    (t.filter (fun e => e.key ≠ k)).find? (fun e => e.key = k) = none := by
  rw [List.find?_eq_none]
  intro e he
  have := (List.mem_filter.mp he).2
  simpa using this

theorem ctblGet_insert_same (t : List CEntry) (k : Key) (d : CDef) : ctblGet (ctblInsert t k d) k = some d := by
  unfold ctblGet ctblInsert
  rw [List.find?_append, find?_filter_key_self]
  simp

theorem ctblGet_insert_other (t : List CEntry) (k k' : Key) (d : CDef) (hne : k' ≠ k) :
    ctblGet (ctblInsert t k d) k' = ctblGet t k' := by
  unfold ctblGet ctblInsert
  rw [List.find?_append, find?_filter_key_ne t k k' hne]
  cases t.find? (fun e => e.key = k') with
  | some e => simp
  | none =>
    have : ¬ (k = k') := fun e => hne e.symm
    simp [this]

/-- C19: the latest valid definition wins: after a valid `.define` the (context, name) maps to
    it and every other (context, name) - the same name in another context included - is untouched -/
theorem valid_define_wins (t : List CEntry) (f : SFrame) (name : String) (d : CDef) (live : Bool)
    (hc : cclassify f.topic = some (name, .define)) (hp : parse f = .ok d) :
    (cmdStep parse eval live t f).2 = [] ∧
    ctblGet (cmdStep parse eval live t f).1 (f.ctx, name) = some d ∧
    ∀ k', k' ≠ (f.ctx, name) → ctblGet (cmdStep parse eval live t f).1 k' = ctblGet t k' := by
  refine ⟨?_, ?_, ?_⟩ <;> simp only [cmdStep, hc, hp]
  · exact ctblGet_insert_same _ _ _
  · exact fun k' h => ctblGet_insert_other _ _ _ _ h

/-- C19: an invalid definition is reported by exactly one `<name>.error` naming the define
    frame and changes nothing: the previous definition stays in force -/
theorem invalid_define_reported (t : List CEntry) (f : SFrame) (name : String) (e : String) (live : Bool)
    (hc : cclassify f.topic = some (name, .define)) (hp : parse f = .error e) :
    cmdStep parse eval live t f = (t, [defineError name f e]) := by
  simp [cmdStep, hc, hp]

theorem cmdStep_table_phase (t : List CEntry) (f : SFrame) :
    (cmdStep parse eval true t f).1 = (cmdStep parse eval false t f).1 := by
  unfold cmdStep
  cases cclassify f.topic with
  | none => rfl
  | some nk =>
    obtain ⟨n, kd⟩ := nk
    cases kd with
    | define => cases parse f <;> rfl
    | call =>
      simp only [if_true]
      cases ctblGet t (f.ctx, n) <;> rfl
    | other => rfl

/-- C17/C19: the table is a function of the `.define` frames gone through, whether they were
    met in the history or live … -/
theorem cmdRun_table_phase (t : List CEntry) (l : List SFrame) :
    (cmdRun parse eval true t l).1 = (cmdRun parse eval false t l).1 := by
  induction l generalizing t with
  | nil => rfl
  | cons f rest ih =>
    simp only [cmdRun]
    rw [cmdStep_table_phase, ih]

theorem cmdRun_append_table (live : Bool) (t : List CEntry) (l1 l2 : List SFrame) :
    (cmdRun parse eval live t (l1 ++ l2)).1 = (cmdRun parse eval live (cmdRun parse eval live t l1).1 l2).1 := by
  induction l1 generalizing t with
  | nil => rfl
  | cons f rest ih => simp only [List.cons_append, cmdRun, ih]

/-- … so a restart on the stored stream restores exactly the definitions that were in force:
    serving `history` then `live` leaves the table that a fresh start on `history ++ live` builds
    from its history alone -/
theorem restart_restores_definitions (history live : List SFrame) :
    (cmdServe parse eval history live).1 = (cmdServe parse eval (history ++ live) []).1 := by
  simp only [cmdServe, cmdRun]
  rw [cmdRun_append_table, cmdRun_table_phase parse eval _ live]

/-- C19: nothing is executed while the history is replayed: the only frames a start-up emits
    are the reports of invalid definitions -/
theorem startup_runs_no_call (t : List CEntry) (l : List SFrame) :
    ∀ p ∈ (cmdRun parse eval false t l).2, ∃ name, cclassify p.1.topic = some (name, .define) := by
  induction l generalizing t with
  | nil => simp [cmdRun]
  | cons f rest ih =>
    intro p hp
    simp only [cmdRun, List.mem_append] at hp
    rcases hp with hp | hp
    · split at hp
      · cases hp
      · rename_i hne
        simp only [List.mem_singleton] at hp
        subst hp
        simp only
        unfold cmdStep at hne
        split at hne
        · rename_i name hc; exact ⟨name, hc⟩
        · simp at hne
        · simp at hne
    · exact ih _ p hp

/-! ### concurrent calls -/

/-- C19 (concurrent calls do not mix their results): however the frames of two calls of
    different ids interleave in the stream, selecting by `frame_id` gives back each call's frames,
    complete and in its own order -/
theorem concurrent_calls_separate (d1 d2 : CDef) (c1 c2 : SFrame) (r1 r2 : CallRes) (m : List SFrame)
    (hne : c1.id ≠ c2.id) (h : Xs.Interleave (callOutputs d1 c1 r1) (callOutputs d2 c2 r2) m) :
    m.filter (fun o => metaGet o.mdata "frame_id" = some (idText c1.id)) = callOutputs d1 c1 r1 := by
  apply Xs.interleave_filter _ h
  · intro o ho
    have := (callOutputs_stamped d1 c1 r1 o ho).2
    simp [this]
  · intro o ho
    have := (callOutputs_stamped d2 c2 r2 o ho).2
    simp only [this, Option.some.injEq, decide_eq_false_iff_not]
    intro e
    apply hne
    unfold idText at e
    have : Nat.repr c2.id = Nat.repr c1.id := (String.append_right_inj "id:").mp e
    exact (Nat.repr_inj.mp this).symm

end Xs.Serve
