import XsModel.Query
import XsProofs.Ttl
namespace Xs.Wire

/-! ### ids -/

theorem b36Val_b36Char {d : Nat} (h : d < 36) : b36Val (b36Char d) = some d := by
  unfold b36Char b36Val
  by_cases h10 : d < 10
  · simp [h10]; omega
  · simp only [h10, if_false]
    have h1 : ¬ (48 ≤ 87 + d ∧ 87 + d ≤ 57) := by omega
    have h2 : (97 ≤ 87 + d ∧ 87 + d ≤ 122) := by omega
    simp [h1, h2]

theorem showB36_length (w n : Nat) : (showB36 w n).length = w := by
  induction w generalizing n with
  | zero => rfl
  | succ w ih => simp [showB36, ih]

theorem parseB36_append_single (s : Text) (c : Nat) :
    parseB36 (s ++ [c]) = b36Step (parseB36 s) c := by
  simp [parseB36, List.foldl_append]

theorem parseB36_showB36 {w n : Nat} (h : n < 36 ^ w) : parseB36 (showB36 w n) = some n := by
  induction w generalizing n with
  | zero => simp at h; subst h; rfl
  | succ w ih =>
    have h' : n / 36 < 36 ^ w := by rw [Nat.pow_succ] at h; omega
    rw [showB36, parseB36_append_single, ih h']
    simp only [b36Step, b36Val_b36Char (Nat.mod_lt n (by omega : 36 > 0))]
    congr 1; omega

theorem pow_bound : (2 : Nat) ^ 128 < 36 ^ 25 := by decide

/-- C12: ids survive their 25-character text form -/
theorem parseId_showId {n : Nat} (h : n < 2 ^ 128) : parseId (showId n) = some n := by
  unfold parseId showId
  rw [showB36_length, parseB36_showB36 (Nat.lt_trans h pow_bound)]
  simp [h]

/-! ### plain text passes through the encoder and the decoder unchanged -/

def Plain (s : Text) : Prop := ∀ c ∈ s, plainChar c = true

instance (s : Text) : Decidable (Plain s) := by unfold Plain; infer_instance

theorem pctEncode_plain {s : Text} (h : Plain s) : pctEncode s = s := by
  induction s with
  | nil => rfl
  | cons c r ih =>
    have hc := h c (by simp)
    simp [pctEncode, hc, ih (fun x hx => h x (by simp [hx]))]

theorem plain_ne {s : Text} (h : Plain s) (d : Nat) (hd : plainChar d = false) : ∀ c ∈ s, c ≠ d := by
  intro c hc e; subst e; rw [h c hc] at hd; cases hd

theorem pctDecode_plain {s : Text} (h : Plain s) : pctDecode s = s := by
  induction s with
  | nil => simp [pctDecode]
  | cons c r ih =>
    have hc := h c (by simp)
    have h43 : c ≠ 43 := by intro e; subst e; revert hc; decide
    have h37 : c ≠ 37 := by intro e; subst e; revert hc; decide
    have ihr := ih (fun x hx => h x (by simp [hx]))
    unfold pctDecode
    split
    · rename_i heq; cases heq
    · rename_i heq; injection heq with h1 _; exact absurd h1 h43
    · rename_i heq; injection heq with h1 _; exact absurd h1 h37
    · rename_i heq; injection heq with h1 h2; subst h1 h2; rw [ihr]

theorem splitKV_join {k v : Text} (hk : ∀ c ∈ k, c ≠ 61) : splitKV (k ++ [61] ++ v) = (k, v) := by
  induction k with
  | nil => simp [splitKV]
  | cons c r ih =>
    have hc : c ≠ 61 := hk c (by simp)
    simp only [List.cons_append, splitKV, hc, if_false]
    have := ih (fun x hx => hk x (by simp [hx]))
    simp only [List.append_assoc] at this ⊢
    rw [this]

theorem splitOn_no_sep {sep : Nat} {s : Text} (h : ∀ c ∈ s, c ≠ sep) : splitOn sep s = [s] := by
  induction s with
  | nil => rfl
  | cons c r ih =>
    have hc : c ≠ sep := h c (by simp)
    simp [splitOn, hc, ih (fun x hx => h x (by simp [hx]))]

theorem splitOn_join {sep : Nat} {a : Text} (rest : Text) (h : ∀ c ∈ a, c ≠ sep) :
    splitOn sep (a ++ [sep] ++ rest) = a :: splitOn sep rest := by
  induction a with
  | nil => simp [splitOn]
  | cons c r ih =>
    have hc : c ≠ sep := h c (by simp)
    have := ih (fun x hx => h x (by simp [hx]))
    simp only [List.cons_append, splitOn, hc, if_false]
    simp only [List.append_assoc] at this ⊢
    rw [this]

/-- keys and values made of characters the serializer leaves alone -/
def PlainPair (kv : Text × Text) : Prop := Plain kv.1 ∧ Plain kv.2

theorem renderPair_plain {kv : Text × Text} (h : PlainPair kv) : renderPair kv = kv.1 ++ [61] ++ kv.2 := by
  simp [renderPair, pctEncode_plain h.1, pctEncode_plain h.2]

theorem plain_no (d : Nat) (hd : plainChar d = false) {kv : Text × Text} (h : PlainPair kv) :
    ∀ c ∈ renderPair kv, c = 61 ∨ c ≠ d := by
  intro c hc
  rw [renderPair_plain h] at hc
  simp only [List.append_assoc, List.mem_append, List.mem_cons, List.mem_nil_iff, or_false] at hc
  rcases hc with hc | hc | hc
  · exact Or.inr (plain_ne h.1 d hd c hc)
  · exact Or.inl hc
  · exact Or.inr (plain_ne h.2 d hd c hc)

theorem renderPair_no_amp {kv : Text × Text} (h : PlainPair kv) : ∀ c ∈ renderPair kv, c ≠ 38 := by
  intro c hc
  rcases plain_no 38 (by decide) h c hc with e | e
  · rw [e]; decide
  · exact e

theorem splitOn_renderQuery (ps : List (Text × Text)) (h : ∀ kv ∈ ps, PlainPair kv) (hne : ps ≠ []) :
    splitOn 38 (renderQuery ps) = ps.map renderPair := by
  induction ps with
  | nil => exact absurd rfl hne
  | cons kv rest ih =>
    cases rest with
    | nil => simp [renderQuery, splitOn_no_sep (renderPair_no_amp (h kv (by simp)))]
    | cons kv2 rest2 =>
      have := ih (fun x hx => h x (by simp [hx])) (by simp)
      simp only [renderQuery, List.map_cons]
      rw [splitOn_join _ (renderPair_no_amp (h kv (by simp))), this]
      simp

/-- C12: a list of plain key/value pairs survives render → parse -/
theorem parseQuery_renderQuery (ps : List (Text × Text)) (h : ∀ kv ∈ ps, PlainPair kv) :
    parseQuery (renderQuery ps) = ps := by
  cases hps : ps with
  | nil => simp [renderQuery, parseQuery, splitOn]
  | cons kv rest =>
    rw [← hps]
    unfold parseQuery
    rw [splitOn_renderQuery ps h (by rw [hps]; simp)]
    have hne : ∀ s ∈ ps.map renderPair, s.isEmpty = false := by
      intro s hs
      obtain ⟨x, hx, rfl⟩ := List.mem_map.1 hs
      rw [renderPair_plain (h x hx)]; simp
    rw [List.filter_eq_self.2 (fun s hs => by simp [hne s hs])]
    rw [List.map_map]
    conv => rhs; rw [← List.map_id ps]
    apply List.map_congr_left
    intro x hx
    have hp := h x hx
    simp only [Function.comp, id]
    rw [renderPair_plain hp]
    have hk : ∀ c ∈ x.1, c ≠ 61 := plain_ne hp.1 61 (by decide)
    rw [splitKV_join hk]
    simp [pctDecode_plain hp.1, pctDecode_plain hp.2]

/-! ### the texts this module prints are plain -/

theorem plain_showNat (n : Nat) : Plain (showNat n) := by
  intro c hc
  have := (showNat_spec n).1
  rw [List.all_eq_true] at this
  have hd := this c hc
  simp only [isDigit, decide_eq_true_eq] at hd
  simp [plainChar]; omega

theorem plain_b36Char {d : Nat} (h : d < 36) : plainChar (b36Char d) = true := by
  unfold b36Char plainChar
  by_cases h10 : d < 10
  · simp [h10]; omega
  · simp [h10]; omega

theorem plain_showB36 (w n : Nat) : Plain (showB36 w n) := by
  induction w generalizing n with
  | zero => intro c hc; cases hc
  | succ w ih =>
    intro c hc
    simp only [showB36, List.mem_append, List.mem_singleton] at hc
    rcases hc with hc | hc
    · exact ih _ c hc
    · subst hc; exact plain_b36Char (Nat.mod_lt _ (by omega))

theorem optsPairs_plain (o : ReadOpts) : ∀ kv ∈ optsPairs o, PlainPair kv := by
  intro kv hkv
  simp only [optsPairs, List.mem_append] at hkv
  have pk : ∀ k ∈ [kFollow, kTail, kLastId, kLimit, kContextId, sTrue], Plain k := by decide
  rcases hkv with (((hkv | hkv) | hkv) | hkv) | hkv
  · cases hf : o.follow with
    | off => rw [hf] at hkv; cases hkv
    | on => rw [hf] at hkv; simp at hkv; subst hkv; exact ⟨pk _ (by simp), pk _ (by simp)⟩
    | heartbeat ms => rw [hf] at hkv; simp at hkv; subst hkv; exact ⟨pk _ (by simp), plain_showNat ms⟩
  · cases hc : o.contextId with
    | none => rw [hc] at hkv; cases hkv
    | some c => rw [hc] at hkv; simp at hkv; subst hkv; exact ⟨pk _ (by simp), plain_showB36 25 c⟩
  · by_cases ht : o.tail = true
    · simp [ht] at hkv; subst hkv; exact ⟨pk _ (by simp), pk _ (by simp)⟩
    · simp [ht] at hkv
  · cases hc : o.lastId with
    | none => rw [hc] at hkv; cases hkv
    | some c => rw [hc] at hkv; simp at hkv; subst hkv; exact ⟨pk _ (by simp), plain_showB36 25 c⟩
  · cases hc : o.limit with
    | none => rw [hc] at hkv; cases hkv
    | some c => rw [hc] at hkv; simp at hkv; subst hkv; exact ⟨pk _ (by simp), plain_showNat c⟩

/-! ### the options survive the trip -/

theorem parseFollow_true : parseFollow sTrue = some .on := by decide

theorem showNat_ne_of_digit (n : Nat) (s : Text) (hs : ∃ c ∈ s, isDigit c = false) : showNat n ≠ s := by
  intro e
  obtain ⟨c, hc, hd⟩ := hs
  have := (showNat_spec n).1
  rw [List.all_eq_true] at this
  rw [e] at this
  rw [this c hc] at hd; cases hd

theorem parseFollow_showNat {ms : Nat} (h : ms ≤ u64Max) : parseFollow (showNat ms) = some (.heartbeat ms) := by
  unfold parseFollow
  have h1 : (showNat ms).isEmpty = false := by
    have := (showNat_spec ms).2.2.1
    cases hs : showNat ms with
    | nil => exact absurd hs this
    | cons _ _ => rfl
  have h2 : showNat ms ≠ sYes := showNat_ne_of_digit ms sYes ⟨121, by decide, by decide⟩
  simp [h1, h2, parseUnsigned_showNat h]

theorem accRun_append (a : Acc) (l1 l2 : List (Text × Text)) :
    accRun a (l1 ++ l2) = (match accRun a l1 with | .ok a' => accRun a' l2 | .err e => .err e) := by
  induction l1 generalizing a with
  | nil => simp [accRun]
  | cons kv rest ih =>
    simp only [List.cons_append, accRun]
    cases accStep a kv with
    | ok a' => simp [ih]
    | err e => simp

/-- C12: read options survive the trip from the client's query encoding to the server's parser -/
theorem fromQuery_toQuery (o : ReadOpts) (w : WfOpts o) : fromQuery (toQuery o) = .ok o := by
  unfold fromQuery toQuery
  rw [parseQuery_renderQuery _ (optsPairs_plain o)]
  obtain ⟨w1, w2, w3, w4⟩ := w
  obtain ⟨follow, tail, lastId, limit, contextId⟩ := o
  have kne : kTail ≠ kFollow ∧ kLastId ≠ kFollow ∧ kLastId ≠ kTail ∧ kLimit ≠ kFollow ∧ kLimit ≠ kTail ∧
      kLimit ≠ kLastId ∧ kContextId ≠ kFollow ∧ kContextId ≠ kTail ∧ kContextId ≠ kLastId ∧ kContextId ≠ kLimit := by decide
  have ptrue : parseTail sTrue = true := by decide
  cases follow with
  | off =>
    cases tail <;> cases lastId <;> cases limit <;> cases contextId <;>
      simp_all [optsPairs, accRun, accStep, Acc.finish, parseId_showId, parseUnsigned_showNat, kne, ptrue, parseFollow_true]
  | on =>
    cases tail <;> cases lastId <;> cases limit <;> cases contextId <;>
      simp_all [optsPairs, accRun, accStep, Acc.finish, parseId_showId, parseUnsigned_showNat, kne, ptrue, parseFollow_true]
  | heartbeat ms =>
    have := parseFollow_showNat (w1 ms rfl)
    cases tail <;> cases lastId <;> cases limit <;> cases contextId <;>
      simp_all [optsPairs, accRun, accStep, Acc.finish, parseId_showId, parseUnsigned_showNat, kne, ptrue, parseFollow_true]

/-- C12: what the server rejects at the boundary -/
theorem duplicate_key_rejected : fromQuery (kLimit ++ [61, 49, 38] ++ kLimit ++ [61, 50]) = .err .duplicate := by decide
theorem bad_follow_rejected : fromQuery (kFollow ++ [61, 109, 97, 121, 98, 101]) = .err .badFollow := by decide
theorem negative_limit_rejected : fromQuery (kLimit ++ [61, 45, 49]) = .err .badLimit := by decide
theorem short_id_rejected : fromQuery (kLastId ++ [61, 97, 98, 99]) = .err .badId := by decide
/-- … and the accepted oddities, made explicit -/
theorem tail_anything_is_true : fromQuery (kTail ++ [61, 120]) = .ok { tail := true } := by decide
theorem unknown_key_ignored : fromQuery ([120, 61, 49]) = .ok {} := by decide

end Xs.Wire
