/-
  What the read paths return, in terms of the stored frames.
-/
import XsProofs.Ops
import XsModel.Run
namespace Xs
open Part

attribute [local irreducible] be unbe

/-- scope filter of a read: one context, or all -/
def inScope (ctx : Option Nat) (f : Frame) : Bool :=
  match ctx with
  | none => true
  | some c => decide (f.ctx = c)

/-- resume filter of a read: strictly after `last-id` -/
def afterLast (last : Option Nat) (f : Frame) : Bool :=
  match last with
  | none => true
  | some l => decide (l < f.id)

theorem frames_sorted {s : State} (h : InvK s) : (frames s).Pairwise (fun a b => a.id < b.id) := by
  unfold frames
  rw [List.pairwise_map]
  refine List.Pairwise.imp_of_mem ?_ h.sS
  intro a b ha hb hlt
  have wa := h.wf a ha
  have wb := h.wf b hb
  rw [wa.1, wb.1] at hlt
  exact (idKey_lt_iff wa.2.id_lt wb.2.id_lt).1 hlt

/-- all-contexts scan: the stored frames after `last-id`, in id order -/
theorem iterFrames_all {s : State} (h : InvK s) (last : Option Nat)
    (hl : ∀ l, last = some l → l < idBound) :
    s.iterFrames none last = (frames s).filter (afterLast last) := by
  unfold State.iterFrames frames
  simp only
  rw [List.filter_map]
  congr 1
  unfold Part.range
  apply List.filter_congr
  intro kv hkv
  have w := h.wf kv hkv
  cases last with
  | none => simp [allLower, Bound.lowerOk, Bound.upperOk, afterLast]
  | some l =>
    have := idKey_lt_iff (hl l rfl) w.2.id_lt (i' := kv.2.id)
    simp only [allLower, Bound.lowerOk, Bound.upperOk, afterLast, Bool.and_true, Function.comp]
    rw [w.1]
    exact decide_eq_decide.2 this

/-- the context range `[ctx, ctx+1)` / `(ctx‖last, ctx+1)` selects exactly the keys of `c` -/
theorem ctx_range_exact {c c' i : Nat} (last : Option Nat) (hcb : c < idBound)
    (hc' : c' < idBound) (hi : i < idBound) (hl : ∀ l, last = some l → l < idBound) :
    ((ctxLower c last).lowerOk (ctxKey c' i) &&
      (ctxUpper c).upperOk (ctxKey c' i)) = true ↔
    c' = c ∧ (∀ l, last = some l → l < i) := by
  have z : (0 : Nat) < idBound := by decide
  -- upper bound: ctxKey c' i < be 16 (c+1)  ↔  c' ≤ c; open-ended for the last context id
  have hup0 : ∀ (hc : c + 1 < idBound), ctxKey c' i < be 16 (c + 1) ↔ c' < c + 1 := by
    intro hc
    unfold ctxKey
    constructor
    · intro hlt
      by_cases h : c' < c + 1
      · exact h
      · exfalso
        have hge : c + 1 ≤ c' := by omega
        rcases Nat.lt_or_eq_of_le hge with h1 | h1
        · have := lt_append_of_lt_same_len (x := []) (y := be 16 i) (by simp [be_length])
            (be_lt hc hc' h1)
          simp only [List.append_nil] at this
          exact key_lt_asymm this hlt
        · subst h1
          have : ¬ (be 16 (c + 1) ++ be 16 i < be 16 (c + 1)) := by
            intro hh
            have h2 : be 16 (c + 1) ++ be 16 i < be 16 (c + 1) ++ [] := by simpa using hh
            rw [append_lt_append_left_iff] at h2
            exact absurd h2 (by simp)
          exact this hlt
    · intro h
      have := lt_append_of_lt_same_len (x := be 16 i) (y := []) (by simp [be_length])
        (be_lt hc' hc h)
      simpa using this
  have hup : (ctxUpper c).upperOk (ctxKey c' i) = true ↔ c' < c + 1 := by
    unfold ctxUpper
    by_cases h1 : c + 1 < idBound
    · simp only [h1, if_true, Bound.upperOk, decide_eq_true_eq]; exact hup0 h1
    · simp only [h1, if_false, Bound.upperOk, true_iff]; omega
  cases last with
  | none =>
    simp only [ctxLower, Bound.lowerOk, Bool.and_eq_true, decide_eq_true_eq, hup]
    have hlo : be 16 c ≤ ctxKey c' i ↔ c ≤ c' := by
      rw [← List.not_lt]
      have : ctxKey c' i < be 16 c ↔ c' < c := by
        unfold ctxKey
        constructor
        · intro hlt
          by_cases h : c' < c
          · exact h
          · exfalso
            have hge : c ≤ c' := by omega
            rcases Nat.lt_or_eq_of_le hge with h1 | h1
            · have := lt_append_of_lt_same_len (x := []) (y := be 16 i) (by simp [be_length])
                (be_lt hcb hc' h1)
              simp only [List.append_nil] at this
              exact key_lt_asymm this hlt
            · subst h1
              have h2 : be 16 c ++ be 16 i < be 16 c ++ [] := by simpa using hlt
              rw [append_lt_append_left_iff] at h2
              exact absurd h2 (by simp)
        · intro h
          have := lt_append_of_lt_same_len (x := be 16 i) (y := []) (by simp [be_length])
            (be_lt hc' hcb h)
          simpa using this
      rw [this]; omega
    rw [hlo]
    constructor
    · rintro ⟨h1, h2⟩; exact ⟨by omega, fun l hl => by cases hl⟩
    · rintro ⟨rfl, _⟩; exact ⟨Nat.le_refl _, Nat.lt_succ_self _⟩
  | some l =>
    have hlb := hl l rfl
    simp only [ctxLower, Bound.lowerOk, Bool.and_eq_true, decide_eq_true_eq, hup]
    have : be 16 c ++ be 16 l = ctxKey c l := rfl
    rw [this, ctxKey_lt_iff hcb hc' hlb hi]
    constructor
    · rintro ⟨h1 | ⟨h1, h2⟩, h3⟩
      · omega
      · exact ⟨h1.symm, fun l' hl' => by injection hl' with hl'; subst hl'; exact h2⟩
    · rintro ⟨rfl, h2⟩
      exact ⟨Or.inr ⟨rfl, h2 l rfl⟩, Nat.lt_succ_self _⟩

/-- context-scoped scan: the stored frames of that context after `last-id`, in id order - for
    every 128-bit context id, the all-ones id included (its range is open-ended; F12, fixed) -/
theorem iterFrames_ctx {s : State} (h : InvK s) (c : Nat) (last : Option Nat)
    (hc : c < idBound) (hl : ∀ l, last = some l → l < idBound) :
    s.iterFrames (some c) last =
      (frames s).filter (fun f => inScope (some c) f && afterLast last f) := by
  apply eq_of_sorted_of_mem_iff (fun f : Frame => f.id)
  · -- the scan result is ascending in id
    unfold State.iterFrames
    simp only
    refine List.Pairwise.filterMap _ ?_ (List.Pairwise.and_mem.1 (sorted_range h.sC))
    rintro ⟨k, u⟩ ⟨k', u'⟩ ⟨hm, hm', hlt⟩ b hb b' hb'
    have hk := (Part.mem_range _).1 hm
    have hk' := (Part.mem_range _).1 hm'
    obtain ⟨g, hg, rfl⟩ := (h.cKeys k).1 (by cases u; exact hk.1)
    obtain ⟨g', hg', rfl⟩ := (h.cKeys k').1 (by cases u'; exact hk'.1)
    have wg := h.wfFrame hg
    have wg' := h.wfFrame hg'
    simp only [ctxKey_length, if_true, idOfCtxKey_ctxKey wg.id_lt, idOfCtxKey_ctxKey wg'.id_lt] at hb hb'
    rw [h.get_of_mem hg] at hb
    rw [h.get_of_mem hg'] at hb'
    injection hb with hb; injection hb' with hb'
    subst hb hb'
    have e1 := (ctx_range_exact last hc wg.ctx_lt wg.id_lt hl).1 (by simpa using hk.2)
    have e2 := (ctx_range_exact last hc wg'.ctx_lt wg'.id_lt hl).1 (by simpa using hk'.2)
    simp only at hlt
    rw [e1.1, e2.1] at hlt
    rcases (ctxKey_lt_iff (by omega) (by omega) wg.id_lt wg'.id_lt).1 hlt with h1 | h1
    · omega
    · exact h1.2
  · exact pairwise_filter_of _ (frames_sorted h)
  · intro f
    unfold State.iterFrames
    simp only [List.mem_filterMap, List.mem_filter]
    constructor
    · rintro ⟨⟨k, u⟩, hm, hgk⟩
      have hk := (Part.mem_range _).1 hm
      obtain ⟨g, hg, rfl⟩ := (h.cKeys k).1 (by cases u; exact hk.1)
      have wg := h.wfFrame hg
      simp only [ctxKey_length, if_true, idOfCtxKey_ctxKey wg.id_lt] at hgk
      rw [h.get_of_mem hg] at hgk
      injection hgk with hgk; subst hgk
      have e1 := (ctx_range_exact last hc wg.ctx_lt wg.id_lt hl).1 (by simpa using hk.2)
      refine ⟨hg, ?_⟩
      simp only [inScope, afterLast, Bool.and_eq_true, decide_eq_true_eq]
      refine ⟨e1.1, ?_⟩
      cases last with
      | none => rfl
      | some l => simpa using e1.2 l rfl
    · rintro ⟨hf, hsc⟩
      have wf := h.wfFrame hf
      simp only [inScope, Bool.and_eq_true, decide_eq_true_eq] at hsc
      refine ⟨(ctxKey f.ctx f.id, ()), (Part.mem_range _).2 ⟨(h.cKeys _).2 ⟨f, hf, rfl⟩, ?_⟩, ?_⟩
      · have := (ctx_range_exact (c' := f.ctx) (i := f.id) last hc wf.ctx_lt wf.id_lt hl).2
          ⟨hsc.1, by
            intro l hl'
            subst hl'
            simpa [afterLast] using hsc.2⟩
        simpa using this
      · simp only [ctxKey_length, if_true, idOfCtxKey_ctxKey wf.id_lt]
        exact h.get_of_mem hf

/-! ### expiry filter and limit -/

/-- frames that carry no elapsed `time:N` ttl -/
def liveAt (now : Nat) (f : Frame) : Bool := !f.expired now

theorem readSyncGo_frames (now : Nat) (n : Nat) (l : List Frame) :
    (readSyncGo now n l).1 = (l.filter (liveAt now)).take n := by
  induction l generalizing n with
  | nil => cases n <;> simp [readSyncGo]
  | cons f r ih =>
    cases n with
    | zero => simp [readSyncGo]
    | succ n =>
      unfold readSyncGo
      by_cases he : f.expired now = true
      · simp only [he, if_true]
        rw [ih]
        simp [liveAt, he]
      · simp only [he, Bool.false_eq_true, if_false]
        rw [ih]
        have : liveAt now f = true := by simp [liveAt, he]
        simp [List.filter_cons, this]

/-- `Remove` tasks are queued only for frames found expired during the read -/
theorem readSyncGo_tasks (now : Nat) (n : Nat) (l : List Frame) :
    ∀ t ∈ (readSyncGo now n l).2, ∃ f ∈ l, t = GCTask.remove f.id ∧ f.expired now = true := by
  induction l generalizing n with
  | nil => cases n <;> simp [readSyncGo]
  | cons f r ih =>
    cases n with
    | zero => simp [readSyncGo]
    | succ n =>
      unfold readSyncGo
      by_cases he : f.expired now = true
      · simp only [he, if_true]
        intro t ht
        rcases List.mem_cons.1 ht with e | e
        · exact ⟨f, by simp, e, he⟩
        · obtain ⟨g, hg, h1, h2⟩ := ih _ t e
          exact ⟨g, List.mem_cons_of_mem _ hg, h1, h2⟩
      · simp only [he, Bool.false_eq_true, if_false]
        intro t ht
        obtain ⟨g, hg, h1, h2⟩ := ih _ t ht
        exact ⟨g, List.mem_cons_of_mem _ hg, h1, h2⟩

theorem readHistGo_frames (now : Nat) (limit : Option Nat) (count : Nat) (l : List Frame) :
    (readHistGo now limit count l).1 =
      match limit with
      | none => l.filter (liveAt now)
      | some n => (l.filter (liveAt now)).take (n - count) := by
  induction l generalizing count with
  | nil => cases limit <;> simp [readHistGo]
  | cons f r ih =>
    unfold readHistGo
    by_cases he : f.expired now = true
    · simp only [he, if_true]
      rw [ih]
      cases limit <;> simp [liveAt, he]
    · simp only [he, Bool.false_eq_true, if_false]
      have hl : liveAt now f = true := by simp [liveAt, he]
      cases limit with
      | none => simp [ih, List.filter_cons, hl]
      | some n =>
        by_cases hn : n ≤ count
        · have : n - count = 0 := by omega
          simp [hn, this]
        · simp only [hn, decide_false, Bool.false_eq_true, if_false]
          rw [ih]
          have : n - count = (n - (count + 1)) + 1 := by omega
          simp [List.filter_cons, hl, this]

theorem readHistGo_tasks (now : Nat) (limit : Option Nat) (count : Nat) (l : List Frame) :
    ∀ t ∈ (readHistGo now limit count l).2, ∃ f ∈ l, t = GCTask.remove f.id ∧ f.expired now = true := by
  induction l generalizing count with
  | nil => simp [readHistGo]
  | cons f r ih =>
    unfold readHistGo
    by_cases he : f.expired now = true
    · simp only [he, if_true]
      intro t ht
      rcases List.mem_cons.1 ht with e | e
      · exact ⟨f, by simp, e, he⟩
      · obtain ⟨g, hg, h1, h2⟩ := ih _ t e
        exact ⟨g, List.mem_cons_of_mem _ hg, h1, h2⟩
    · simp only [he, Bool.false_eq_true, if_false]
      cases limit with
      | none =>
        simp only [Bool.false_eq_true, if_false]
        intro t ht
        obtain ⟨g, hg, h1, h2⟩ := ih _ t ht
        exact ⟨g, List.mem_cons_of_mem _ hg, h1, h2⟩
      | some n =>
        by_cases hn : n ≤ count
        · simp [hn]
        · simp only [hn, decide_false, Bool.false_eq_true, if_false]
          intro t ht
          obtain ⟨g, hg, h1, h2⟩ := ih _ t ht
          exact ⟨g, List.mem_cons_of_mem _ hg, h1, h2⟩

/-- the frames a read is specified to return: stored, in scope, after `last-id`, not expired;
    in id order; cut to the limit -/
def liveHistory (s : State) (ctx last : Option Nat) (now : Nat) : List Frame :=
  (frames s).filter (fun f => inScope ctx f && afterLast last f && liveAt now f)

def cut (limit : Option Nat) (l : List Frame) : List Frame :=
  match limit with
  | none => l
  | some n => l.take n

/-- hypotheses under which the scans are exact: ids are 128-bit -/
structure WfRead (ctx last : Option Nat) : Prop where
  ctx_ok : ∀ c, ctx = some c → c < idBound
  last_ok : ∀ l, last = some l → l < idBound

theorem iterFrames_spec {s : State} (h : InvK s) {ctx last : Option Nat} (w : WfRead ctx last) :
    s.iterFrames ctx last = (frames s).filter (fun f => inScope ctx f && afterLast last f) := by
  cases ctx with
  | none =>
    rw [iterFrames_all h last w.last_ok]
    apply List.filter_congr; intro f _; simp [inScope]
  | some c => exact iterFrames_ctx h c last (w.ctx_ok c rfl) w.last_ok

theorem filter_liveAt_iter {s : State} (h : InvK s) {ctx last : Option Nat} (w : WfRead ctx last)
    (now : Nat) : (s.iterFrames ctx last).filter (liveAt now) = liveHistory s ctx last now := by
  rw [iterFrames_spec h w, List.filter_filter, liveHistory]
  apply List.filter_congr; intro f _
  cases inScope ctx f <;> cases afterLast last f <;> cases liveAt now f <;> rfl

/-- C01, synchronous path -/
theorem readSync_spec {s : State} (h : InvK s) {ctx last : Option Nat} (w : WfRead ctx last)
    (limit : Option Nat) (now : Nat) :
    (s.readSync ctx last limit now).2 = cut limit (liveHistory s ctx last now) := by
  unfold State.readSync
  simp only
  rw [readSyncGo_frames, filter_liveAt_iter h w]
  cases limit with
  | none =>
    simp only [Option.getD, cut]
    apply List.take_of_length_le
    rw [← filter_liveAt_iter h w]
    exact List.length_filter_le _ _
  | some n => simp [cut]

/-- C01, streaming path without follow -/
theorem readHist_spec {s : State} (h : InvK s) {ctx last : Option Nat} (w : WfRead ctx last)
    (limit : Option Nat) (now : Nat) :
    (s.readHist ctx last limit now).2 = cut limit (liveHistory s ctx last now) := by
  unfold State.readHist
  simp only
  rw [readHistGo_frames, ← filter_liveAt_iter h w]
  cases limit <;> simp [cut]

theorem liveHistory_sorted {s : State} (h : InvK s) (ctx last : Option Nat) (now : Nat) :
    (liveHistory s ctx last now).Pairwise (fun a b => a.id < b.id) :=
  pairwise_filter_of _ (frames_sorted h)

theorem cut_sublist (limit : Option Nat) (l : List Frame) : (cut limit l).Sublist l := by
  cases limit with
  | none => exact List.Sublist.refl _
  | some n => exact List.take_sublist _ _

/-- by-id lookup returns exactly the stored frame -/
theorem get_spec {s : State} (h : InvK s) {i : Nat} (hi : i < idBound) (f : Frame) :
    s.get i = some f ↔ f ∈ frames s ∧ f.id = i := by
  rw [h.get_eq_some_iff]
  constructor
  · rintro ⟨hf, e⟩; exact ⟨hf, idKey_inj (h.wfFrame hf).id_lt hi e⟩
  · rintro ⟨hf, e⟩; exact ⟨hf, by rw [e]⟩

/-! ### head -/

/-- the stored frames of one (context, topic), oldest first -/
def topicFrames (s : State) (c : Nat) (t : List Nat) : List Frame :=
  (frames s).filter (fun f => decide (f.ctx = c) && decide (f.topic = t))

/-- the prefix scan `ctx‖topic‖0x00` of the topic index, resolved through the primary
    partition, is exactly the stored frames of that context and topic, oldest first -/
theorem topicScan_frames {s : State} (h : InvK s) {t : List Nat} {c : Nat} (ht : NulFree t)
    (hc : c < idBound) :
    (Part.scanPrefix (topicPrefix c t) s.idxT).filterMap (fun kv => s.get (idOfTopicKey kv.1)) =
      topicFrames s c t := by
  apply eq_of_sorted_of_mem_iff (fun f : Frame => f.id)
  · refine List.Pairwise.filterMap _ ?_ (List.Pairwise.and_mem.1 (sorted_scanPrefix h.sT))
    rintro ⟨k, u⟩ ⟨k', u'⟩ ⟨hm, hm', hlt⟩ b hb b' hb'
    have hk := (Part.mem_scanPrefix _).1 hm
    have hk' := (Part.mem_scanPrefix _).1 hm'
    obtain ⟨g, hg, rfl⟩ := (h.tKeys k).1 (by cases u; exact hk.1)
    obtain ⟨g', hg', rfl⟩ := (h.tKeys k').1 (by cases u'; exact hk'.1)
    have wg := h.wfFrame hg
    have wg' := h.wfFrame hg'
    simp only [idOfTopicKey_topicKey wg.id_lt, idOfTopicKey_topicKey wg'.id_lt] at hb hb'
    rw [h.get_of_mem hg] at hb
    rw [h.get_of_mem hg'] at hb'
    injection hb with hb; injection hb' with hb'
    subst hb hb'
    obtain ⟨e1, e2⟩ := (topicPrefix_isPrefixOf_topicKey hc wg.ctx_lt ht wg.nul).1 hk.2
    obtain ⟨e1', e2'⟩ := (topicPrefix_isPrefixOf_topicKey hc wg'.ctx_lt ht wg'.nul).1 hk'.2
    simp only at hlt
    rw [← e1, ← e2, ← e1', ← e2'] at hlt
    exact (topicKey_lt_iff wg.id_lt wg'.id_lt).1 hlt
  · exact pairwise_filter_of _ (frames_sorted h)
  · intro f
    simp only [topicFrames, List.mem_filterMap, List.mem_filter]
    constructor
    · rintro ⟨⟨k, u⟩, hm, hgk⟩
      have hk := (Part.mem_scanPrefix _).1 hm
      obtain ⟨g, hg, rfl⟩ := (h.tKeys k).1 (by cases u; exact hk.1)
      have wg := h.wfFrame hg
      simp only [idOfTopicKey_topicKey wg.id_lt] at hgk
      rw [h.get_of_mem hg] at hgk
      injection hgk with hgk; subst hgk
      obtain ⟨e1, e2⟩ := (topicPrefix_isPrefixOf_topicKey hc wg.ctx_lt ht wg.nul).1 hk.2
      exact ⟨hg, by simp [e1, e2]⟩
    · rintro ⟨hf, hsc⟩
      have wf := h.wfFrame hf
      simp only [Bool.and_eq_true, decide_eq_true_eq] at hsc
      refine ⟨(topicKey f.ctx f.topic f.id, ()), (Part.mem_scanPrefix _).2
        ⟨(h.tKeys _).2 ⟨f, hf, rfl⟩, ?_⟩, ?_⟩
      · exact (topicPrefix_isPrefixOf_topicKey hc wf.ctx_lt ht wf.nul).2 ⟨hsc.1.symm, hsc.2.symm⟩
      · simp only [idOfTopicKey_topicKey wf.id_lt]
        exact h.get_of_mem hf

/-- the ids the gc scan sees for a topic are the ids of its stored frames, oldest first -/
theorem topicScan_ids {s : State} (h : InvK s) {t : List Nat} {c : Nat} (ht : NulFree t)
    (hc : c < idBound) :
    (Part.scanPrefix (topicPrefix c t) s.idxT).map (fun kv => idOfTopicKey kv.1) =
      (topicFrames s c t).map (·.id) := by
  rw [← topicScan_frames h ht hc]
  have key : ∀ l : List (Key × Unit), (∀ kv ∈ l, kv ∈ Part.scanPrefix (topicPrefix c t) s.idxT) →
      l.map (fun kv => idOfTopicKey kv.1) =
        (l.filterMap (fun kv => s.get (idOfTopicKey kv.1))).map (·.id) := by
    intro l
    induction l with
    | nil => intro _; rfl
    | cons a l ih =>
      intro hl
      have ha := hl a (by simp)
      have hk := (Part.mem_scanPrefix _).1 ha
      obtain ⟨k, u⟩ := a
      obtain ⟨g, hg, rfl⟩ := (h.tKeys k).1 (by cases u; exact hk.1)
      have wg := h.wfFrame hg
      have : s.get (idOfTopicKey (topicKey g.ctx g.topic g.id)) = some g := by
        rw [idOfTopicKey_topicKey wg.id_lt]; exact h.get_of_mem hg
      simp only [List.map_cons, List.filterMap_cons, this]
      rw [ih (fun kv hkv => hl kv (List.mem_cons_of_mem _ hkv)), idOfTopicKey_topicKey wg.id_lt]
  exact key _ (fun _ h => h)

/-- C05: `head(topic, ctx)` is the newest stored frame of exactly that context and topic -/
theorem head_spec {s : State} (h : InvK s) {t : List Nat} {c : Nat} (ht : NulFree t)
    (hc : c < idBound) : s.head t c = (topicFrames s c t).getLast? := by
  unfold State.head
  rw [hasNul_eq_false_iff.2 ht]
  simp only [Bool.false_eq_true, if_false]
  rw [findSome?_reverse, topicScan_frames h ht hc]

/-- a queried topic containing NUL has no head (no stored topic contains NUL) -/
theorem head_nul {s : State} {t : List Nat} {c : Nat} (ht : hasNul t = true) : s.head t c = none := by
  simp [State.head, ht]

/-! ### reopen and whole histories -/

theorem mem_foldl_ctxInsert (l : List Frame) (init : List Nat) (c : Nat) :
    c ∈ l.foldl (fun acc f => ctxInsert f.id acc) init ↔ c ∈ init ∨ ∃ f ∈ l, f.id = c := by
  induction l generalizing init with
  | nil => simp
  | cons a l ih =>
    simp only [List.foldl_cons, ih, mem_ctxInsert, List.mem_cons]
    constructor
    · rintro ((e | h) | ⟨f, hf, e⟩)
      · exact Or.inr ⟨a, Or.inl rfl, e.symm⟩
      · exact Or.inl h
      · exact Or.inr ⟨f, Or.inr hf, e⟩
    · rintro (h | ⟨f, hf | hf, e⟩)
      · exact Or.inl (Or.inr h)
      · subst hf; exact Or.inl (Or.inl e.symm)
      · exact Or.inr ⟨f, hf, e⟩

theorem nodup_foldl_ctxInsert (l : List Frame) (init : List Nat) (h : init.Nodup) :
    (l.foldl (fun acc f => ctxInsert f.id acc) init).Nodup := by
  induction l generalizing init with
  | nil => exact h
  | cons a l ih => exact ih _ (nodup_ctxInsert h)

/-- C07: after a restart the registry is again the function of the stored frames -/
theorem reopen_inv {s : State} (h : InvK s) : Inv s.reopen := by
  have hK : InvK s.reopen := invK_congr h rfl rfl rfl
  refine ⟨hK, ?_, ?_⟩
  · exact nodup_foldl_ctxInsert _ _ (by simp)
  · intro c
    have hf : frames s.reopen = frames s := rfl
    show c ∈ List.foldl (fun l f => ctxInsert f.id l) [0]
        ((s.iterFrames (some 0) none).filter (fun f => decide (f.topic = xsContext))) ↔ _
    rw [mem_foldl_ctxInsert, iterFrames_ctx h 0 none (by decide) (by intro l hl; cases hl), hf]
    simp only [List.mem_singleton, List.mem_filter, inScope, afterLast, Bool.and_true,
      decide_eq_true_eq, Frame.isReg, Bool.and_eq_true]
    constructor
    · rintro (e | ⟨f, ⟨⟨hf, hc⟩, ht⟩, e⟩)
      · exact Or.inl e
      · exact Or.inr ⟨f, hf, e, ht, hc⟩
    · rintro (e | ⟨f, hf, e, ht, hc⟩)
      · exact Or.inl e
      · exact Or.inr ⟨f, ⟨⟨hf, hc⟩, ht⟩, e⟩

/-- numeric well-formedness of the inputs of an operation: ids and context ids are 128-bit.
    (Nothing else is assumed of a history.) -/
def WfOp : Op → Prop
  | .append f id => id < idBound ∧ f.ctx < idBound
  | .importF f => f.id < idBound ∧ f.ctx < idBound
  | .remove id => id < idBound
  | _ => True

theorem step_inv {s : State} (h : Inv s) {op : Op} (w : WfOp op) : Inv (s.step op) := by
  cases op with
  | append f id =>
    simp only [State.step]
    cases e : s.append f id with
    | error _ => exact h
    | ok r => obtain ⟨s', f'⟩ := r; exact append_inv h w.1 w.2 e
  | importF f =>
    simp only [State.step]
    cases e : s.insertFrame f with
    | error _ => exact h
    | ok s' => exact insertFrame_inv h w.1 w.2 e
  | remove id => exact remove_inv h id
  | readSync c l n now => exact readSync_inv h c l n now
  | readHist c l n now => exact readHist_inv h c l n now
  | gc => exact gcStep_inv h
  | drain => exact drain_inv h
  | reopen => exact reopen_inv h.k

/-- the invariant holds after every history -/
theorem run_inv {s : State} (h : Inv s) (ops : List Op) (w : ∀ op ∈ ops, WfOp op) :
    Inv (s.run ops) := by
  induction ops generalizing s with
  | nil => exact h
  | cons op ops ih =>
    exact ih (step_inv h (w op (by simp))) (fun o ho => w o (List.mem_cons_of_mem _ ho))

theorem reachable_inv (ops : List Op) (w : ∀ op ∈ ops, WfOp op) : Inv (State.init.run ops) :=
  run_inv inv_init ops w

end Xs
