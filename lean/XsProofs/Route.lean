import XsModel.Route
import XsProofs.Ops
namespace Xs.Http
open Xs.Wire

theorem casGet_casPut_self (cas : List (String × List Nat)) (h : String) (b : List Nat)
    (hfree : ∀ b', casGet cas h = some b' → b' = b) : casGet (casPut cas h b) h = some b := by
  unfold casPut
  cases hg : casGet cas h with
  | some b' => simp [hg]; exact hfree b' hg
  | none =>
    simp only [hg, Option.isSome_none, Bool.false_eq_true, if_false]
    unfold casGet at hg ⊢
    rw [List.find?_append]
    simp only [Option.map_eq_none_iff] at hg
    simp [hg]

theorem casGet_casPut_other (cas : List (String × List Nat)) (h h' : String) (b : List Nat) (b0 : List Nat)
    (hg : casGet cas h' = some b0) : casGet (casPut cas h b) h' = some b0 := by
  unfold casPut
  split
  · exact hg
  · unfold casGet at hg ⊢
    rw [List.find?_append]
    cases hf : cas.find? (fun kv => kv.1 = h') with
    | none => rw [hf] at hg; cases hg
    | some kv => rw [hf] at hg; simpa using hg

/-- content once written stays retrievable -/
theorem cas_monotone (s : Srv) (r : Request) (h : String) (b : List Nat) (hg : casGet s.cas h = some b) :
    casGet (handle s r).1.cas h = some b := by
  have hput : ∀ (c : Bool) (h2 : String) (b2 : List Nat),
      casGet (if c then s.cas else casPut s.cas h2 b2) h = some b := by
    intro c h2 b2
    cases c
    · exact casGet_casPut_other _ _ _ _ _ hg
    · exact hg
  unfold handle
  split
  · exact hg
  · exact hg
  · exact hg
  · unfold handleCat; split
    · split <;> exact hg
    · split <;> exact hg
  · exact hg
  · exact hg
  · unfold handleHead; split <;> exact hg
  · exact hg
  · unfold handleCasPost; split
    · exact hg
    · unfold handleCasPostRead; split
      · exact hg
      · exact casGet_casPut_other _ _ _ _ _ hg
  · unfold handleImport; split
    · exact hg
    · unfold handleImportRead; split
      · exact hg
      · split <;> exact hg
  · unfold handleAppend
    split
    · exact hg
    · unfold handleAppendRead
      simp only
      split
      · exact hput _ _ _
      · split <;> exact hput _ _ _

/-- C13: a request answered with a client error leaves the stream exactly as it was -/
theorem client_error_no_effect (s : Srv) (r : Request) (he : 400 ≤ (handle s r).2.status) :
    (handle s r).1.store = s.store := by
  unfold handle at he ⊢
  cases hm : matchRoute r with
  | version => rfl
  | notFound => rfl
  | badRequest => rfl
  | streamCat sse o =>
    rw [hm] at he; simp only at he ⊢
    unfold handleCat at he ⊢
    by_cases hf : followOf o.follow = true
    · by_cases ht : o.tail = true
      · simp [hf, ht]
      · simp [hf, ht, Resp.status] at he
    · by_cases ht : o.tail = true
      · simp [hf, ht]
      · simp [hf, ht, Resp.status] at he
  | itemGet id => rfl
  | itemRemove id => rw [hm] at he; simp [Resp.status] at he
  | headGet topic follow ctx => simp only; unfold handleHead; split <;> rfl
  | casGet h => rfl
  | casPost =>
    simp only; unfold handleCasPost; split
    · rfl
    · unfold handleCasPostRead; split <;> rfl
  | importR =>
    rw [hm] at he; simp only at he ⊢
    unfold handleImport at he ⊢
    by_cases hbb : r.bodyBroken = true
    · simp [hbb]
    simp only [hbb, Bool.false_eq_true, if_false] at he ⊢
    unfold handleImportRead at he ⊢
    cases hb : r.importBody with
    | badJson => rfl
    | frame f =>
      rw [hb] at he; simp only at he ⊢
      cases hi : s.store.insertFrame f with
      | ok st => rw [hi] at he; simp [Resp.status] at he
      | error e => rfl
  | streamAppend topic ttl ctx =>
    rw [hm] at he; simp only at he ⊢
    unfold handleAppend at he ⊢
    by_cases hbb : r.bodyBroken = true
    · simp [hbb]
    simp only [hbb, Bool.false_eq_true, if_false] at he ⊢
    unfold handleAppendRead at he ⊢
    simp only at he ⊢
    split
    · rfl
    · rename_i m hmeta
      rw [hmeta] at he
      simp only at he
      split
      · rename_i st f happ
        rw [happ] at he
        simp [Resp.status] at he
      · rfl

/-- C10: an append without a body yields a frame without a hash; with a body, the frame's hash
    is the hash the content was stored under, and that content is retrievable -/
theorem append_hash (s : Srv) (r : Request) (topic : List Nat) (ttl : TTL) (ctx : Nat) (f : Frame)
    (hr : (handleAppend s r topic ttl ctx).2 = .frame f)
    (hfree : ∀ b', casGet s.cas r.bodyHash = some b' → b' = r.body) :
    (r.body.isEmpty = true → f.hash = none) ∧
    (r.body.isEmpty = false → f.hash = some r.bodyHash ∧
      casGet (handleAppend s r topic ttl ctx).1.cas r.bodyHash = some r.body) := by
  unfold handleAppend at hr ⊢
  by_cases hbb : r.bodyBroken = true
  · simp [hbb] at hr
  simp only [hbb, Bool.false_eq_true, if_false] at hr ⊢
  unfold handleAppendRead at hr ⊢
  simp only at hr ⊢
  split at hr
  · cases hr
  · rename_i m _
    split at hr
    · rename_i st f' happ
      injection hr with hr; subst hr
      have hf := (append_spec.1 happ).2.2.1
      constructor
      · intro he; rw [hf]; simp [stamped, he]
      · intro he
        rw [hf]
        refine ⟨by simp [stamped, he], ?_⟩
        simp only [he, Bool.false_eq_true, if_false]
        exact casGet_casPut_self _ _ _ hfree
    · cases hr

end Xs.Http
