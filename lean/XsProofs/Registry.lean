import XsModel.Registry
import XsProofs.ListAux
import XsProofs.Handler
namespace Xs.Serve
open Xs

/-! ### `rsplit_once('.')` -/

theorem rsplitDotAux_spec' (l a acc : List Char) (hl : '.' ∉ l) :
    rsplitDotAux (l ++ '.' :: a) acc = some (a.reverse, l.reverse ++ acc) := by
  induction l generalizing acc with
  | nil => simp [rsplitDotAux]
  | cons c l ih =>
    have hc : c ≠ '.' := by intro h; apply hl; simp [h]
    have hl' : '.' ∉ l := by intro h; apply hl; simp [h]
    simp only [List.cons_append, rsplitDotAux, hc, if_false]
    rw [ih _ hl']
    simp

theorem rsplitDotAux_spec (b a acc : List Char) (hb : '.' ∉ b) :
    rsplitDotAux (b.reverse ++ '.' :: a) acc = some (a.reverse, b ++ acc) := by
  have := rsplitDotAux_spec' b.reverse a acc (by simpa using hb)
  simpa using this

/-- the law the serve loops rely on: `<name>.<suffix>` splits into name and suffix when the
    suffix has no dot (the name may) -/
theorem rsplitDot_append (a b : List Char) (hb : '.' ∉ b) : rsplitDot (a ++ '.' :: b) = some (a, b) := by
  unfold rsplitDot
  have : (a ++ '.' :: b).reverse = b.reverse ++ '.' :: a.reverse := by simp
  rw [this, rsplitDotAux_spec b a.reverse [] hb]
  simp

theorem rsplitDotAux_inv (l acc a b : List Char) (h : rsplitDotAux l acc = some (a, b)) :
    ∃ b0, b = b0 ++ acc ∧ l = b0.reverse ++ '.' :: a.reverse ∧ '.' ∉ b0 := by
  induction l generalizing acc with
  | nil => simp [rsplitDotAux] at h
  | cons c rest ih =>
    unfold rsplitDotAux at h
    split at h
    · rename_i hc
      injection h with h; injection h with h1 h2
      refine ⟨[], by simp [h2], ?_, by simp⟩
      subst hc; subst h1; simp
    · rename_i hc
      obtain ⟨b0, hb, hl, hn⟩ := ih _ h
      refine ⟨b0 ++ [c], by simp [hb], by simp [hl], ?_⟩
      intro hm
      rcases List.mem_append.mp hm with hm | hm
      · exact hn hm
      · simp at hm; exact hc hm.symm

/-- and conversely: whatever it returns re-assembles to the topic, the suffix has no dot -/
theorem rsplitDot_inv (s a b : List Char) (h : rsplitDot s = some (a, b)) :
    s = a ++ '.' :: b ∧ '.' ∉ b := by
  obtain ⟨b0, hb, hl, hn⟩ := rsplitDotAux_inv _ _ _ _ h
  simp only [List.append_nil] at hb
  subst hb
  refine ⟨?_, hn⟩
  have := congrArg List.reverse hl
  simpa using this

theorem classify_append (name : String) (suffix : List Char) (hs : '.' ∉ suffix) :
    classify (name ++ String.ofList ('.' :: suffix)) = some (name, kindOf suffix) := by
  unfold classify
  have : (name ++ String.ofList ('.' :: suffix)).toList = name.toList ++ '.' :: suffix := by
    simp [String.toList_append]
  rw [this, rsplitDot_append _ _ hs]
  simp

/-! ### the table -/

theorem mem_tblRemove {t : List Entry} {k : Key} {e : Entry} : e ∈ tblRemove t k ↔ e ∈ t ∧ e.key ≠ k := by
  simp [tblRemove, List.mem_filter]

theorem mem_tblInsert {t : List Entry} {k : Key} {f : SFrame} {e : Entry} :
    e ∈ tblInsert t k f ↔ (e ∈ t ∧ e.key ≠ k) ∨ e = ⟨k, f⟩ := by
  simp [tblInsert, mem_tblRemove]

def KeysNodup (t : List Entry) : Prop := (t.map (·.key)).Nodup

theorem keysNodup_remove {t : List Entry} (h : KeysNodup t) (k : Key) : KeysNodup (tblRemove t k) := by
  unfold KeysNodup tblRemove at *
  exact (List.filter_sublist.map _).nodup h

theorem keysNodup_insert {t : List Entry} (h : KeysNodup t) (k : Key) (f : SFrame) :
    KeysNodup (tblInsert t k f) := by
  unfold KeysNodup tblInsert
  rw [List.map_append, List.nodup_append]
  refine ⟨keysNodup_remove h k, by simp, ?_⟩
  intro a ha b hb
  simp only [List.map_cons, List.map_nil, List.mem_singleton] at hb
  subst hb
  obtain ⟨e, he, rfl⟩ := List.mem_map.mp ha
  exact (mem_tblRemove.mp he).2

theorem tblGet_of_mem {t : List Entry} (h : KeysNodup t) {e : Entry} (he : e ∈ t) :
    tblGet t e.key = some e.reg := by
  unfold tblGet
  induction t with
  | nil => cases he
  | cons x rest ih =>
    simp only [List.find?_cons]
    unfold KeysNodup at h
    simp only [List.map_cons, List.nodup_cons] at h
    rcases List.mem_cons.mp he with rfl | he'
    · simp
    · have : x.key ≠ e.key := by
        intro heq; apply h.1; rw [heq]; exact List.mem_map_of_mem he'
      simp only [this, decide_false]
      exact ih h.2 he'

theorem tblGet_some {t : List Entry} {k : Key} {r : SFrame} (h : tblGet t k = some r) : ⟨k, r⟩ ∈ t := by
  unfold tblGet at h
  cases hf : t.find? (fun e => e.key = k) with
  | none => rw [hf] at h; cases h
  | some e =>
    rw [hf] at h
    simp only [Option.map_some, Option.some.injEq] at h
    have hk := List.find?_some hf
    have hm := List.mem_of_find?_eq_some hf
    simp only [decide_eq_true_eq] at hk
    cases e
    simp only at h hk
    subst h; subst hk
    exact hm

/-! ### what the start-up scan retains -/

/-- does the later historical frame `f` drop the registration `r` held under `k`? -/
def hits (k : Key) (r f : SFrame) : Bool :=
  match classify f.topic with
  | some (n, .register) => (f.ctx, n) = k
  | some (n, .unregister) => (f.ctx, n) = k
  | some (n, .unregistered) => (f.ctx, n) = k && metaGet f.mdata "handler_id" = some (idText r.id)
  | _ => false

def regOf (k : Key) (r : SFrame) : Prop := classify r.topic = some (k.2, .register) ∧ r.ctx = k.1

/-- `r` is a `.register` of key `k` somewhere in the history and nothing after it drops it -/
def Retained (h : List SFrame) (k : Key) (r : SFrame) : Prop :=
  ∃ pre post, h = pre ++ r :: post ∧ regOf k r ∧ ∀ f ∈ post, hits k r f = false

theorem retained_snoc {h : List SFrame} {k : Key} {r f : SFrame} :
    Retained (h ++ [f]) k r ↔ (Retained h k r ∧ hits k r f = false) ∨ (f = r ∧ regOf k r) := by
  constructor
  · rintro ⟨pre, post, he, hr, ha⟩
    rcases List.eq_nil_or_concat post with rfl | ⟨post0, x, rfl⟩
    · right
      have : h ++ [f] = pre ++ [r] := by simpa using he
      have := List.append_inj' this rfl
      simp at this
      exact ⟨this.2, hr⟩
    · left
      have : h ++ [f] = (pre ++ r :: post0) ++ [x] := by simp [he]
      have := List.append_inj' this rfl
      simp only [List.cons.injEq, and_true] at this
      obtain ⟨h1, h2⟩ := this
      subst h2
      refine ⟨⟨pre, post0, h1, hr, fun g hg => ha g (by simp [hg])⟩, ha f (by simp)⟩
  · rintro (⟨⟨pre, post, he, hr, ha⟩, hf⟩ | ⟨rfl, hr⟩)
    · refine ⟨pre, post ++ [f], by simp [he], hr, ?_⟩
      intro g hg
      rcases List.mem_append.mp hg with hg | hg
      · exact ha g hg
      · simp at hg; subst hg; exact hf
    · exact ⟨h, [], by simp, hr, by simp⟩

structure TblInv (h : List SFrame) (t : List Entry) : Prop where
  nodup : KeysNodup t
  spec : ∀ k r, ⟨k, r⟩ ∈ t ↔ Retained h k r

theorem hits_key {k : Key} {r f : SFrame} (h : hits k r f = true) :
    ∃ n kd, classify f.topic = some (n, kd) ∧ (f.ctx, n) = k := by
  unfold hits at h
  split at h <;> simp at h
  · exact ⟨_, _, by assumption, h⟩
  · exact ⟨_, _, by assumption, h⟩
  · exact ⟨_, _, by assumption, h.1⟩

theorem entry_mk_mem {t : List Entry} {e : Entry} : e ∈ t ↔ (⟨e.key, e.reg⟩ : Entry) ∈ t := by cases e; rfl

theorem compactStep_inv {h : List SFrame} {t : List Entry} (inv : TblInv h t) (f : SFrame) :
    TblInv (h ++ [f]) (compactStep t f) := by
  unfold compactStep
  cases hc : classify f.topic with
  | none =>
    refine ⟨inv.nodup, fun k r => ?_⟩
    rw [inv.spec, retained_snoc]
    have hh : ∀ r', hits k r' f = false := by intro r'; simp [hits, hc]
    constructor
    · intro hr; exact Or.inl ⟨hr, hh r⟩
    · rintro (⟨hr, _⟩ | ⟨rfl, hr⟩)
      · exact hr
      · have := hr.1; rw [hc] at this; cases this
  | some nk =>
    obtain ⟨n, kd⟩ := nk
    cases kd with
    | register =>
      refine ⟨keysNodup_insert inv.nodup _ _, fun k r => ?_⟩
      rw [mem_tblInsert, retained_snoc, inv.spec]
      have hh : ∀ r', hits k r' f = decide ((f.ctx, n) = k) := by intro r'; simp [hits, hc]
      constructor
      · rintro (⟨hr, hk⟩ | he)
        · left; refine ⟨hr, ?_⟩
          rw [hh]; simp only [decide_eq_false_iff_not]; exact fun e => hk e.symm
        · right
          injection he with h1 h2
          subst h1; subst h2
          exact ⟨rfl, hc, rfl⟩
      · rintro (⟨hr, hf⟩ | ⟨rfl, hr⟩)
        · left; refine ⟨hr, ?_⟩
          rw [hh] at hf; simp only [decide_eq_false_iff_not] at hf; exact fun e => hf e.symm
        · right
          obtain ⟨h1, h2⟩ := hr
          rw [hc] at h1
          injection h1 with h1; injection h1 with h1 _
          cases k; simp only at h1 h2; subst h1; subst h2; rfl
    | unregister =>
      refine ⟨keysNodup_remove inv.nodup _, fun k r => ?_⟩
      rw [mem_tblRemove, retained_snoc, inv.spec]
      have hh : ∀ r', hits k r' f = decide ((f.ctx, n) = k) := by intro r'; simp [hits, hc]
      constructor
      · rintro ⟨hr, hk⟩
        left; refine ⟨hr, ?_⟩
        rw [hh]; simp only [decide_eq_false_iff_not]; exact fun e => hk e.symm
      · rintro (⟨hr, hf⟩ | ⟨rfl, hr⟩)
        · refine ⟨hr, ?_⟩
          rw [hh] at hf; simp only [decide_eq_false_iff_not] at hf; exact fun e => hf e.symm
        · have := hr.1; rw [hc] at this; cases this
    | unregistered =>
      have hh : ∀ k' r', hits k' r' f = (decide ((f.ctx, n) = k') &&
          decide (metaGet f.mdata "handler_id" = some (idText r'.id))) := by
        intro k' r'; simp [hits, hc]
      have notnew : ∀ k r, ¬ (f = r ∧ regOf k r) := by
        rintro k r ⟨rfl, hr⟩; have := hr.1; rw [hc] at this; cases this
      -- the table is unchanged: nothing it holds is hit
      have same : (∀ k r, (⟨k, r⟩ : Entry) ∈ t → hits k r f = false) → TblInv (h ++ [f]) t := by
        intro hno
        refine ⟨inv.nodup, fun k r => ?_⟩
        rw [retained_snoc, ← inv.spec]
        constructor
        · intro hm; exact Or.inl ⟨hm, hno k r hm⟩
        · rintro (⟨hm, _⟩ | hn)
          · exact hm
          · exact absurd hn (notnew k r)
      cases hm : metaGet f.mdata "handler_id" with
      | none =>
        simp only []
        apply same
        intro k r _; rw [hh, hm]; simp
      | some hd =>
        cases hg : tblGet t (f.ctx, n) with
        | none =>
          simp only []
          rw [hg]
          simp only []
          apply same
          intro k r hmem
          rw [hh]
          by_cases hk : (f.ctx, n) = k
          · subst hk
            have := tblGet_of_mem inv.nodup hmem
            simp only at this
            rw [hg] at this; cases this
          · simp [hk]
        | some r0 =>
          simp only []
          rw [hg]
          simp only []
          split
          · rename_i heq
            refine ⟨keysNodup_remove inv.nodup _, fun k r => ?_⟩
            rw [mem_tblRemove, retained_snoc, ← inv.spec]
            constructor
            · rintro ⟨hmem, hk⟩
              left; refine ⟨hmem, ?_⟩
              rw [hh]
              have : ¬ (f.ctx, n) = k := fun e => hk e.symm
              simp [this]
            · rintro (⟨hmem, hf⟩ | hn)
              · refine ⟨hmem, ?_⟩
                intro hk
                simp only at hk
                subst hk
                have := tblGet_of_mem inv.nodup hmem
                simp only at this
                rw [hg] at this
                injection this with this
                subst this
                rw [hh, hm, heq] at hf
                simp at hf
              · exact absurd hn (notnew k r)
          · rename_i hne
            apply same
            intro k r hmem
            rw [hh]
            by_cases hk : (f.ctx, n) = k
            · subst hk
              have := tblGet_of_mem inv.nodup hmem
              simp only at this
              rw [hg] at this
              injection this with this
              subst this
              rw [hm]
              simp only [decide_true, Bool.true_and, decide_eq_false_iff_not]
              intro e; injection e with e; exact hne e
            · simp [hk]
    | other =>
      refine ⟨inv.nodup, fun k r => ?_⟩
      rw [inv.spec, retained_snoc]
      have hh : ∀ r', hits k r' f = false := by intro r'; simp [hits, hc]
      constructor
      · intro hr; exact Or.inl ⟨hr, hh r⟩
      · rintro (⟨hr, _⟩ | ⟨rfl, hr⟩)
        · exact hr
        · have := hr.1; rw [hc] at this; cases this

theorem compactTable_snoc (h : List SFrame) (f : SFrame) :
    compactTable (h ++ [f]) = compactStep (compactTable h) f := by
  simp [compactTable, List.foldl_append]

theorem compactTable_inv (h : List SFrame) : TblInv h (compactTable h) := by
  induction h using list_snoc_induction with
  | hnil =>
    refine ⟨by simp [compactTable, KeysNodup], fun k r => ?_⟩
    simp [compactTable, Retained]
  | hsnoc l a ih => rw [compactTable_snoc]; exact compactStep_inv ih a

theorem mem_insertById {f g : SFrame} {l : List SFrame} : g ∈ insertById f l ↔ g = f ∨ g ∈ l := by
  induction l with
  | nil => simp [insertById]
  | cons x rest ih =>
    unfold insertById
    split
    · simp
    · simp only [List.mem_cons, ih]
      constructor
      · rintro (h | h | h) <;> simp [h]
      · rintro (h | h | h) <;> simp [h]

theorem mem_sortById {g : SFrame} {l : List SFrame} : g ∈ sortById l ↔ g ∈ l := by
  induction l with
  | nil => simp [sortById]
  | cons x rest ih =>
    have : sortById (x :: rest) = insertById x (sortById rest) := rfl
    rw [this, mem_insertById, ih]; simp

theorem insertById_sorted {f : SFrame} {l : List SFrame} (h : l.Pairwise (fun a b => a.id ≤ b.id)) :
    (insertById f l).Pairwise (fun a b => a.id ≤ b.id) := by
  induction l with
  | nil => simp [insertById]
  | cons x rest ih =>
    unfold insertById
    split
    · rename_i hle
      refine List.Pairwise.cons ?_ h
      intro b hb
      rcases List.mem_cons.mp hb with rfl | hb
      · exact hle
      · exact Nat.le_trans hle (List.rel_of_pairwise_cons h hb)
    · rename_i hnle
      refine List.Pairwise.cons ?_ (ih (List.Pairwise.of_cons h))
      intro b hb
      rcases mem_insertById.mp hb with rfl | hb
      · omega
      · exact List.rel_of_pairwise_cons h hb

/-- C17: the retained registrations are started in id order -/
theorem sortById_sorted (l : List SFrame) : (sortById l).Pairwise (fun a b => a.id ≤ b.id) := by
  induction l with
  | nil => simp [sortById]
  | cons x rest ih => exact insertById_sorted ih

/-- C17: exactly the registrations nothing later in the history dropped are started again -/
theorem mem_compact {h : List SFrame} {r : SFrame} : r ∈ compact h ↔ ∃ k, Retained h k r := by
  unfold compact
  rw [mem_sortById, List.mem_map]
  constructor
  · rintro ⟨e, he, rfl⟩
    exact ⟨e.key, ((compactTable_inv h).spec _ _).mp (entry_mk_mem.mp he)⟩
  · rintro ⟨k, hr⟩
    exact ⟨⟨k, r⟩, ((compactTable_inv h).spec _ _).mpr hr, rfl⟩

/-- C16/C17: at most one registration per (context, name) is started -/
theorem compact_one_per_key (h : List SFrame) : KeysNodup (compactTable h) := (compactTable_inv h).nodup

/-- C17/C06: a frame of another context never drops a registration -/
theorem hits_other_context {k : Key} {r f : SFrame} (h : f.ctx ≠ k.1) : hits k r f = false := by
  unfold hits
  have : ∀ n, ¬ ((f.ctx, n) = k) := by intro n e; apply h; rw [← e]
  split <;> simp [this]

/-- C16: a later `.register` of the same key replaces the earlier one -/
theorem replaced_not_retained {pre post : List SFrame} {k : Key} {r r2 : SFrame}
    (hnd : (pre ++ r :: post).Nodup) (h2 : r2 ∈ post) (hr2 : regOf k r2) :
    ¬ Retained (pre ++ r :: post) k r := by
  rintro ⟨pre', post', he, _, ha⟩
  have hsame : pre' = pre ∧ post' = post := by
    exact split_unique hnd he
  obtain ⟨_, rfl⟩ := hsame
  have := ha r2 h2
  unfold hits at this
  rw [hr2.1] at this
  simp only [decide_eq_false_iff_not] at this
  apply this
  cases k; simp [hr2.2]

/-! ### the compaction agrees with the live handlers -/

theorem not_dot_sRegister : '.' ∉ sRegister := by decide
theorem not_dot_sUnregister : '.' ∉ sUnregister := by decide
theorem not_dot_sUnregistered : '.' ∉ sUnregistered := by decide

theorem classify_topicOf (name : String) (suffix : List Char) (hs : '.' ∉ suffix) :
    classify (topicOf name suffix) = some (name, kindOf suffix) := classify_append name suffix hs

theorem classify_inv {topic name : String} {kd : Kind} (h : classify topic = some (name, kd)) :
    ∃ b, topic = topicOf name b ∧ kindOf b = kd ∧ '.' ∉ b := by
  unfold classify at h
  cases hr : rsplitDot topic.toList with
  | none => rw [hr] at h; cases h
  | some ab =>
    obtain ⟨a, b⟩ := ab
    rw [hr] at h
    simp only [Option.some.injEq, Prod.mk.injEq] at h
    obtain ⟨hs, hn⟩ := rsplitDot_inv _ _ _ hr
    refine ⟨b, ?_, h.2, hn⟩
    rw [← h.1]
    unfold topicOf
    rw [← String.ofList_append, ← hs, String.ofList_toList]

theorem kindOf_register {b : List Char} (h : kindOf b = .register) : b = sRegister := by
  unfold kindOf at h
  split at h
  · assumption
  · split at h
    · cases h
    · split at h <;> cases h

theorem kindOf_unregister {b : List Char} (h : kindOf b = .unregister) : b = sUnregister := by
  unfold kindOf at h
  split at h
  · cases h
  · split at h
    · assumption
    · split at h <;> cases h

/-- the serve loop's split of a topic and the handler's `format!("{}.register", name)` test
    speak about the same frames -/
theorem isRegTraffic_iff (cfg : HCfg) (f : SFrame) :
    isRegTraffic cfg f = true ↔
      classify f.topic = some (cfg.name, .register) ∨ classify f.topic = some (cfg.name, .unregister) := by
  unfold isRegTraffic
  simp only [Bool.or_eq_true, decide_eq_true_eq]
  constructor
  · rintro (h | h)
    · left; rw [h, classify_topicOf _ _ not_dot_sRegister]; rfl
    · right; rw [h, classify_topicOf _ _ not_dot_sUnregister]; rfl
  · rintro (h | h)
    · obtain ⟨b, ht, hk, _⟩ := classify_inv h
      left; rw [ht, kindOf_register hk]
    · obtain ⟨b, ht, hk, _⟩ := classify_inv h
      right; rw [ht, kindOf_unregister hk]

variable {σ : Type}

/-- C17 (restart restores exactly the active handlers).  `h = pre ++ r :: post` is the stored
    stream when the server comes up again, `r` a `.register` of key `k` and `cfg` the handler made
    from it.  `inp` is everything the live instance was handed before the stop.  If
      * (cov) the instance was handed every later `.register` / `.unregister` of its key, and
      * (ann) a `<name>.unregistered` naming it is stored exactly when the instance has stopped
        (C16: each stop is announced once; quiescence: the announcement made it to the stream),
    then `r` is started again exactly when its instance was still running. -/
theorem restart_restores_active (cfg : HCfg) (eval : σ → SFrame → σ × EvalRes) (env : σ)
    (pre post inp : List SFrame) (r : SFrame) (k : Key)
    (hnd : (pre ++ r :: post).Nodup) (hr : regOf k r)
    (hname : cfg.name = k.2) (hctx : cfg.ctx = k.1) (hid : cfg.id = r.id)
    (later : ∀ f ∈ post, r.id < f.id)
    (cov : ∀ f ∈ post, f.ctx = k.1 → isRegTraffic cfg f = true → f ∈ inp)
    (ann : (∃ f ∈ post, classify f.topic = some (k.2, .unregistered) ∧ f.ctx = k.1 ∧
              metaGet f.mdata "handler_id" = some (idText r.id)) ↔
           (run cfg eval .running env inp).1 = .stopped) :
    r ∈ compact (pre ++ r :: post) ↔ (run cfg eval .running env inp).1 = .running := by
  rw [mem_compact]
  constructor
  · rintro ⟨k', pre', post', he, hr', ha⟩
    obtain ⟨_, rfl⟩ := split_unique hnd he
    have hk : k' = k := by
      have h1 := hr'.1; rw [hr.1] at h1
      injection h1 with h1; injection h1 with h1 _
      have h2 : k'.1 = k.1 := by rw [← hr'.2, ← hr.2]
      cases k; cases k'; simp only at h1 h2; rw [h1, h2]
    subst hk
    cases hs : (run cfg eval .running env inp).1 with
    | running => rfl
    | stopped =>
      obtain ⟨f, hf, hc, hx, hm⟩ := ann.mpr hs
      have := ha f hf
      unfold hits at this
      rw [hc] at this
      cases k'
      simp only at hx
      simp [hx, hm] at this
  · intro hrun
    refine ⟨k, pre, post, rfl, hr, ?_⟩
    intro f hf
    cases hh : hits k r f with
    | false => rfl
    | true =>
      exfalso
      unfold hits at hh
      split at hh
      · rename_i n hc
        simp only [decide_eq_true_eq] at hh
        have hn : n = k.2 := by rw [← hh]
        have hfc : f.ctx = k.1 := by rw [← hh]
        have : isRegTraffic cfg f = true := (isRegTraffic_iff cfg f).mpr (Or.inl (by rw [hc, hn, hname]))
        have hs := run_stopped_of_regtraffic cfg eval .running env inp f (cov f hf hfc this) this
          (by rw [hid]; exact later f hf)
        rw [hs] at hrun; cases hrun
      · rename_i n hc
        simp only [decide_eq_true_eq] at hh
        have hn : n = k.2 := by rw [← hh]
        have hfc : f.ctx = k.1 := by rw [← hh]
        have : isRegTraffic cfg f = true := (isRegTraffic_iff cfg f).mpr (Or.inr (by rw [hc, hn, hname]))
        have hs := run_stopped_of_regtraffic cfg eval .running env inp f (cov f hf hfc this) this
          (by rw [hid]; exact later f hf)
        rw [hs] at hrun; cases hrun
      · rename_i n hc
        simp only [Bool.and_eq_true, decide_eq_true_eq] at hh
        have hn : n = k.2 := by rw [← hh.1]
        have hfc : f.ctx = k.1 := by rw [← hh.1]
        have hs := ann.mp ⟨f, hf, by rw [hc, hn], hfc, hh.2⟩
        rw [hs] at hrun; cases hrun
      · cases hh

/-- C17: a registration whose script was rejected (announced by `<name>.unregistered` naming it)
    is never started again -/
theorem invalid_never_restored (pre post : List SFrame) (r f : SFrame) (k : Key)
    (hnd : (pre ++ r :: post).Nodup) (hf : f ∈ post)
    (hc : classify f.topic = some (k.2, .unregistered)) (hx : f.ctx = k.1)
    (hm : metaGet f.mdata "handler_id" = some (idText r.id)) :
    ¬ Retained (pre ++ r :: post) k r := by
  rintro ⟨pre', post', he, _, ha⟩
  obtain ⟨_, rfl⟩ := split_unique hnd he
  have := ha f hf
  unfold hits at this
  rw [hc] at this
  cases k
  simp only at hx
  simp [hx, hm] at this

/-- C16: the announcement comes after the subscription: whatever is appended once
    `<name>.registered` is in the stream lies in the live part of the instance's subscription -/
theorem subscribed_before_announced (parse : SFrame → Except String (HCfg × Resume)) (name : String)
    (stream : List SFrame) (r : SFrame) (s' : List SFrame) (st : Started)
    (h : startHandler parse name stream r = (s', some st)) (later : List SFrame) :
    (s' ++ later).drop st.subAt = registeredFrame st.cfg :: later := by
  unfold startHandler at h
  split at h
  · split at h
    · injection h with _ h2; cases h2
    · injection h with h1 h2
      injection h2 with h2
      subst h1; subst h2
      simp
  · injection h with _ h2; cases h2

/-- C16: a tail handler that starts has no registration traffic of its name between its own
    `.register` and its subscription: whatever replaces or unregisters it comes live -/
theorem started_tail_not_superseded (parse : SFrame → Except String (HCfg × Resume)) (name : String)
    (stream : List SFrame) (r : SFrame) (s' : List SFrame) (st : Started)
    (h : startHandler parse name stream r = (s', some st)) (ht : st.resume = .tail) :
    ∀ f ∈ stream, f.ctx = st.cfg.ctx → st.cfg.id < f.id → isRegTraffic st.cfg f = false := by
  unfold startHandler at h
  split at h
  · rename_i cfg resume _
    split at h
    · injection h with _ h2; cases h2
    · rename_i hnone
      injection h with _ h2
      injection h2 with h2
      subst h2
      simp only at ht
      subst ht
      simp only [if_true] at hnone
      intro f hf hc hi
      unfold laterTraffic at hnone
      have := List.find?_eq_none.mp hnone f hf
      simp only [hc, hi, decide_true, Bool.true_and, Bool.not_eq_true] at this
      exact this
  · injection h with _ h2; cases h2

/-- C16: a tail handler whose name was registered again or unregistered before it subscribed
    never starts; its stop is announced once -/
theorem superseded_never_starts (parse : SFrame → Except String (HCfg × Resume)) (name : String)
    (stream : List SFrame) (r : SFrame) (cfg : HCfg) (f : SFrame)
    (hp : parse r = .ok (cfg, .tail)) (hl : laterTraffic cfg stream = some f) :
    startHandler parse name stream r = (stream ++ [unregistered cfg f none], none) := by
  simp [startHandler, hp, hl]

/-- C16: a rejected script is announced by exactly one `<name>.unregistered` naming the register
    frame, and no instance exists -/
theorem rejected_announced (parse : SFrame → Except String (HCfg × Resume)) (name : String)
    (stream : List SFrame) (r : SFrame) (e : String) (h : parse r = .error e) :
    startHandler parse name stream r = (stream ++ [rejectedFrame name r e], none) := by
  simp [startHandler, h]

/-- C16: a stopped instance announced its stop exactly once, as the last thing it ever emitted:
    the subscription splits at the stopping frame, the instance ran up to there, and its output
    is what it emitted before followed by the one `<name>.unregistered` -/
theorem stop_announced_once (cfg : HCfg) (eval : σ → SFrame → σ × EvalRes) (env : σ) (l : List SFrame)
    (hs : (run cfg eval .running env l).1 = .stopped) :
    ∃ p f q e, l = p ++ f :: q ∧ (run cfg eval .running env p).1 = .running ∧
      (run cfg eval .running env l).2.2.1 = (run cfg eval .running env p).2.2.1 ++ [unregistered cfg f e] := by
  induction l generalizing env with
  | nil => simp [run] at hs
  | cons a t ih =>
    rcases step_state_cases cfg eval env a with h1 | h1
    · have hs' : (run cfg eval .running (step cfg eval .running env a).2.1 t).1 = .stopped := by
        simpa [run, h1] using hs
      obtain ⟨p, f, q, e, hl, hr, ho⟩ := ih _ hs'
      refine ⟨a :: p, f, q, e, by simp [hl], ?_, ?_⟩
      · simpa [run, h1] using hr
      · simp only [run, h1, ho, List.append_assoc]
    · refine ⟨[], a, t, ?_⟩
      -- the step that stopped it emitted exactly the announcement
      unfold step at h1
      simp only at h1
      cases hd : dispatch cfg a with
      | skip => rw [hd] at h1; cases h1
      | stop out =>
        have hout : out = unregistered cfg a none := by
          unfold dispatch at hd
          split at hd
          · cases hd
          · split at hd
            · injection hd with hd; exact hd.symm
            · split at hd <;> cases hd
        refine ⟨none, rfl, by simp [run], ?_⟩
        simp [run, step, hd, hout, stopped_inert]
      | invoke =>
        rw [hd] at h1
        cases he : eval env a with
        | mk env' r =>
          rw [he] at h1
          cases r with
          | ok appends ret =>
            by_cases hs : (appends.map (emit cfg a) ++ retFrames cfg a ret).all storable = true
            · simp only [hs, if_true] at h1; cases h1
            · have hs' : (appends.map (emit cfg a) ++ retFrames cfg a ret).all storable = false := by simpa using hs
              refine ⟨some "unstorable output", rfl, by simp [run], ?_⟩
              simp [run, step, hd, he, hs', stopped_inert]
          | error msg =>
            refine ⟨some msg, rfl, by simp [run], ?_⟩
            simp [run, step, hd, he, stopped_inert]

/-- C16: every `.register` the serve loop gets to is answered by exactly one frame: the
    announcement `<name>.registered` (and an instance exists, subscribed at that point), or one
    `<name>.unregistered` - script rejected, or a tail handler superseded before it subscribed -
    and no instance -/
theorem start_answers_once (parse : SFrame → Except String (HCfg × Resume)) (name : String)
    (stream : List SFrame) (r : SFrame) :
    (∃ st, startHandler parse name stream r = (stream ++ [registeredFrame st.cfg], some st) ∧
        st.subAt = stream.length) ∨
    (∃ e, parse r = .error e ∧
        startHandler parse name stream r = (stream ++ [rejectedFrame name r e], none)) ∨
    (∃ cfg f, parse r = .ok (cfg, .tail) ∧ laterTraffic cfg stream = some f ∧
        startHandler parse name stream r = (stream ++ [unregistered cfg f none], none)) := by
  unfold startHandler
  cases hp : parse r with
  | error e => right; left; exact ⟨e, rfl, rfl⟩
  | ok cr =>
    obtain ⟨cfg, resume⟩ := cr
    simp only []
    cases hl : (if resume = .tail then laterTraffic cfg stream else none) with
    | none => left; exact ⟨⟨cfg, resume, stream.length⟩, rfl, rfl⟩
    | some f =>
      right; right
      have ht : resume = .tail := by
        by_cases h : resume = .tail
        · exact h
        · simp [h] at hl
      subst ht
      simp only [if_true] at hl
      exact ⟨cfg, f, rfl, hl, rfl⟩

/-- C16/C17 (`cov` of `restart_restores_active`, discharged): a started instance is handed every
    later `.register` / `.unregister` of its name and context that is ever stored - whether it
    was stored before the instance subscribed (history; impossible for a tail handler, which
    would not have started) or after (live).  `pre` is the stream when it subscribed, `ext` what
    was appended afterwards. -/
theorem started_covers (parse : SFrame → Except String (HCfg × Resume)) (name : String)
    (pre : List SFrame) (r : SFrame) (s' : List SFrame) (st : Started)
    (h : startHandler parse name pre r = (s', some st)) (ext : List SFrame) (thr f : SFrame)
    (hf : f ∈ s' ++ ext) (hctx : f.ctx = st.cfg.ctx) (hreg : isRegTraffic st.cfg f = true)
    (hlater : st.cfg.id < f.id) (hres : ∀ x, st.resume = .after x → x < f.id) :
    f ∈ subscription st.cfg st.resume pre ((s' ++ ext).drop st.subAt) thr := by
  have hdrop := subscribed_before_announced parse name pre r s' st h ext
  have hs' : s' = pre ++ [registeredFrame st.cfg] := by
    unfold startHandler at h
    split at h
    · split at h
      · injection h with _ h2; cases h2
      · injection h with h1 h2; injection h2 with h2; subst h2; exact h1.symm
    · injection h with _ h2; cases h2
  rw [hdrop]
  have hmem : f ∈ pre ∨ f ∈ registeredFrame st.cfg :: ext := by
    rw [hs'] at hf
    simp only [List.mem_append, List.mem_cons, List.not_mem_nil, or_false] at hf ⊢
    rcases hf with (hf | hf) | hf
    · exact Or.inl hf
    · exact Or.inr (Or.inl hf)
    · exact Or.inr (Or.inr hf)
  have hlive : f ∈ registeredFrame st.cfg :: ext →
      f ∈ (registeredFrame st.cfg :: ext).filter (fun g => g.ctx = st.cfg.ctx) := by
    intro hm; exact List.mem_filter.mpr ⟨hm, by simpa using hctx⟩
  unfold subscription
  cases hr : st.resume with
  | tail =>
    simp only
    rcases hmem with hp | hl
    · have := started_tail_not_superseded parse name pre r s' st h hr f hp hctx hlater
      rw [this] at hreg; cases hreg
    · exact hlive hl
  | head =>
    simp only [List.mem_append, List.mem_cons]
    rcases hmem with hp | hl
    · exact Or.inl (List.mem_filter.mpr ⟨hp, by simpa using hctx⟩)
    · exact Or.inr (Or.inr (hlive hl))
  | after x =>
    simp only [List.mem_append, List.mem_cons]
    rcases hmem with hp | hl
    · refine Or.inl (List.mem_filter.mpr ⟨List.mem_filter.mpr ⟨hp, by simpa using hctx⟩, ?_⟩)
      simpa using hres x hr
    · exact Or.inr (Or.inr (hlive hl))

/-- C16 (at most one active instance per context and name): once a later `.register` or
    `.unregister` of its name and context is in the stream, a started instance that has gone
    through its subscription is stopped - whichever resume mode, wherever the frame fell -/
theorem started_instance_replaced_is_stopped (parse : SFrame → Except String (HCfg × Resume)) (name : String)
    (pre : List SFrame) (r : SFrame) (s' : List SFrame) (st : Started)
    (h : startHandler parse name pre r = (s', some st)) (ext : List SFrame) (thr f : SFrame)
    (hf : f ∈ s' ++ ext) (hctx : f.ctx = st.cfg.ctx) (hreg : isRegTraffic st.cfg f = true)
    (hlater : st.cfg.id < f.id) (hres : ∀ x, st.resume = .after x → x < f.id)
    (eval : σ → SFrame → σ × EvalRes) (env : σ) :
    (run st.cfg eval .running env (subscription st.cfg st.resume pre ((s' ++ ext).drop st.subAt) thr)).1 = .stopped :=
  run_stopped_of_regtraffic st.cfg eval .running env _ f
    (started_covers parse name pre r s' st h ext thr f hf hctx hreg hlater hres) hreg hlater

/-- what `Handler::from_frame` guarantees about the configuration it builds: the handler's id,
    context and name are those of the `.register` frame -/
def ParseOk (parse : SFrame → Except String (HCfg × Resume)) : Prop :=
  ∀ r cfg res, parse r = .ok (cfg, res) →
    cfg.id = r.id ∧ cfg.ctx = r.ctx ∧ classify r.topic = some (cfg.name, .register)

theorem startHandler_cfg (parse : SFrame → Except String (HCfg × Resume)) (name : String)
    (pre : List SFrame) (r : SFrame) (s' : List SFrame) (st : Started)
    (h : startHandler parse name pre r = (s', some st)) :
    parse r = .ok (st.cfg, st.resume) ∧ s' = pre ++ [registeredFrame st.cfg] := by
  unfold startHandler at h
  split at h
  · rename_i cfg resume hp
    split at h
    · injection h with _ h2; cases h2
    · injection h with h1 h2; injection h2 with h2; subst h2; exact ⟨hp, h1.symm⟩
  · injection h with _ h2; cases h2

/-- C17 for an instance the serve loop started (the `cov` hypothesis of `restart_restores_active`
    is a theorem here): `P ++ r :: Q` is the stored stream when the loop got to `r` and the
    instance subscribed, `ext` what was appended after `<name>.registered`.  If a
    `<name>.unregistered` naming it is stored exactly when the instance has stopped (C16 and
    quiescence), then a restart on the whole stream starts `r` again exactly when its instance
    was still running. -/
theorem restart_restores_started (parse : SFrame → Except String (HCfg × Resume)) (hparse : ParseOk parse)
    (name : String) (P Q : List SFrame) (r : SFrame) (s' : List SFrame) (st : Started)
    (h : startHandler parse name (P ++ r :: Q) r = (s', some st)) (ext : List SFrame) (thr : SFrame)
    (hnd : (s' ++ ext).Nodup)
    (later : ∀ f ∈ Q ++ registeredFrame st.cfg :: ext, r.id < f.id)
    (hres : ∀ x, st.resume = .after x → x ≤ r.id)
    (eval : σ → SFrame → σ × EvalRes) (env : σ)
    (ann : (∃ f ∈ Q ++ registeredFrame st.cfg :: ext,
              classify f.topic = some (st.cfg.name, .unregistered) ∧ f.ctx = st.cfg.ctx ∧
              metaGet f.mdata "handler_id" = some (idText r.id)) ↔
           (run st.cfg eval .running env
              (subscription st.cfg st.resume (P ++ r :: Q) ((s' ++ ext).drop st.subAt) thr)).1 = .stopped) :
    r ∈ compact (s' ++ ext) ↔
      (run st.cfg eval .running env
        (subscription st.cfg st.resume (P ++ r :: Q) ((s' ++ ext).drop st.subAt) thr)).1 = .running := by
  obtain ⟨hp, hs'⟩ := startHandler_cfg parse name _ r s' st h
  obtain ⟨hid, hctx, hcl⟩ := hparse r st.cfg st.resume hp
  have hS : s' ++ ext = P ++ r :: (Q ++ registeredFrame st.cfg :: ext) := by
    rw [hs']; simp
  have hcov : ∀ f ∈ Q ++ registeredFrame st.cfg :: ext, f.ctx = r.ctx → isRegTraffic st.cfg f = true →
      f ∈ subscription st.cfg st.resume (P ++ r :: Q) ((s' ++ ext).drop st.subAt) thr := by
    intro f hf hfc hreg
    apply started_covers parse name (P ++ r :: Q) r s' st h ext thr f
    · rw [hS]
      exact List.mem_append_right _ (List.mem_cons_of_mem _ hf)
    · rw [hctx]; exact hfc
    · exact hreg
    · rw [hid]; exact later f hf
    · intro x hx; exact Nat.lt_of_le_of_lt (hres x hx) (later f hf)
  generalize subscription st.cfg st.resume (P ++ r :: Q) ((s' ++ ext).drop st.subAt) thr = inp at ann hcov ⊢
  rw [hS] at hnd ⊢
  refine restart_restores_active st.cfg eval env P (Q ++ registeredFrame st.cfg :: ext) inp r (r.ctx, st.cfg.name)
    hnd ⟨hcl, rfl⟩ rfl hctx hid later hcov ?_
  rw [hctx] at ann
  exact ann

end Xs.Serve
