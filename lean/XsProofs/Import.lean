/-
  Import (`POST /import` = insert_frame) over whole lists of frames: order independence,
  idempotence, round trip.
-/
import XsProofs.History
namespace Xs
open Part
attribute [local irreducible] be unbe

/-- import a list of frames one after another (frames that cannot be stored are rejected whole
    and leave the state as it was) -/
def State.importAll (s : State) (l : List Frame) : State := l.foldl (fun s f => s.step (.importF f)) s

/-- a frame the import path can store -/
def Importable (f : Frame) : Prop := f.id < idBound ∧ f.ctx < idBound ∧ NulFree f.topic ∧ f.decodable = true

theorem step_import_ok {s : State} {f : Frame} (hf : Importable f) :
    s.step (.importF f) = s.insertFrameCore f := by
  simp [State.step, State.insertFrame, hasNul_eq_false_iff.2 hf.2.2.1, hf.2.2.2]

theorem importAll_inv {s : State} (h : Inv s) (l : List Frame) (hl : ∀ f ∈ l, Importable f) :
    Inv (s.importAll l) := by
  induction l generalizing s with
  | nil => exact h
  | cons a l ih =>
    have ha := hl a (by simp)
    simp only [State.importAll, List.foldl_cons]
    rw [step_import_ok ha]
    exact ih (insertFrameCore_inv h ⟨ha.1, ha.2.1, ha.2.2.1, ha.2.2.2⟩) (fun f hf => hl f (List.mem_cons_of_mem _ hf))

/-- frames after importing a list with pairwise distinct ids: the list, plus whatever was
    stored under other ids -/
theorem mem_frames_importAll {s : State} (h : Inv s) (l : List Frame)
    (hl : ∀ f ∈ l, Importable f) (hd : l.Pairwise (fun a b => a.id ≠ b.id)) (g : Frame) :
    g ∈ frames (s.importAll l) ↔ g ∈ l ∨ (g ∈ frames s ∧ ∀ f ∈ l, f.id ≠ g.id) := by
  induction l generalizing s with
  | nil => simp [State.importAll]
  | cons a l ih =>
    have ha := hl a (by simp)
    obtain ⟨hda, hdl⟩ := List.pairwise_cons.1 hd
    simp only [State.importAll, List.foldl_cons]
    rw [step_import_ok ha]
    have := ih (insertFrameCore_inv h ⟨ha.1, ha.2.1, ha.2.2.1, ha.2.2.2⟩)
      (fun f hf => hl f (List.mem_cons_of_mem _ hf)) hdl
    simp only [State.importAll] at this
    rw [this, mem_frames_insertFrameCore h.k ⟨ha.1, ha.2.1, ha.2.2.1, ha.2.2.2⟩]
    simp only [List.mem_cons]
    constructor
    · rintro (hg | ⟨hg | ⟨hg, hne⟩, hall⟩)
      · exact Or.inl (Or.inr hg)
      · exact Or.inl (Or.inl hg)
      · refine Or.inr ⟨hg, ?_⟩
        intro f hf
        rcases hf with e | e
        · subst e; exact fun e' => hne e'.symm
        · exact hall f e
    · rintro ((hg | hg) | ⟨hg, hall⟩)
      · subst hg
        exact Or.inr ⟨Or.inl rfl, fun f hf => (hda f hf).symm⟩
      · exact Or.inl hg
      · exact Or.inr ⟨Or.inr ⟨hg, (hall a (Or.inl rfl)).symm⟩, fun f hf => hall f (Or.inr hf)⟩

/-- C20: the stored frames after importing into an empty store are exactly the imported
    frames, whatever the order (as lists: in id order) -/
theorem frames_importAll_perm {l₁ l₂ : List Frame} (hp : l₁.Perm l₂)
    (hl : ∀ f ∈ l₁, Importable f) (hd : l₁.Pairwise (fun a b => a.id ≠ b.id)) :
    frames (State.init.importAll l₁) = frames (State.init.importAll l₂) := by
  have hl2 : ∀ f ∈ l₂, Importable f := fun f hf => hl f (hp.mem_iff.2 hf)
  have hd2 : l₂.Pairwise (fun a b => a.id ≠ b.id) :=
    hp.pairwise hd (fun {a b} (h : a.id ≠ b.id) => (h.symm : b.id ≠ a.id))
  apply eq_of_sorted_of_mem_iff (fun f : Frame => f.id)
  · exact frames_sorted (importAll_inv inv_init l₁ hl).k
  · exact frames_sorted (importAll_inv inv_init l₂ hl2).k
  · intro g
    rw [mem_frames_importAll inv_init l₁ hl hd, mem_frames_importAll inv_init l₂ hl2 hd2]
    simp [State.init, frames, hp.mem_iff]

/-- the usable contexts depend only on the stored frames -/
theorem contexts_of_frames {s₁ s₂ : State} (h₁ : Inv s₁) (h₂ : Inv s₂)
    (e : frames s₁ = frames s₂) (c : Nat) : c ∈ s₁.contexts ↔ c ∈ s₂.contexts := by
  rw [h₁.c.iff, h₂.c.iff, e]

/-- C20 round trip: importing every stored frame of `s`, in any order, into an empty store
    reproduces the stored frames (ids, order, topics, contexts, metas, hashes, ttls) and the
    usable contexts -/
theorem export_import_roundtrip {s : State} (h : Inv s) {l : List Frame}
    (hp : l.Perm (frames s)) :
    frames (State.init.importAll l) = frames s ∧
    ∀ c, c ∈ (State.init.importAll l).contexts ↔ c ∈ s.contexts := by
  have hl : ∀ f ∈ l, Importable f := by
    intro f hf
    have w := h.k.wfFrame (hp.mem_iff.1 hf)
    exact ⟨w.id_lt, w.ctx_lt, w.nul, w.dec⟩
  have hdF : (frames s).Pairwise (fun a b => a.id ≠ b.id) :=
    (frames_sorted h.k).imp (fun hlt => Nat.ne_of_lt hlt)
  have hd : l.Pairwise (fun a b => a.id ≠ b.id) :=
    hp.symm.pairwise hdF (fun {a b} (h : a.id ≠ b.id) => (h.symm : b.id ≠ a.id))
  have hI := importAll_inv inv_init l hl
  have e : frames (State.init.importAll l) = frames s := by
    apply eq_of_sorted_of_mem_iff (fun f : Frame => f.id)
    · exact frames_sorted hI.k
    · exact frames_sorted h.k
    · intro g
      rw [mem_frames_importAll inv_init l hl hd]
      simp [State.init, frames, hp.mem_iff]
  exact ⟨e, contexts_of_frames hI h e⟩

/-- importing a frame that is already stored identically changes nothing observable -/
theorem import_idempotent {s : State} (h : Inv s) {f : Frame} (hf : f ∈ frames s) :
    frames (s.step (.importF f)) = frames s ∧
    ∀ c, c ∈ (s.step (.importF f)).contexts ↔ c ∈ s.contexts := by
  have w := h.k.wfFrame hf
  have hi : Importable f := ⟨w.id_lt, w.ctx_lt, w.nul, w.dec⟩
  rw [step_import_ok hi]
  have hI := insertFrameCore_inv h w
  have e : frames (s.insertFrameCore f) = frames s := by
    apply eq_of_sorted_of_mem_iff (fun f : Frame => f.id)
    · exact frames_sorted hI.k
    · exact frames_sorted h.k
    · intro g
      rw [mem_frames_insertFrameCore h.k w]
      constructor
      · rintro (e | ⟨hg, _⟩)
        · subst e; exact hf
        · exact hg
      · intro hg
        by_cases e : g.id = f.id
        · exact Or.inl (h.k.frame_unique hg hf e)
        · exact Or.inr ⟨hg, e⟩
  exact ⟨e, contexts_of_frames hI h e⟩

/-- two stores with the same stored frames answer every read, lookup and head alike -/
theorem observably_equal {s₁ s₂ : State} (h₁ : Inv s₁) (h₂ : Inv s₂) (e : frames s₁ = frames s₂) :
    (∀ ctx last limit now, WfRead ctx last →
      (s₁.readSync ctx last limit now).2 = (s₂.readSync ctx last limit now).2 ∧
      (s₁.readHist ctx last limit now).2 = (s₂.readHist ctx last limit now).2) ∧
    (∀ i, i < idBound → s₁.get i = s₂.get i) ∧
    (∀ t c, c < idBound → s₁.head t c = s₂.head t c) := by
  refine ⟨?_, ?_, ?_⟩
  · intro ctx last limit now wr
    rw [readSync_spec h₁.k wr, readSync_spec h₂.k wr, readHist_spec h₁.k wr, readHist_spec h₂.k wr]
    simp [liveHistory, e]
  · intro i hi
    cases hg : s₂.get i with
    | none =>
      rw [h₂.k.get_eq_none_iff hi] at hg
      rw [h₁.k.get_eq_none_iff hi, e]; exact hg
    | some f =>
      rw [get_spec h₂.k hi] at hg
      rw [get_spec h₁.k hi, e]; exact hg
  · intro t c hc
    by_cases ht : hasNul t = true
    · rw [head_nul ht, head_nul ht]
    · have ht' : NulFree t := hasNul_eq_false_iff.1 (by simpa using ht)
      rw [head_spec h₁.k ht' hc, head_spec h₂.k ht' hc]
      simp [topicFrames, e]

end Xs
