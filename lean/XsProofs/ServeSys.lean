import XsModel.ServeSys
import XsProofs.Registry
namespace Xs.Serve

variable {σ : Type}

theorem run_single (cfg : HCfg) (eval : σ → SFrame → σ × EvalRes) (st : HState) (env : σ) (f : SFrame) :
    (run cfg eval st env [f]).1 = (step cfg eval st env f).1 ∧
    (run cfg eval st env [f]).2.1 = (step cfg eval st env f).2.1 ∧
    (run cfg eval st env [f]).2.2.1 = (step cfg eval st env f).2.2.1 := by
  simp [run]

/-- the script never writes its own stop announcement (topic `<name>.unregistered`) -/
def NoSelfAnnounce (cfg : HCfg) (eval : σ → SFrame → σ × EvalRes) : Prop :=
  ∀ env f env' appends ret, eval env f = (env', .ok appends ret) →
    ∀ o ∈ appends.map (emit cfg f) ++ retFrames cfg f ret, o.topic ≠ topicOf cfg.name sUnregistered

/-- an instance that is still running has emitted nothing on `<name>.unregistered` -/
theorem running_outs_no_announcement (cfg : HCfg) (eval : σ → SFrame → σ × EvalRes)
    (hno : NoSelfAnnounce cfg eval) (env : σ) (l : List SFrame)
    (hr : (run cfg eval .running env l).1 = .running) :
    ∀ o ∈ (run cfg eval .running env l).2.2.1, o.topic ≠ topicOf cfg.name sUnregistered := by
  induction l generalizing env with
  | nil => simp [run]
  | cons a t ih =>
    rcases step_state_cases cfg eval env a with h1 | h1
    · intro o ho
      simp only [run, h1, List.mem_append] at ho hr
      rcases ho with ho | ho
      · -- produced by this step, which left the instance running
        unfold step at ho h1
        simp only at ho h1
        cases hd : dispatch cfg a with
        | skip => rw [hd] at ho; simp at ho
        | stop out => rw [hd] at h1; cases h1
        | invoke =>
          rw [hd] at ho h1
          cases he : eval env a with
          | mk env' r =>
            rw [he] at ho h1
            cases r with
            | error msg => cases h1
            | ok appends ret =>
              simp only at ho h1
              split at ho
              · exact hno env a env' appends ret he o ho
              · rename_i hs; simp only [hs] at h1; cases h1
      · exact ih _ hr o ho
    · simp only [run, h1, stopped_inert] at hr
      cases hr

theorem input_step (cfg : HCfg) (pre : List SFrame) (s : LiveSys σ) (o : List SFrame) (p : Nat) (st : HState)
    (env : σ) (outs : List SFrame) (ho : ∀ g ∈ o, g.ctx = cfg.ctx) :
    LiveSys.input cfg pre ⟨s.live ++ o, p, st, env, outs⟩ = s.input cfg pre ++ o := by
  have hfil : o.filter (fun g => g.ctx = cfg.ctx) = o := by
    rw [List.filter_eq_self]; intro g hg; simpa using ho g hg
  simp [LiveSys.input, List.filter_append, hfil]

structure LInv (cfg : HCfg) (eval : σ → SFrame → σ × EvalRes) (pre : List SFrame) (env0 : σ) (s : LiveSys σ) : Prop where
  pos_le : s.pos ≤ (s.input cfg pre).length
  /-- the instance is exactly `run` over what it has been handed -/
  st_eq : (run cfg eval .running env0 ((s.input cfg pre).take s.pos)).1 = s.st
  env_eq : (run cfg eval .running env0 ((s.input cfg pre).take s.pos)).2.1 = s.env
  outs_eq : (run cfg eval .running env0 ((s.input cfg pre).take s.pos)).2.2.1 = s.outs
  /-- what it emitted is in the stream -/
  outs_live : ∀ g ∈ s.outs, g ∈ s.live
  /-- a stop announcement in the stream was written by the instance -/
  ann_outs : ∀ g ∈ s.live, announces cfg g = true → g ∈ s.outs

theorem linv_init (cfg : HCfg) (eval : σ → SFrame → σ × EvalRes) (pre : List SFrame) (env0 : σ) :
    LInv cfg eval pre env0 (LiveSys.init env0) := by
  refine ⟨Nat.zero_le _, ?_, ?_, ?_, ?_, ?_⟩ <;> simp [LiveSys.init, run]

theorem lstep_inv {cfg : HCfg} {eval : σ → SFrame → σ × EvalRes} {pre : List SFrame} {env0 : σ}
    {s s' : LiveSys σ} (h : LInv cfg eval pre env0 s) (a : LAct) (e : lstep cfg eval pre s a = some s') :
    LInv cfg eval pre env0 s' := by
  cases a with
  | envAppend f =>
    simp only [lstep] at e
    split at e
    · cases e
    · rename_i hna
      injection e with e; subst e
      have hin : (LiveSys.input cfg pre { s with live := s.live ++ [f] }) =
          s.input cfg pre ++ [f].filter (fun g => g.ctx = cfg.ctx) := by
        simp [LiveSys.input, List.filter_append]
      have htake : ((LiveSys.input cfg pre { s with live := s.live ++ [f] })).take s.pos =
          (s.input cfg pre).take s.pos := by
        rw [hin, List.take_append_of_le_length h.pos_le]
      refine ⟨?_, ?_, ?_, ?_, ?_, ?_⟩
      · rw [hin, List.length_append]; exact Nat.le_trans h.pos_le (Nat.le_add_right _ _)
      · simp only; rw [htake]; exact h.st_eq
      · simp only; rw [htake]; exact h.env_eq
      · simp only; rw [htake]; exact h.outs_eq
      · intro g hg; exact List.mem_append_left _ (h.outs_live g hg)
      · intro g hg ha
        simp only [List.mem_append, List.mem_singleton] at hg
        rcases hg with hg | rfl
        · exact h.ann_outs g hg ha
        · rw [ha] at hna; exact absurd rfl hna
  | instStep =>
    simp only [lstep] at e
    split at e
    · cases e
    · rename_i f hf
      injection e with e; subst e
      have hlt : s.pos < (s.input cfg pre).length := by
        rcases List.getElem?_eq_some_iff.mp hf with ⟨hl, _⟩; exact hl
      have hctx : ∀ o ∈ (step cfg eval s.st s.env f).2.2.1, o.ctx = cfg.ctx :=
        fun o ho => (step_outputs_stamped cfg eval s.st s.env f o ho).2.2
      have hin := input_step cfg pre s (step cfg eval s.st s.env f).2.2.1 (s.pos + 1)
        (step cfg eval s.st s.env f).1 (step cfg eval s.st s.env f).2.1
        (s.outs ++ (step cfg eval s.st s.env f).2.2.1) hctx
      have htake : (s.input cfg pre ++ (step cfg eval s.st s.env f).2.2.1).take (s.pos + 1) =
          (s.input cfg pre).take s.pos ++ [f] := by
        rw [List.take_append_of_le_length (Nat.succ_le_of_lt hlt)]
        rw [List.take_add_one, hf]; rfl
      have hrun := run_append cfg eval .running env0 ((s.input cfg pre).take s.pos) [f]
      have hsingle := run_single cfg eval s.st s.env f
      refine ⟨?_, ?_, ?_, ?_, ?_, ?_⟩
      · show s.pos + 1 ≤ _
        rw [hin, List.length_append]; omega
      · simp only; rw [hin, htake, hrun]; simp only; rw [h.st_eq, h.env_eq]; exact hsingle.1
      · simp only; rw [hin, htake, hrun]; simp only; rw [h.st_eq, h.env_eq]; exact hsingle.2.1
      · simp only; rw [hin, htake, hrun]; simp only; rw [h.st_eq, h.env_eq, h.outs_eq, hsingle.2.2]
      · intro g hg
        simp only [List.mem_append] at hg ⊢
        rcases hg with hg | hg
        · exact Or.inl (h.outs_live g hg)
        · exact Or.inr hg
      · intro g hg ha
        simp only [List.mem_append] at hg ⊢
        rcases hg with hg | hg
        · exact Or.inl (h.ann_outs g hg ha)
        · exact Or.inr hg

theorem lrun_inv {cfg : HCfg} {eval : σ → SFrame → σ × EvalRes} {pre : List SFrame} {env0 : σ}
    {s s' : LiveSys σ} (h : LInv cfg eval pre env0 s) (as : List LAct) (e : lrun cfg eval pre s as = some s') :
    LInv cfg eval pre env0 s' := by
  induction as generalizing s with
  | nil => simp [lrun] at e; subst e; exact h
  | cons a as ih =>
    simp only [lrun] at e
    split at e
    · rename_i s1 hs; exact ih (lstep_inv h a hs) e
    · cases e

theorem unregistered_announces (cfg : HCfg) (f : SFrame) (e : Option String) :
    announces cfg (unregistered cfg f e) = true := by
  cases e <;> simp [announces, unregistered, metaGet]

/-- C16/C17 (the `ann` hypothesis of `restart_restores_active`, discharged for the closed system):
    whatever clients and other handlers append and however the steps interleave, once the
    instance has been handed everything there is, a `<name>.unregistered` naming it is in the
    stream exactly when it has stopped - given only that nobody else writes that frame -/
theorem announced_iff_stopped (cfg : HCfg) (eval : σ → SFrame → σ × EvalRes) (hno : NoSelfAnnounce cfg eval)
    (pre : List SFrame) (env0 : σ) (as : List LAct) (s : LiveSys σ)
    (e : lrun cfg eval pre (LiveSys.init env0) as = some s) (hq : s.quiescent cfg pre) :
    (∃ g ∈ s.live, announces cfg g = true) ↔ s.st = .stopped := by
  have hI := lrun_inv (linv_init cfg eval pre env0) as e
  have hall : (s.input cfg pre).take s.pos = s.input cfg pre := by
    unfold LiveSys.quiescent at hq; rw [hq, List.take_length]
  constructor
  · rintro ⟨g, hg, ha⟩
    have hgo := hI.ann_outs g hg ha
    cases hs : s.st with
    | stopped => rfl
    | running =>
      exfalso
      have hr : (run cfg eval .running env0 ((s.input cfg pre).take s.pos)).1 = .running := by
        rw [hI.st_eq, hs]
      have := running_outs_no_announcement cfg eval hno env0 _ hr g (by rw [hI.outs_eq]; exact hgo)
      apply this
      simp only [announces, Bool.and_eq_true, decide_eq_true_eq] at ha
      exact ha.1.1
  · intro hs
    have hr : (run cfg eval .running env0 ((s.input cfg pre).take s.pos)).1 = .stopped := by
      rw [hI.st_eq, hs]
    obtain ⟨p, f, q, err, _, _, ho⟩ := stop_announced_once cfg eval env0 _ hr
    refine ⟨unregistered cfg f err, ?_, unregistered_announces cfg f err⟩
    apply hI.outs_live
    rw [← hI.outs_eq, ho]
    simp

/-- C16: the instance in the closed system is `Handler.run` over its subscription: everything
    proved about `run` (C14, C15, C16) holds for every interleaving of the closed system -/
theorem closed_system_is_run (cfg : HCfg) (eval : σ → SFrame → σ × EvalRes)
    (pre : List SFrame) (env0 : σ) (as : List LAct) (s : LiveSys σ)
    (e : lrun cfg eval pre (LiveSys.init env0) as = some s) :
    (run cfg eval .running env0 ((s.input cfg pre).take s.pos)).1 = s.st ∧
    (run cfg eval .running env0 ((s.input cfg pre).take s.pos)).2.1 = s.env ∧
    (run cfg eval .running env0 ((s.input cfg pre).take s.pos)).2.2.1 = s.outs ∧
    (∀ g ∈ s.outs, g ∈ s.live) := by
  have hI := lrun_inv (linv_init cfg eval pre env0) as e
  exact ⟨hI.st_eq, hI.env_eq, hI.outs_eq, hI.outs_live⟩

/-- what a subscription starts with: the history part and the marker (nothing for tail) -/
def subPre (cfg : HCfg) (resume : Resume) (hist : List SFrame) (thr : SFrame) : List SFrame :=
  match resume with
  | .tail => []
  | .head => hist.filter (fun f => f.ctx = cfg.ctx) ++ [thr]
  | .after id => (hist.filter (fun f => f.ctx = cfg.ctx)).filter (fun f => id < f.id) ++ [thr]

theorem subscription_eq_pre (cfg : HCfg) (resume : Resume) (hist live : List SFrame) (thr : SFrame) :
    subscription cfg resume hist live thr = subPre cfg resume hist thr ++ live.filter (fun f => f.ctx = cfg.ctx) := by
  cases resume <;> simp [subscription, subPre]

theorem announces_iff (cfg : HCfg) (g : SFrame) :
    announces cfg g = true ↔
      (classify g.topic = some (cfg.name, .unregistered) ∧ g.ctx = cfg.ctx ∧
        metaGet g.mdata "handler_id" = some (idText cfg.id)) := by
  unfold announces
  simp only [Bool.and_eq_true, decide_eq_true_eq]
  constructor
  · rintro ⟨⟨h1, h2⟩, h3⟩
    refine ⟨?_, h2, h3⟩
    rw [h1, classify_topicOf _ _ not_dot_sUnregistered]; rfl
  · rintro ⟨h1, h2, h3⟩
    refine ⟨⟨?_, h2⟩, h3⟩
    obtain ⟨b, ht, hk, _⟩ := classify_inv h1
    have hb : b = sUnregistered := by
      unfold kindOf at hk
      split at hk
      · cases hk
      · split at hk
        · cases hk
        · split at hk
          · assumption
          · cases hk
    rw [ht, hb]

theorem lrun_live_extends (cfg : HCfg) (eval : σ → SFrame → σ × EvalRes) (pre : List SFrame) (as : List LAct)
    (a b : LiveSys σ) (hab : lrun cfg eval pre a as = some b) : ∃ t, b.live = a.live ++ t := by
  induction as generalizing a with
  | nil => simp [lrun] at hab; subst hab; exact ⟨[], by simp⟩
  | cons x xs ih =>
    simp only [lrun] at hab
    split at hab
    · rename_i a1 ha1
      obtain ⟨t, ht⟩ := ih a1 hab
      cases x with
      | envAppend f =>
        simp only [lstep] at ha1
        split at ha1
        · cases ha1
        · injection ha1 with ha1; subst ha1; exact ⟨[f] ++ t, by simp [ht]⟩
      | instStep =>
        simp only [lstep] at ha1
        split at ha1
        · cases ha1
        · rename_i f _
          injection ha1 with ha1; subst ha1
          exact ⟨(step cfg eval a.st a.env f).2.2.1 ++ t, by simp [ht]⟩
    · cases hab

/-- the closed system right after `Handler::spawn`: the stream holds the announcement
    `<name>.registered`, the instance has been handed nothing yet -/
def LiveSys.started (cfg : HCfg) (env : σ) : LiveSys σ := ⟨[registeredFrame cfg], 0, .running, env, []⟩

theorem registered_not_announcement (cfg : HCfg) : announces cfg (registeredFrame cfg) = false := by
  have : (registeredFrame cfg).topic ≠ topicOf cfg.name sUnregistered := by
    intro h
    have h' : String.ofList ('.' :: sRegistered) = String.ofList ('.' :: sUnregistered) :=
      (String.append_right_inj cfg.name).mp h
    have := String.ofList_inj.mp h'
    revert this; decide
  simp [announces, this]

theorem linv_started (cfg : HCfg) (eval : σ → SFrame → σ × EvalRes) (pre : List SFrame) (env0 : σ) :
    LInv cfg eval pre env0 (LiveSys.started cfg env0) := by
  refine ⟨Nat.zero_le _, ?_, ?_, ?_, ?_, ?_⟩
  · simp [LiveSys.started, run]
  · simp [LiveSys.started, run]
  · simp [LiveSys.started, run]
  · intro g hg; simp [LiveSys.started] at hg
  · intro g hg ha
    simp only [LiveSys.started, List.mem_singleton] at hg
    subst hg
    rw [registered_not_announcement] at ha; cases ha

/-- `announced_iff_stopped`, from the state right after the start -/
theorem announced_iff_stopped_started (cfg : HCfg) (eval : σ → SFrame → σ × EvalRes) (hno : NoSelfAnnounce cfg eval)
    (pre : List SFrame) (env0 : σ) (as : List LAct) (s : LiveSys σ)
    (e : lrun cfg eval pre (LiveSys.started cfg env0) as = some s) (hq : s.quiescent cfg pre) :
    ((∃ g ∈ s.live, announces cfg g = true) ↔ s.st = .stopped) ∧
    (run cfg eval .running env0 (s.input cfg pre)).1 = s.st := by
  have hI := lrun_inv (linv_started cfg eval pre env0) as e
  have hall : (s.input cfg pre).take s.pos = s.input cfg pre := by
    unfold LiveSys.quiescent at hq; rw [hq, List.take_length]
  refine ⟨?_, by rw [← hall]; exact hI.st_eq⟩
  constructor
  · rintro ⟨g, hg, ha⟩
    have hgo := hI.ann_outs g hg ha
    cases hs : s.st with
    | stopped => rfl
    | running =>
      exfalso
      have hr : (run cfg eval .running env0 ((s.input cfg pre).take s.pos)).1 = .running := by
        rw [hI.st_eq, hs]
      have := running_outs_no_announcement cfg eval hno env0 _ hr g (by rw [hI.outs_eq]; exact hgo)
      apply this
      simp only [announces, Bool.and_eq_true, decide_eq_true_eq] at ha
      exact ha.1.1
  · intro hs
    have hr : (run cfg eval .running env0 ((s.input cfg pre).take s.pos)).1 = .stopped := by
      rw [hI.st_eq, hs]
    obtain ⟨p, f, q, err, _, _, ho⟩ := stop_announced_once cfg eval env0 _ hr
    refine ⟨unregistered cfg f err, ?_, unregistered_announces cfg f err⟩
    apply hI.outs_live
    rw [← hI.outs_eq, ho]
    simp

/-- C17, closed: an instance the serve loop started, run in the closed system (clients and other
    handlers append anything but its stop announcement, the script does not write it either),
    for every interleaving: when it has been handed everything there is, a restart on the whole
    stored stream starts its `.register` again exactly when the instance is still running.
    `P ++ r :: Q` is the stream when it subscribed; nothing in it announces the instance. -/
theorem restart_restores_running_closed (parse : SFrame → Except String (HCfg × Resume)) (hparse : ParseOk parse)
    (name : String) (P Q : List SFrame) (r : SFrame) (s' : List SFrame) (st : Started)
    (h : startHandler parse name (P ++ r :: Q) r = (s', some st)) (thr : SFrame)
    (eval : σ → SFrame → σ × EvalRes) (hno : NoSelfAnnounce st.cfg eval) (env0 : σ)
    (as : List LAct) (s : LiveSys σ)
    (e : lrun st.cfg eval (subPre st.cfg st.resume (P ++ r :: Q) thr) (LiveSys.started st.cfg env0) as = some s)
    (hq : s.quiescent st.cfg (subPre st.cfg st.resume (P ++ r :: Q) thr))
    (hnd : (P ++ r :: (Q ++ s.live)).Nodup)
    (later : ∀ f ∈ Q ++ s.live, r.id < f.id)
    (hres : ∀ x, st.resume = .after x → x ≤ r.id)
    (hQ : ∀ f ∈ Q, announces st.cfg f = false) :
    r ∈ compact (P ++ r :: (Q ++ s.live)) ↔ s.st = .running := by
  obtain ⟨hp, hs'⟩ := startHandler_cfg parse name _ r s' st h
  obtain ⟨hid, hctx, hcl⟩ := hparse r st.cfg st.resume hp
  obtain ⟨ext, hext⟩ := lrun_live_extends st.cfg eval _ as _ s e
  have hext : s.live = registeredFrame st.cfg :: ext := by simpa [LiveSys.started] using hext
  obtain ⟨hann, hstate0⟩ := announced_iff_stopped_started st.cfg eval hno _ env0 as s e hq
  have hstate : (run st.cfg eval .running env0 (subscription st.cfg st.resume (P ++ r :: Q) s.live thr)).1 = s.st := by
    rw [subscription_eq_pre]; exact hstate0
  have hdrop : (s' ++ ext).drop st.subAt = s.live := by
    rw [subscribed_before_announced parse name _ r s' st h ext, hext]
  have hwhole : s' ++ ext = P ++ r :: (Q ++ s.live) := by
    rw [hs', hext]; simp
  have key := restart_restores_started parse hparse name P Q r s' st h ext thr
    (by rw [hwhole]; exact hnd) (by rw [← hext]; exact later) hres eval env0
    (by
      rw [hdrop, hstate, ← hann, ← hext]
      constructor
      · rintro ⟨f, hf, hc, hx, hm⟩
        have ha : announces st.cfg f = true := (announces_iff st.cfg f).mpr ⟨hc, hx, by rw [hid]; exact hm⟩
        rcases List.mem_append.mp hf with hf | hf
        · rw [hQ f hf] at ha; cases ha
        · exact ⟨f, hf, ha⟩
      · rintro ⟨g, hg, ha⟩
        obtain ⟨hc, hx, hm⟩ := (announces_iff st.cfg g).mp ha
        exact ⟨g, List.mem_append_right _ hg, hc, hx, by rw [← hid]; exact hm⟩)
  rw [hdrop, hstate] at key
  rw [hwhole] at key
  exact key

end Xs.Serve
