/-
  C04  Acknowledged writes survive a crash; each write is all-or-nothing.

  What is proved: the code commits exactly ONE batch per append / import / remove (and one per
  frame a gc task removes) and acknowledges only after `persist(SyncAll)`; given fjall's journal
  contract (a batch is recovered iff it is completely on disk; a torn tail is discarded — assumed,
  and exercised on real crash images by the check), every crash image recovers to the state
  before or after the operation in flight, and lookups agree in it.
-/
import XsProofs.Journal
import XsProps.Common
namespace Xs.C04
open Xs.Journal

/-- the journal a history writes replays to exactly the partitions the history leaves -/
theorem journal_is_faithful (ops : List Op) :
    applyAll {} (journal State.init ops) = Parts.ofState (after ops) :=
  journal_replay State.init ops

/-- an operation's batches, applied in order, are exactly its effect on the partitions -/
theorem one_step_is_its_batches (s : State) (op : Op) :
    applyAll (Parts.ofState s) (opBatches s op) = Parts.ofState (s.step op) := step_parts s op

/-- append, import and remove commit at most one batch -/
theorem writes_are_single_batches (s : State) (op : Op)
    (h : (∃ f id, op = .append f id) ∨ (∃ f, op = .importF f) ∨ (∃ id, op = .remove id)) :
    (opBatches s op).length ≤ 1 := single_batch_ops s op h

/-- every operation acknowledged before the crash is fully reflected: an image holding the
    batches of the first k operations recovers to the state after those k operations, whatever
    torn bytes follow -/
theorem acknowledged_writes_survive (ops : List Op) (k : Nat) (torn : Option Batch) :
    recover { complete := journal State.init (ops.take k), torn := torn } =
      Parts.ofState (after (ops.take k)) := recover_at_boundary ops k torn

/-- the operation in flight is entirely present or entirely absent -/
theorem inflight_all_or_nothing (pre : List Op) (op : Op) (j : Nat) (torn : Option Batch)
    (h : (∃ f id, op = .append f id) ∨ (∃ f, op = .importF f) ∨ (∃ id, op = .remove id)) :
    let img : Image := { complete := journal State.init pre ++ (opBatches (after pre) op).take j, torn := torn }
    recover img = Parts.ofState (after pre) ∨ recover img = Parts.ofState (after (pre ++ [op])) :=
  crash_during_op_atomic pre op j torn h

/-- never a frame reachable one way but not another: the recovered partitions, with the
    registry `Store::new` rebuilds, satisfy the store invariant (so C05's agreement, C06's
    isolation and C07's registry rule hold on every image) -/
theorem recovered_lookups_agree (ops : List Op) (w : WfOps ops) (k : Nat) :
    Inv (after (ops.take k)).reopen := recovered_state_consistent ops w k

end Xs.C04
