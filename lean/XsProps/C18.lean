/-
  C18  Generator lifecycle: start, ordered output, stop, restart, duplex input.

  Model: XsModel/Generator.lean.  The nushell pipeline is a parameter (the list of strings it
  produces / its input chunks; values that are not strings produce nothing), so is its parser.
-/
import XsProofs.Generator
namespace Xs.C18
open Xs.Serve

/-- start, then one recv per produced string in production order with that string as content,
    then stop -/
theorem lifecycle_order_and_content (t : GTask) (ss : List String) :
    (lifecycle t ss).map (·.topic) =
      topicOf t.name sStart :: ss.map (fun _ => topicOf t.name sRecv) ++ [topicOf t.name sStop] ∧
    (lifecycle t ss).filterMap (·.content) = ss := lifecycle_shape t ss

/-- all of them carry the spawn's id as source_id and live in the spawn's context -/
theorem lifecycle_source_and_context (t : GTask) (ss : List String) :
    ∀ f ∈ lifecycle t ss, metaGet f.mdata "source_id" = some (idText t.id) ∧ f.ctx = t.ctx :=
  lifecycle_stamped t ss

/-- an accepted spawn starts a lifecycle of a task named by the spawn frame -/
theorem accepted_spawn (duplexOf parses : SFrame → Bool) (tbl : List GTask) (f : SFrame) (name c : String)
    (hc : gclassify f.topic = some (name, .spawn)) (hh : gtblHas tbl (f.ctx, name) = none)
    (hn : f.content = some c) (hp : parses f = true) :
    genStep duplexOf parses tbl f =
      (tbl ++ [{ id := f.id, ctx := f.ctx, name := name, duplex := duplexOf f }],
       some (.start { id := f.id, ctx := f.ctx, name := name, duplex := duplexOf f })) :=
  accepted_spawn_starts duplexOf parses tbl f name c hc hh hn hp

/-- a spawn whose expression does not parse yields exactly one `.spawn.error` naming it -/
theorem unparsable_yields_one_error (duplexOf parses : SFrame → Bool) (tbl : List GTask) (f : SFrame) (name c : String)
    (hc : gclassify f.topic = some (name, .spawn)) (hh : gtblHas tbl (f.ctx, name) = none)
    (hn : f.content = some c) (hp : parses f = false) :
    genStep duplexOf parses tbl f = (tbl, some (.reject (spawnError name f "Parse error"))) :=
  unparsable_rejected duplexOf parses tbl f name c hc hh hn hp

/-- after a stop the generator is started again, as the same task (same source_id) -/
theorem restarted_after_stop (duplexOf parses : SFrame → Bool) (tbl : List GTask) (f : SFrame) (name : String) (t0 : GTask)
    (hc : gclassify f.topic = some (name, .stop)) (hh : gtblHas tbl (f.ctx, name) = some t0) :
    genStep duplexOf parses tbl f = (tbl, some (.start t0)) := stop_restarts duplexOf parses tbl f name t0 hc hh

/-- a spawn for an already running name yields exactly one `.spawn.error` naming it -/
theorem running_name_yields_one_error (duplexOf parses : SFrame → Bool) (tbl : List GTask) (f : SFrame) (name : String)
    (t0 : GTask) (hc : gclassify f.topic = some (name, .spawn)) (hh : gtblHas tbl (f.ctx, name) = some t0) :
    genStep duplexOf parses tbl f =
      (tbl, some (.reject (spawnError name f "Updating existing generator is not implemented"))) :=
  running_name_rejected duplexOf parses tbl f name t0 hc hh

/-- a spawn without content yields exactly one `.spawn.error` naming it -/
theorem missing_content_yields_one_error (duplexOf parses : SFrame → Bool) (tbl : List GTask) (f : SFrame) (name : String)
    (hc : gclassify f.topic = some (name, .spawn)) (hh : gtblHas tbl (f.ctx, name) = none)
    (hn : f.content = none) :
    genStep duplexOf parses tbl f = (tbl, some (.reject (spawnError name f "Missing hash"))) :=
  missing_content_rejected duplexOf parses tbl f name hc hh hn

theorem spawn_error_names_the_spawn (name : String) (f : SFrame) (reason : String) :
    metaGet (spawnError name f reason).mdata "source_id" = some (idText f.id) ∧
    (spawnError name f reason).ctx = f.ctx ∧ (spawnError name f reason).topic = topicOf name sSpawnError :=
  spawnError_names name f reason

/-- duplex: the instance is fed the content of exactly the `.send` frames of its context stored
    after its start - once each, in stream order, nothing of another context -/
theorem duplex_input_exactly_once_in_order (t : GTask) (startId : Nat) (stream : List SFrame) :
    duplexInput t startId stream =
      (stream.filter (fun f => f.ctx = t.ctx && startId < f.id && f.topic = topicOf t.name sSend)).filterMap (·.content) ∧
    ((stream.filter (fun f => f.ctx = t.ctx && startId < f.id && f.topic = topicOf t.name sSend)).Sublist stream) :=
  duplexInput_exact t startId stream

theorem duplex_input_grows_with_the_stream (t : GTask) (startId : Nat) (s1 s2 : List SFrame) :
    duplexInput t startId (s1 ++ s2) = duplexInput t startId s1 ++ duplexInput t startId s2 :=
  duplexInput_append t startId s1 s2

theorem duplex_ignores_other_contexts (t : GTask) (startId : Nat) (f : SFrame) (h : f.ctx ≠ t.ctx) :
    duplexInput t startId [f] = [] := duplexInput_other_context t startId f h

/-- C17 for generators: restarted are exactly the spawns that are the last spawn / spawn.error of
    their (context, name) -/
theorem restart_latest_successful_spawn (h : List SFrame) (r : SFrame) :
    r ∈ gcompact h ↔ ∃ k, GLast h k r true := mem_gcompact h r

/-- non-vacuity -/
example :
    let t : GTask := { id := 9, ctx := 2, name := "g" }
    ((lifecycle t ["a", "b"]).map (fun f => (f.topic, f.content)) =
      [("g.start", none), ("g.recv", some "a"), ("g.recv", some "b"), ("g.stop", none)]) ∧
    (gcompact [{ topic := "g.spawn", ctx := 1, id := 1, content := some "x" }, { topic := "g.spawn", ctx := 2, id := 2, content := some "x" },
      { topic := "g.spawn", ctx := 1, id := 3, content := some "x" }, { topic := "g.spawn.error", ctx := 1, id := 4 }]).map (·.id) = [2] := by
  decide

end Xs.C18
