/-
  C17  Restart restores exactly the active handlers (generators and commands: see
  XsModel/Generator.lean and XsModel/Command.lean), independently of other contexts.

  Model: XsModel/Registry.lean - the start-up scan of src/handlers/serve.rs as a fold
  (`compactStep`) over the stored stream, keyed by (context, name).
-/
import XsProofs.ServeSys
namespace Xs.C17
open Xs.Serve

variable {σ : Type}

/-- what is started again: exactly the `.register` frames that nothing later in the stored
    stream dropped - no later `.register` / `.unregister` of the same (context, name), no later
    `<name>.unregistered` naming it -/
theorem restored_exactly_the_retained (h : List SFrame) (r : SFrame) :
    r ∈ compact h ↔ ∃ k, Retained h k r := mem_compact

/-- exactly the active handlers: a registration is started again precisely when its live
    instance was still running (given that the instance saw the later registration traffic of
    its key and that stops are announced - C16) -/
theorem restored_iff_still_running (cfg : HCfg) (eval : σ → SFrame → σ × EvalRes) (env : σ)
    (pre post inp : List SFrame) (r : SFrame) (k : Key)
    (hnd : (pre ++ r :: post).Nodup) (hr : regOf k r)
    (hname : cfg.name = k.2) (hctx : cfg.ctx = k.1) (hid : cfg.id = r.id)
    (later : ∀ f ∈ post, r.id < f.id)
    (cov : ∀ f ∈ post, f.ctx = k.1 → isRegTraffic cfg f = true → f ∈ inp)
    (ann : (∃ f ∈ post, classify f.topic = some (k.2, .unregistered) ∧ f.ctx = k.1 ∧
              metaGet f.mdata "handler_id" = some (idText r.id)) ↔
           (run cfg eval .running env inp).1 = .stopped) :
    r ∈ compact (pre ++ r :: post) ↔ (run cfg eval .running env inp).1 = .running :=
  restart_restores_active cfg eval env pre post inp r k hnd hr hname hctx hid later cov ann

/-- … and for an instance the serve loop itself started the first of those two assumptions is a
    theorem (`started_covers`): whatever the resume mode, it is handed every later `.register` /
    `.unregister` of its key -/
theorem restored_iff_started_instance_still_running (parse : SFrame → Except String (HCfg × Resume))
    (hparse : ParseOk parse) (name : String) (P Q : List SFrame) (r : SFrame) (s' : List SFrame) (st : Started)
    (h : startHandler parse name (P ++ r :: Q) r = (s', some st)) (ext : List SFrame) (thr : SFrame)
    (hnd : (s' ++ ext).Nodup)
    (later : ∀ f ∈ Q ++ registeredFrame st.cfg :: ext, r.id < f.id)
    (hres : ∀ x, st.resume = .after x → x ≤ r.id)
    (eval : σ → SFrame → σ × EvalRes) (env : σ)
    (ann : (∃ f ∈ Q ++ registeredFrame st.cfg :: ext,
              classify f.topic = some (st.cfg.name, .unregistered) ∧ f.ctx = st.cfg.ctx ∧
              metaGet f.mdata "handler_id" = some (idText r.id)) ↔
           (run st.cfg eval .running env
              (subscription st.cfg st.resume (P ++ r :: Q) ((s' ++ ext).drop st.subAt) thr)).1 = .stopped) :
    r ∈ compact (s' ++ ext) ↔
      (run st.cfg eval .running env
        (subscription st.cfg st.resume (P ++ r :: Q) ((s' ++ ext).drop st.subAt) thr)).1 = .running :=
  restart_restores_started parse hparse name P Q r s' st h ext thr hnd later hres eval env ann

/-- … and in the closed system both assumptions are theorems: for every interleaving of client
    appends and instance steps after `Handler::spawn`, once the instance has been handed
    everything, a restart on the whole stored stream starts its `.register` again exactly when the
    instance is still running.  (Left as hypotheses: ids are distinct and increase after `r`; an
    `after` resume point is not in the future; nobody but the instance writes its stop
    announcement - not the script, not a client, and none is stored before it subscribed.) -/
theorem restart_restores_exactly_the_running_instance (parse : SFrame → Except String (HCfg × Resume))
    (hparse : ParseOk parse) (name : String) (P Q : List SFrame) (r : SFrame) (s' : List SFrame) (st : Started)
    (h : startHandler parse name (P ++ r :: Q) r = (s', some st)) (thr : SFrame)
    (eval : σ → SFrame → σ × EvalRes) (hno : NoSelfAnnounce st.cfg eval) (env0 : σ)
    (as : List LAct) (s : LiveSys σ)
    (e : lrun st.cfg eval (subPre st.cfg st.resume (P ++ r :: Q) thr) (LiveSys.started st.cfg env0) as = some s)
    (hq : s.quiescent st.cfg (subPre st.cfg st.resume (P ++ r :: Q) thr))
    (hnd : (P ++ r :: (Q ++ s.live)).Nodup)
    (later : ∀ f ∈ Q ++ s.live, r.id < f.id)
    (hres : ∀ x, st.resume = .after x → x ≤ r.id)
    (hQ : ∀ f ∈ Q, announces st.cfg f = false) :
    r ∈ compact (P ++ r :: (Q ++ s.live)) ↔ s.st = .running :=
  restart_restores_running_closed parse hparse name P Q r s' st h thr eval hno env0 as s e hq hnd later hres hQ

/-- nothing replaced comes back -/
theorem replaced_not_restored (pre post : List SFrame) (k : Key) (r r2 : SFrame)
    (hnd : (pre ++ r :: post).Nodup) (h2 : r2 ∈ post) (hr2 : regOf k r2) :
    ¬ Retained (pre ++ r :: post) k r := replaced_not_retained hnd h2 hr2

/-- nothing that failed or was rejected comes back -/
theorem failed_not_restored (pre post : List SFrame) (r f : SFrame) (k : Key)
    (hnd : (pre ++ r :: post).Nodup) (hf : f ∈ post)
    (hc : classify f.topic = some (k.2, .unregistered)) (hx : f.ctx = k.1)
    (hm : metaGet f.mdata "handler_id" = some (idText r.id)) :
    ¬ Retained (pre ++ r :: post) k r := invalid_never_restored pre post r f k hnd hf hc hx hm

/-- independent of what exists under the same name in other contexts -/
theorem other_contexts_irrelevant (k : Key) (r f : SFrame) (h : f.ctx ≠ k.1) : hits k r f = false :=
  hits_other_context h

/-- with the same ids, in id order: the handler id is the id of the retained register frame -/
theorem restored_in_id_order (h : List SFrame) : (compact h).Pairwise (fun a b => a.id ≤ b.id) :=
  sortById_sorted _

/-- historical triggers are not re-executed by a handler resuming from tail -/
theorem tail_resume_skips_history (cfg : HCfg) (hist live : List SFrame) (thr : SFrame) :
    subscription cfg .tail hist live thr = live.filter (fun f => f.ctx = cfg.ctx) := rfl

/-- non-vacuity: same name in two contexts, one replaced, one unregistered, one failed -/
example :
    (compact [
      { topic := "h.register", ctx := 1, id := 1 }, { topic := "h.register", ctx := 2, id := 2 },
      { topic := "h.register", ctx := 1, id := 3 }, { topic := "g.register", ctx := 1, id := 4 },
      { topic := "g.unregister", ctx := 1, id := 5 }, { topic := "e.register", ctx := 2, id := 6 },
      { topic := "e.unregistered", ctx := 2, id := 7, mdata := some [("handler_id", idText 6)] },
      { topic := "h.unregistered", ctx := 1, id := 8, mdata := some [("handler_id", idText 1)] }]).map (·.id) = [2, 3] := by
  decide

end Xs.C17
