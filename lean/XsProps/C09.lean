/-
  C09  TTL policies are enforced: ephemeral, time:N, head:N.
-/
import XsProps.Common
import XsProofs.History
namespace Xs.C09

/-- an ephemeral frame is broadcast to the followers subscribed at that moment and never
    stored: partitions, registry and gc queue are exactly as before the append … -/
theorem ephemeral_never_stored (s s' : State) (f0 f : Frame) (id : Nat)
    (e : s.append f0 id = .ok (s', f)) (he : f.ttl = some .ephemeral) :
    s'.stream = s.stream ∧ s'.idxT = s.idxT ∧ s'.idxC = s.idxC ∧ s'.contexts = s.contexts ∧
    s'.gcq = s.gcq ∧ s'.bcast = s.bcast ++ [f] := append_ephemeral e he

/-- … so no later read, lookup, head or reopen can return it: the stored frames are unchanged -/
theorem ephemeral_not_in_frames (s s' : State) (f0 f : Frame) (id : Nat)
    (e : s.append f0 id = .ok (s', f)) (he : f.ttl = some .ephemeral) : frames s' = frames s := by
  simp [frames, (append_ephemeral e he).1]

/-- a `time:N` frame is never returned by either stream read once N ms have passed since its
    id timestamp -/
theorem time_not_returned (ops : List Op) (w : WfOps ops) (ctx last limit : Option Nat) (now : Nat)
    (wr : WfRead ctx last) :
    (∀ f ∈ ((after ops).readSync ctx last limit now).2, f.expired now = false) ∧
    (∀ f ∈ ((after ops).readHist ctx last limit now).2, f.expired now = false) := by
  have h := (after_inv w).k
  constructor
  · intro f hf
    rw [readSync_spec h wr] at hf
    have := (cut_sublist limit _).subset hf
    simp only [liveHistory, List.mem_filter, Bool.and_eq_true, liveAt, Bool.not_eq_true'] at this
    exact this.2.2
  · intro f hf
    rw [readHist_spec h wr] at hf
    have := (cut_sublist limit _).subset hf
    simp only [liveHistory, List.mem_filter, Bool.and_eq_true, liveAt, Bool.not_eq_true'] at this
    exact this.2.2

/-- … and is physically gone once the collector has drained after such a read -/
theorem time_collected_after_drain (ops : List Op) (w : WfOps ops) (ctx last : Option Nat) (now : Nat)
    (wr : WfRead ctx last) (f : Frame) (hf : f ∈ frames (after ops)) (h1 : inScope ctx f = true)
    (h2 : afterLast last f = true) (he : f.expired now = true) :
    ∀ g ∈ frames (((after ops).readSync ctx last none now).1.drain), g.id ≠ f.id := by
  have hI := after_inv w
  have hq := reachable_gcWf ops w
  have hmem : f ∈ (after ops).iterFrames ctx last := by
    rw [iterFrames_spec hI.k wr]; simp [List.mem_filter, hf, h1, h2]
  have htask : GCTask.remove f.id ∈ ((after ops).readSync ctx last none now).1.gcq := by
    simp only [State.readSync, Option.getD]
    exact List.mem_append_right _ (readSyncGo_tasks_complete now _ _ (Nat.le_refl _) f hmem he)
  have hI' : Inv ((after ops).readSync ctx last none now).1 := readSync_inv hI ctx last none now
  have hq' : GcWf ((after ops).readSync ctx last none now).1 :=
    gcWf_step hI hq (op := .readSync ctx last none now) trivial
  have hI'' : Inv ({ ((after ops).readSync ctx last none now).1 with gcq := [] }) :=
    inv_of_parts hI' rfl rfl rfl rfl
  exact foldl_applyTask_removes hI'' _ hq' f.id htask

/-- after the collector has drained, a (context, topic) for which a `head:k` check is pending
    — i.e. whose `head:k` frame was appended since the last drain — holds at most `k` frames -/
theorem head_bound_after_drain (ops : List Op) (w : WfOps ops) (c : Nat) (t : List Nat) (k : Nat)
    (hpending : GCTask.checkHead c t k ∈ (after ops).gcq) :
    (topicFrames (after ops).drain c t).length ≤ k := by
  have hI := after_inv w
  have hq := reachable_gcWf ops w
  have hI' : Inv ({ after ops with gcq := [] }) := inv_of_parts hI rfl rfl rfl rfl
  exact foldl_applyTask_head_bound hI' _ hq hpending

/-- appending a stored `head:k` frame makes that check pending -/
theorem head_append_queues_check (s s' : State) (f0 f : Frame) (id : Nat) (k : Nat)
    (e : s.append f0 id = .ok (s', f)) (hk : f.ttl = some (.head k)) :
    GCTask.checkHead f.ctx f.topic k ∈ s'.gcq := by
  rw [append_gcq e]
  apply List.mem_append_right
  simp [hk, headTask]

/-- the frames that survive a head check are exactly the `k` newest of the topic: no older
    frame survives while a newer one is evicted -/
theorem head_check_keeps_newest (ops : List Op) (w : WfOps ops) (c : Nat) (t : List Nat) (k : Nat)
    (hc : c < idBound) (ht : NulFree t) :
    topicFrames ((after ops).applyTask (.checkHead c t k)) c t =
      (topicFrames (after ops) c t).drop ((topicFrames (after ops) c t).length - k) :=
  checkHead_topic (after_inv w) ht hc k

/-- streaming read path, clock moving while the scan is under way: a frame whose time has passed
    when the scan examines it is not returned - whatever the clock showed when the scan began -
    and a frame that is returned had not expired at that moment -/
theorem scan_judges_each_frame_by_the_clock_then (clock : Nat → Nat) (j : Nat) (fs : List Frame) :
    ∀ f ∈ scanClock clock j fs, ∃ k, fs[k]? = some f ∧ f.expired (clock (j + k)) = false := by
  induction fs generalizing j with
  | nil => intro f hf; simp [scanClock] at hf
  | cons g rest ih =>
    intro f hf
    unfold scanClock at hf
    split at hf
    · obtain ⟨k, hk, he⟩ := ih (j + 1) f hf
      exact ⟨k + 1, by simpa using hk, by rw [← he]; congr 2; omega⟩
    · rename_i hne
      rcases List.mem_cons.mp hf with rfl | hf
      · exact ⟨0, rfl, by simpa using hne⟩
      · obtain ⟨k, hk, he⟩ := ih (j + 1) f hf
        exact ⟨k + 1, by simpa using hk, by rw [← he]; congr 2; omega⟩

/-- … and nothing that has not expired is lost: the scan returns, in order, exactly the frames
    that are unexpired when it reaches them -/
theorem scan_keeps_unexpired (clock : Nat → Nat) (j : Nat) (fs : List Frame) :
    (scanClock clock j fs).Sublist fs ∧
    ∀ k f, fs[k]? = some f → f.expired (clock (j + k)) = false → f ∈ scanClock clock j fs := by
  induction fs generalizing j with
  | nil => exact ⟨by simp [scanClock], by intro k f h; simp at h⟩
  | cons g rest ih =>
    obtain ⟨hs, hm⟩ := ih (j + 1)
    constructor
    · unfold scanClock; split
      · exact List.Sublist.cons _ hs
      · exact List.Sublist.cons_cons _ hs
    · intro k f hk he
      unfold scanClock
      cases k with
      | zero =>
        simp only [List.getElem?_cons_zero, Option.some.injEq] at hk
        subst hk
        simp only [Nat.add_zero] at he
        simp [he]
      | succ k =>
        simp only [List.getElem?_cons_succ] at hk
        have := hm k f hk (by rw [← he]; congr 2; omega)
        split
        · exact this
        · exact List.mem_cons_of_mem _ this

end Xs.C09
