/-
  C06  Contexts are isolated on every access path (store paths; the follow,
  HTTP and handler paths are in XsProps/C06b once those layers are modelled).
-/
import XsProps.Common
namespace Xs.C06

/-- a context-scoped scan returns only frames of that context — adjacent ids included -/
theorem scoped_scan_only_own (ops : List Op) (w : WfOps ops) (c : Nat) (last : Option Nat)
    (hc : c < idBound) (hl : ∀ l, last = some l → l < idBound) :
    ∀ f ∈ (after ops).iterFrames (some c) last, f.ctx = c := by
  intro f hf
  rw [iterFrames_ctx (after_inv w).k c last hc hl] at hf
  have := (List.mem_filter.1 hf).2
  simp [inScope] at this
  exact this.1

theorem scoped_read_only_own (ops : List Op) (w : WfOps ops) (c : Nat) (last limit : Option Nat)
    (now : Nat) (hc : c < idBound) (hl : ∀ l, last = some l → l < idBound) :
    (∀ f ∈ ((after ops).readSync (some c) last limit now).2, f.ctx = c) ∧
    (∀ f ∈ ((after ops).readHist (some c) last limit now).2, f.ctx = c) := by
  have wr : WfRead (some c) last := ⟨(by intro c' e; injection e with e; subst e; exact hc), hl⟩
  have h := (after_inv w).k
  constructor
  · intro f hf
    rw [readSync_spec h wr] at hf
    have := (cut_sublist limit _).subset hf
    simp [liveHistory, inScope] at this
    exact this.2.1.1
  · intro f hf
    rw [readHist_spec h wr] at hf
    have := (cut_sublist limit _).subset hf
    simp [liveHistory, inScope] at this
    exact this.2.1.1

/-- nothing of the context is hidden from its own scoped scan -/
theorem scoped_scan_complete (ops : List Op) (w : WfOps ops) (c : Nat) (hc : c < idBound)
    (f : Frame) (hf : f ∈ frames (after ops)) (e : f.ctx = c) :
    f ∈ (after ops).iterFrames (some c) none := by
  rw [iterFrames_ctx (after_inv w).k c none hc (by intro l e; cases e)]
  simp [List.mem_filter, hf, inScope, afterLast, e]

/-- `head` is per context -/
theorem head_only_own (ops : List Op) (w : WfOps ops) (t : List Nat) (c : Nat) (f : Frame)
    (hc : c < idBound) (hh : (after ops).head t c = some f) : f.ctx = c ∧ f.topic = t := by
  by_cases ht : hasNul t = true
  · rw [head_nul ht] at hh; cases hh
  · have ht' : NulFree t := hasNul_eq_false_iff.1 (by simpa using ht)
    rw [head_spec (after_inv w).k ht' hc] at hh
    have := List.mem_of_getLast? hh
    simpa [topicFrames] using (List.mem_filter.1 this).2

/-- only the explicit all-contexts read sees every context -/
theorem all_contexts_sees_all (ops : List Op) (w : WfOps ops) :
    (after ops).iterFrames none none = frames (after ops) := by
  rw [iterFrames_all (after_inv w).k none (by intro l e; cases e)]
  simp [afterLast]

end Xs.C06
