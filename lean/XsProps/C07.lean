/-
  C07  A context accepts appends iff it is registered, across restarts.
-/
import XsProps.Common
namespace Xs.C07

/-- the registry is a function of the stored frames alone, at every point of every history
    (appends, imports, removes, gc, restarts) -/
theorem registry_function_of_frames (ops : List Op) (w : WfOps ops) (c : Nat) :
    c ∈ (after ops).contexts ↔ c = 0 ∨ ∃ f ∈ frames (after ops), f.id = c ∧ f.isReg = true :=
  (after_inv w).c.iff c

/-- an append is accepted iff the topic has no NUL and either it is an `xs.context` frame in
    the zero context or its context is registered -/
theorem append_accepted_iff (s : State) (f : Frame) (id : Nat) :
    (∃ r, s.append f id = .ok r) ↔
      hasNul f.topic = false ∧ (if f.topic = xsContext then f.ctx = 0 else f.ctx ∈ s.contexts) := by
  constructor
  · rintro ⟨⟨s', f'⟩, e⟩
    exact ⟨(append_ok e).1, (append_ok e).2.2.1⟩
  · rintro ⟨h1, h2⟩; exact append_accepts h1 h2

/-- … i.e. iff its registering `xs.context` frame is currently stored in the zero context -/
theorem append_accepted_iff_registered (ops : List Op) (w : WfOps ops) (f : Frame) (id : Nat)
    (ht : f.topic ≠ xsContext) :
    (∃ r, (after ops).append f id = .ok r) ↔
      hasNul f.topic = false ∧
        (f.ctx = 0 ∨ ∃ g ∈ frames (after ops), g.id = f.ctx ∧ g.isReg = true) := by
  rw [append_accepted_iff, if_neg ht, registry_function_of_frames ops w]

/-- `xs.context` frames are accepted only in the zero context and kept forever whatever TTL
    was requested -/
theorem xs_context_zero_only_and_forever (s s' : State) (f0 f : Frame) (id : Nat)
    (ht : f0.topic = xsContext) (e : s.append f0 id = .ok (s', f)) :
    f0.ctx = 0 ∧ f.ttl = some .forever := by
  obtain ⟨_, hf, hc, _⟩ := append_ok e
  rw [if_pos ht] at hc
  exact ⟨hc, by rw [hf]; simp [ht]⟩

/-- a rejected append leaves no frame, no index entry, no registry change, no gc task and
    no broadcast behind -/
theorem rejected_append_no_trace (s : State) (f : Frame) (id : Nat)
    (h : ∀ r, s.append f id ≠ .ok r) : s.step (.append f id) = s := by
  simp only [State.step]
  cases e : s.append f id with
  | error _ => rfl
  | ok r => exact absurd e (h r)

/-- an accepted append broadcasts exactly the returned frame -/
theorem accepted_append_broadcasts (s s' : State) (f0 f : Frame) (id : Nat)
    (e : s.append f0 id = .ok (s', f)) : s'.bcast = s.bcast ++ [f] := (append_ok e).2.2.2

/-- the set of usable contexts is the same before and after the store is reopened -/
theorem reopen_same_registry (ops : List Op) (w : WfOps ops) (c : Nat) :
    c ∈ (after ops).reopen.contexts ↔ c ∈ (after ops).contexts := by
  have h1 := (reopen_inv (after_inv w).k).c.iff c
  have h2 := (after_inv w).c.iff c
  have : frames (after ops).reopen = frames (after ops) := rfl
  rw [h1, h2, this]

end Xs.C07
