/-
  C07  A context accepts appends iff it is registered, across restarts.
-/
import XsProps.Common
namespace Xs.C07

/-- the registry is a function of the stored frames alone, at every point of every history
    (appends, imports, removes, gc, restarts) -/
theorem registry_function_of_frames (ops : List Op) (w : WfOps ops) (c : Nat) :
    c ∈ (after ops).contexts ↔ c = 0 ∨ ∃ f ∈ frames (after ops), f.id = c ∧ f.isReg = true :=
  (after_inv w).c.iff c

/-- an append is accepted iff the topic has no NUL, either it is an `xs.context` frame in the
    zero context or its context is registered, and (unless ephemeral) its JSON reads back -/
theorem append_accepted_iff (s : State) (f : Frame) (id : Nat) :
    (∃ r, s.append f id = .ok r) ↔
      hasNul f.topic = false ∧ (if f.topic = xsContext then f.ctx = 0 else f.ctx ∈ s.contexts) ∧
      ((stamped f id).ttl = some .ephemeral ∨ f.decodable = true) := by
  constructor
  · rintro ⟨⟨s', f'⟩, e⟩
    obtain ⟨h1, h2, h3, h4⟩ := append_spec.1 e
    refine ⟨h1, h2, ?_⟩
    by_cases he : f'.ttl = some .ephemeral
    · left; rw [← h3]; exact he
    · right; simp only [he, if_false] at h4; have := h4.1; rw [h3] at this; simpa [stamped] using this
  · rintro ⟨h1, h2, h3⟩; exact append_accepts h1 h2 h3

/-- … i.e. iff its registering `xs.context` frame is currently stored in the zero context -/
theorem append_accepted_iff_registered (ops : List Op) (w : WfOps ops) (f : Frame) (id : Nat)
    (ht : f.topic ≠ xsContext) (hd : f.decodable = true) :
    (∃ r, (after ops).append f id = .ok r) ↔
      hasNul f.topic = false ∧
        (f.ctx = 0 ∨ ∃ g ∈ frames (after ops), g.id = f.ctx ∧ g.isReg = true) := by
  rw [append_accepted_iff, if_neg ht, registry_function_of_frames ops w]
  simp [hd]

/-- `xs.context` frames are accepted only in the zero context and kept forever whatever TTL
    was requested -/
theorem xs_context_zero_only_and_forever (s s' : State) (f0 f : Frame) (id : Nat)
    (ht : f0.topic = xsContext) (e : s.append f0 id = .ok (s', f)) :
    f0.ctx = 0 ∧ f.ttl = some .forever := by
  obtain ⟨_, hf, hc, _⟩ := append_ok e
  rw [if_pos ht] at hc
  exact ⟨hc, by rw [hf]; simp [ht]⟩

/-- a rejected append leaves no frame, no index entry, no registry change, no gc task and
    no broadcast behind -/
theorem rejected_append_no_trace (s : State) (f : Frame) (id : Nat)
    (h : ∀ r, s.append f id ≠ .ok r) : s.step (.append f id) = s := by
  simp only [State.step]
  cases e : s.append f id with
  | error _ => rfl
  | ok r => exact absurd e (h r)

/-- an accepted append broadcasts exactly the returned frame -/
theorem accepted_append_broadcasts (s s' : State) (f0 f : Frame) (id : Nat)
    (e : s.append f0 id = .ok (s', f)) : s'.bcast = s.bcast ++ [f] := (append_ok e).2.2.2

/-- the set of usable contexts is the same before and after the store is reopened -/
theorem reopen_same_registry (ops : List Op) (w : WfOps ops) (c : Nat) :
    c ∈ (after ops).reopen.contexts ↔ c ∈ (after ops).contexts := by
  have h1 := (reopen_inv (after_inv w).k).c.iff c
  have h2 := (after_inv w).c.iff c
  have : frames (after ops).reopen = frames (after ops) := rfl
  rw [h1, h2, this]

end Xs.C07
