/-
  C03  Follow delivers every frame exactly once, in order, across history → live.

  `run {} as = some s`: any schedule of appends (any number of writers), one reader and its
  history / live / heartbeat tasks, interleaved at the granularity of the sync points.
  (Frames removed or expiring during the follow are outside this LTS: C08/C09.)
-/
import XsProofs.FollowHandover
namespace Xs.C03
open Xs.Follow

/-- history part: every stored frame in the reader's scope after its start position, up to
    where the scan has got, has been delivered — exactly once, in stored (id) order — and
    nothing else -/
theorem history_exactly_once (as : List Act) (s : Sys) (r : Reader) (e : run {} as = some s)
    (hr : s.reader = some r) :
    r.hout = s.committed.filter (fun f => scanScope r f && !afterId r.cursor f) :=
  ((run_allInv allInv_init as e).g.inv.rd r hr).hout_eq

/-- live part: what the live task has taken plus what is still queued is exactly what was
    broadcast since the subscription (ephemeral frames included), in order — nothing is
    skipped — as long as the stream is open and has not lagged -/
theorem live_no_gap (as : List Act) (s : Sys) (r : Reader) (e : run {} as = some s)
    (hr : s.reader = some r) (hf : r.opts.follow = true) (hl : r.lagged = false)
    (hopen : r.lphase ≠ .ended) : r.taken ++ r.queue = s.bcast.drop r.subAt :=
  ((run_allInv allInv_init as e).g.inv.rd r hr).sub_all hf hl hopen

/-- … and of the frames taken, exactly those in the reader's scope are delivered: the live
    side never drops a frame appended after the subscription as "already seen" -/
theorem live_delivers_all_in_scope (as : List Act) (s : Sys) (r : Reader) (e : run {} as = some s)
    (hr : s.reader = some r) (hf : r.opts.follow = true) :
    r.lout = r.taken.filter (inScope r.opts.ctx) := by
  have hA := run_allInv allInv_init as e
  have hR := hA.g.inv.rd r hr
  rw [hR.lout_eq]
  apply List.filter_congr
  intro f hfm
  apply livePass_of_new (hA.g.cutc r hr) hf
  exact hR.sub_prefix.sublist.subset (List.mem_append_left _ hfm)

/-- the delivered frames are the history part followed by the live part … -/
theorem out_is_history_then_live (as : List Act) (s : Sys) (r : Reader) (e : run {} as = some s)
    (hr : s.reader = some r) : realFrames r.out = r.hout ++ r.lout :=
  ((run_allInv allInv_init as e).g.inv.rd r hr).out_eq

/-- … strictly increasing in id, hence never twice -/
theorem deliveries_strictly_increasing (as : List Act) (s : Sys) (r : Reader) (e : run {} as = some s)
    (hr : s.reader = some r) (hf : r.opts.follow = true) : Sorted (realFrames r.out) :=
  let hA := run_allInv allInv_init as e
  deliveries_sorted hA.g.inv.i1 (hA.g.inv.rd r hr) (hA.g.cutc r hr) hf

/-- the history part holds only frames that existed when the read began (id ≤ cut), the live
    part only frames appended afterwards (id > cut) -/
theorem cut_separates (as : List Act) (s : Sys) (r : Reader) (e : run {} as = some s)
    (hr : s.reader = some r) (hf : r.opts.follow = true) :
    ∃ c, r.cut = some c ∧ (∀ f ∈ r.hout, f.id ≤ c) ∧ (∀ f ∈ s.bcast.drop r.subAt, c < f.id) := by
  obtain ⟨c, h1, _, h3, h4, _, _⟩ := ((run_allInv allInv_init as e).g.cutc r hr).cut hf
  exact ⟨c, h1, h3, h4⟩

/-- when the replay of an unlimited follow has handed over: exactly one `xs.threshold`, after
    the whole history part and before everything delivered live -/
theorem threshold_once_and_placed (as : List Act) (s : Sys) (r : Reader) (e : run {} as = some s)
    (hr : s.reader = some r) (hh : r.hphase = .handed) (hl : r.opts.limit = none) :
    ∃ A B, r.out = A ++ [Out.threshold] ++ B ∧ thresholds A = 0 ∧ thresholds B = 0 ∧
      realFrames A = r.hout ∧ realFrames B = r.lout :=
  (((run_allInv allInv_init as e).g.thr r hr).post hh).1 hl

/-- before the hand-over (and for tail reads, always) no threshold has been delivered -/
theorem no_threshold_before_handover (as : List Act) (s : Sys) (r : Reader) (e : run {} as = some s)
    (hr : s.reader = some r) (hh : r.hphase = .scanning ∨ r.hphase = .stopped ∨ r.hphase = .none) :
    thresholds r.out = 0 :=
  ((run_allInv allInv_init as e).g.thr r hr).pre hh

/-- subscription and hand-over are ordered: nothing is delivered live while the replay runs -/
theorem nothing_live_during_replay (as : List Act) (s : Sys) (r : Reader) (e : run {} as = some s)
    (hr : s.reader = some r) (hh : r.hphase = .scanning) : r.lout = [] := by
  have hR := (run_allInv allInv_init as e).g.inv.rd r hr
  rw [hR.lout_eq, (hR.ph_scan hh).1]; rfl

/-- the history part is complete: once a following reader has handed over, it has delivered
    every stored frame in its scope with an id up to its cut - nothing that existed when it
    subscribed was skipped -/
theorem history_complete_at_handover (as : List Act) (s : Sys) (r : Reader) (e : run {} as = some s)
    (hr : s.reader = some r) (hh : r.hphase = .handed) :
    ∃ c, r.cut = some c ∧ r.hout = s.committed.filter (fun f => scanScope r f && decide (f.id ≤ c)) :=
  Xs.Follow.history_complete_at_handover as s r e hr hh

/-- the whole delivery of an unlimited follow that has caught up (hand-over done, queue drained,
    not lagged): every stored in-scope frame up to the cut, exactly one threshold, then every
    in-scope frame broadcast since the subscription - this is the `subscription` the handler
    model (XsModel/Handler.lean) starts from -/
theorem caught_up_delivery (as : List Act) (s : Sys) (r : Reader) (e : run {} as = some s)
    (hr : s.reader = some r) (hh : r.hphase = .handed) (hl : r.opts.limit = none)
    (hlag : r.lagged = false) (hopen : r.lphase ≠ .ended) (hq : r.queue = []) :
    ∃ c A B, r.cut = some c ∧ r.out = A ++ [Out.threshold] ++ B ∧ thresholds A = 0 ∧ thresholds B = 0 ∧
      realFrames A = s.committed.filter (fun f => scanScope r f && decide (f.id ≤ c)) ∧
      realFrames B = (s.bcast.drop r.subAt).filter (inScope r.opts.ctx) := by
  obtain ⟨c, hc, hhist⟩ := history_complete_at_handover as s r e hr hh
  obtain ⟨A, B, ho, hA, hB, hra, hrb⟩ := threshold_once_and_placed as s r e hr hh hl
  have hfol := ((run_allInv allInv_init as e).p r hr).handed_follow hh
  refine ⟨c, A, B, hc, ho, hA, hB, by rw [hra, hhist], ?_⟩
  rw [hrb, live_delivers_all_in_scope as s r e hr hfol]
  have := live_no_gap as s r e hr hfol hlag hopen
  rw [hq, List.append_nil] at this
  rw [this]

end Xs.C03
