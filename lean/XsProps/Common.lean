/-
  Vocabulary shared by the property files.
-/
import XsProofs.Reads
namespace Xs

/-- every operation of the history has 128-bit ids (the only assumption on histories) -/
def WfOps (ops : List Op) : Prop := ∀ op ∈ ops, WfOp op

/-- the state after a history, starting from the empty store -/
def after (ops : List Op) : State := State.init.run ops

theorem after_inv {ops : List Op} (w : WfOps ops) : Inv (after ops) := reachable_inv ops w

end Xs
