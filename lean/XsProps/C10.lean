/-
  C10  Content store: byte-exact, content-addressed, present before its frame
  (HTTP entry points; the nu / handler / command / generator entry points write content
  through the same `cas_insert`-then-`append` order, checked by the serve-layer monitor).
-/
import XsProofs.Route
namespace Xs.C10
open Xs.Http Xs.Wire

/-- content written through POST /cas is returned byte for byte under the reported hash -/
theorem cas_post_then_get (s : Srv) (r : Request) (hb : r.body.isEmpty = false) (hok : r.bodyBroken = false)
    (hfree : ∀ b', casGet s.cas r.bodyHash = some b' → b' = r.body) :
    (handleCasPost s r).2 = .hashText r.bodyHash ∧
    casGet (handleCasPost s r).1.cas r.bodyHash = some r.body := by
  unfold handleCasPost handleCasPostRead
  simp only [hb, hok, Bool.false_eq_true, if_false]
  exact ⟨trivial, casGet_casPut_self _ _ _ hfree⟩

/-- an empty POST /cas is rejected -/
theorem cas_post_empty_rejected (s : Srv) (r : Request) (hb : r.body.isEmpty = true) :
    handleCasPost s r = (s, .badRequest) := by
  simp [handleCasPost, handleCasPostRead, hb]

/-- a body that cannot be read to its end writes nothing: no content, no frame -/
theorem broken_body_writes_nothing (s : Srv) (r : Request) (topic : List Nat) (ttl : TTL) (ctx : Nat)
    (hb : r.bodyBroken = true) :
    handleCasPost s r = (s, .badRequest) ∧ handleAppend s r topic ttl ctx = (s, .badRequest) ∧
    handleImport s r = (s, .badRequest) := by
  simp [handleCasPost, handleAppend, handleImport, hb]

/-- POST /{topic}: no body ⇒ no hash; a body ⇒ the frame carries the content's hash and the
    content is in the CAS in the same state in which the frame first exists -/
theorem append_content_before_frame (s : Srv) (r : Request) (topic : List Nat) (ttl : TTL) (ctx : Nat)
    (f : Frame) (hr : (handleAppend s r topic ttl ctx).2 = .frame f)
    (hfree : ∀ b', casGet s.cas r.bodyHash = some b' → b' = r.body) :
    (r.body.isEmpty = true → f.hash = none) ∧
    (r.body.isEmpty = false → f.hash = some r.bodyHash ∧
      casGet (handleAppend s r topic ttl ctx).1.cas r.bodyHash = some r.body) :=
  append_hash s r topic ttl ctx f hr hfree

/-- content, once written, stays retrievable under its hash through every later request -/
theorem content_never_lost (s : Srv) (r : Request) (h : String) (b : List Nat)
    (hg : casGet s.cas h = some b) : casGet (handle s r).1.cas h = some b :=
  cas_monotone s r h b hg

/-- the hash is a function of the bytes alone: the model takes it from the request's body
    (`bodyHash`), never from the route, the topic, the context or the server state -/
theorem hash_depends_only_on_body (s s2 : Srv) (r r2 : Request) (hb : r.body = r2.body)
    (hh : r.bodyHash = r2.bodyHash) (hne : r.body.isEmpty = false)
    (hok : r.bodyBroken = false) (hok2 : r2.bodyBroken = false) :
    (handleCasPost s r).2 = (handleCasPost s2 r2).2 := by
  simp [handleCasPost, handleCasPostRead, ← hb, ← hh, hne, hok, hok2]

end Xs.C10
