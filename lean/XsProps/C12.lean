/-
  C12  Wire formats round-trip; nothing accepted can poison later reads.
-/
import XsProofs.Json
import XsProps.Common
namespace Xs.C12
open Xs.Wire

/-- TTL values survive their text spelling (the JSON string and the `ttl=` query value) -/
theorem ttl_roundtrip (t : TTL) (w : WfTTL t) : parseTTL (printTTL t) = .ok t := parseTTL_printTTL t w

/-- whatever parses is a representable value: `head:0`, overflowing or malformed numbers,
    unknown keywords never become a TTL, hence are never stored -/
theorem ttl_parse_sound (s : Text) (t : TTL) (h : parseTTL s = .ok t) : WfTTL t := parseTTL_wf s t h

theorem ttl_rejects :
    parseTTL (sHead ++ [48]) = .err .headZero ∧ parseTTL (sTime ++ [45, 49]) = .err .badDuration ∧
    parseTTL sTime = .err .badDuration ∧ parseTTL [110, 101, 118, 101, 114] = .err .badFormat ∧
    parseTTL (sHead ++ [49, 120]) = .err .badHeadN :=
  ⟨parseTTL_head_zero, parseTTL_negative, parseTTL_empty_number, parseTTL_unknown, parseTTL_trailing⟩

/-- unsigned numbers and ids survive print → parse -/
theorem number_roundtrip (max n : Nat) (h : n ≤ max) : parseUnsigned max (showNat n) = some n :=
  parseUnsigned_showNat h

theorem id_roundtrip (n : Nat) (h : n < 2 ^ 128) : parseId (showId n) = some n := parseId_showId h

/-- read options survive the trip from the client's query encoding to the server's parser:
    all follow modes, ms-granular heartbeats, tail, last-id, limit, context -/
theorem read_options_roundtrip (o : ReadOpts) (w : WfOpts o) : fromQuery (toQuery o) = .ok o :=
  fromQuery_toQuery o w

/-- a query of plain key/value pairs survives the form-urlencoded text layer -/
theorem query_pairs_roundtrip (ps : List (Text × Text)) (h : ∀ kv ∈ ps, PlainPair kv) :
    parseQuery (renderQuery ps) = ps := parseQuery_renderQuery ps h

theorem query_rejects :
    fromQuery (kLimit ++ [61, 49, 38] ++ kLimit ++ [61, 50]) = .err .duplicate ∧
    fromQuery (kFollow ++ [61, 109, 97, 121, 98, 101]) = .err .badFollow ∧
    fromQuery (kLimit ++ [61, 45, 49]) = .err .badLimit ∧
    fromQuery (kLastId ++ [61, 97, 98, 99]) = .err .badId :=
  ⟨duplicate_key_rejected, bad_follow_rejected, negative_limit_rejected, short_id_rejected⟩

/-- every well-formed frame serialises to JSON (value tree) that parses back identical -/
theorem frame_json_roundtrip (hs : HashSpec) (f : WFrame) (w : WfWFrame hs f) :
    decodeFrame hs (encodeFrame f) = .ok f := decode_encode hs f w

/-- the nesting limit: a frame whose meta is nested 127 deep serialises but does not parse
    back — the store must refuse it (it does: see `stored_frames_decodable`) -/
theorem deep_meta_undecodable (hs : HashSpec) :
    (decodeFrame hs (encodeFrame { topic := [], ctx := 0, id := 0, hash := none, mdata := some (nest 126), ttl := none })).toOption.isNone = true :=
  deep_meta_does_not_decode hs

/-- nothing accepted can poison later reads: after every history, every stored frame is one
    whose JSON parses back (`decodable` is computed from the frame's JSON by the nesting rule
    of `decodeFrame`; `insert_frame` refuses the others) -/
theorem stored_frames_decodable (ops : List Op) (w : WfOps ops) (f : Frame) (hf : f ∈ frames (after ops)) :
    f.decodable = true := ((after_inv w).k.wfFrame hf).dec

/-- an undecodable frame is rejected by append (unless ephemeral: never stored) and by import,
    leaving the store as it was -/
theorem undecodable_rejected (s : State) (f : Frame) (id : Nat) (hd : f.decodable = false)
    (hne : (stamped f id).ttl ≠ some .ephemeral) :
    s.step (.append f id) = s ∧ s.step (.importF f) = s := by
  constructor
  · simp only [State.step]
    cases e : s.append f id with
    | error _ => rfl
    | ok r =>
      obtain ⟨s', f'⟩ := r
      obtain ⟨_, _, h3, h4⟩ := append_spec.1 e
      rw [h3] at h4
      simp only [hne, if_false] at h4
      have := h4.1
      simp [stamped, hd] at this
  · simp only [State.step]
    cases e : s.insertFrame f with
    | error _ => rfl
    | ok s' => have := (insertFrame_ok e).1; rw [hd] at this; cases this

end Xs.C12
