/-
  C05  All lookups agree; head is the newest frame of exactly that topic.
-/
import XsProps.Common
namespace Xs.C05

/-- by id ⇔ in the all-contexts stream ⇔ in its own context's stream - for every 128-bit
    context id (the all-ones id included: its scan range is open-ended; F12, fixed) -/
theorem lookups_agree (ops : List Op) (w : WfOps ops) (f : Frame) (hid : f.id < idBound)
    (hc : f.ctx < idBound) :
    ((after ops).get f.id = some f ↔ f ∈ (after ops).iterFrames none none) ∧
    ((after ops).get f.id = some f ↔ f ∈ (after ops).iterFrames (some f.ctx) none) := by
  have h := (after_inv w).k
  rw [get_spec h hid, iterFrames_spec h (ctx := none) (last := none) ⟨(by intro c e; cases e), (by intro l e; cases e)⟩,
    iterFrames_spec h (ctx := some f.ctx) (last := none)
      ⟨(by intro c e; injection e with e; subst e; exact hc), (by intro l e; cases e)⟩]
  simp [List.mem_filter, inScope, afterLast]

/-- `head(topic, ctx)` = the last frame of that context's stream whose topic equals `topic`
    byte for byte; `none` if there is none -/
theorem head_exact (ops : List Op) (w : WfOps ops) (t : List Nat) (c : Nat) (ht : NulFree t)
    (hc : c < idBound) :
    (after ops).head t c =
      (topicFrames (after ops) c t).getLast? :=
  head_spec (after_inv w).k ht hc

/-- the stream of the context, filtered to the topic, is what `head` looks at: same thing
    phrased through the context-scoped read -/
theorem head_is_last_of_context_stream (ops : List Op) (w : WfOps ops) (t : List Nat) (c : Nat)
    (ht : NulFree t) (hc : c < idBound) :
    (after ops).head t c =
      (((after ops).iterFrames (some c) none).filter (fun f => decide (f.topic = t))).getLast? := by
  have h := (after_inv w).k
  rw [head_exact ops w t c ht hc, topicFrames,
    iterFrames_spec h (ctx := some c) (last := none)
      ⟨(by intro c' e; injection e with e; subst e; exact hc), (by intro l e; cases e)⟩,
    List.filter_filter]
  congr 1
  apply List.filter_congr
  intro f _
  simp [inScope, afterLast, Bool.and_comm]

/-- a queried topic containing NUL has no head -/
theorem head_nul_none (s : State) (t : List Nat) (c : Nat) (ht : hasNul t = true) :
    s.head t c = none := head_nul ht

/-- a topic containing NUL is rejected by append ... -/
theorem append_nul_rejected (s : State) (f : Frame) (id : Nat) (ht : hasNul f.topic = true) :
    ∀ r, s.append f id ≠ .ok r := by
  intro r e
  obtain ⟨s', f'⟩ := r
  have := (append_ok e).1
  rw [ht] at this; cases this

/-- ... and by import, and neither leaves any trace (state, indexes, registry, gc queue,
    broadcast log all unchanged) -/
theorem nul_leaves_no_trace (s : State) (f : Frame) (id : Nat) (ht : hasNul f.topic = true) :
    s.step (.append f id) = s ∧ s.step (.importF f) = s := by
  constructor
  · simp only [State.step]
    cases e : s.append f id with
    | error _ => rfl
    | ok r => exact absurd e (append_nul_rejected s f id ht r)
  · simp only [State.step]
    cases e : s.insertFrame f with
    | error _ => rfl
    | ok s' => have := (insertFrame_ok e).2.1; rw [ht] at this; cases this

/-- the three partitions stay in lock-step over every history: the index keys are exactly
    those of the stored frames -/
theorem partitions_in_lockstep (ops : List Op) (w : WfOps ops) :
    (∀ k, (k, ()) ∈ (after ops).idxT ↔ ∃ f ∈ frames (after ops), k = topicKey f.ctx f.topic f.id) ∧
    (∀ k, (k, ()) ∈ (after ops).idxC ↔ ∃ f ∈ frames (after ops), k = ctxKey f.ctx f.id) :=
  ⟨(after_inv w).k.tKeys, (after_inv w).k.cKeys⟩

end Xs.C05
