/-
  C16  Handler lifecycle: one active instance per name and context.

  Models: XsModel/Handler.lean (one instance), XsModel/Registry.lean (`startHandler`,
  `compactStep`), XsModel/ServeMulti.lean (the serve loop, all its instances and the clients on
  one stream, any interleaving).  The announce-after-subscribe order is the order of `Handler::spawn`; the
  correspondence check observes it at the sync points handler.subscribed / handler.announce and
  the broadcast of `<name>.registered`.
-/
import XsProofs.ServeSys
import XsProofs.ServeMulti
namespace Xs.C16
open Xs.Serve

variable {σ : Type}

/-- a new `.register` (or an `.unregister`) of its name stops the instance, with exactly one
    `<name>.unregistered` naming it and the frame that stopped it -/
theorem replaced_or_unregistered (cfg : HCfg) (eval : σ → SFrame → σ × EvalRes) (env : σ) (f : SFrame)
    (hr : isRegTraffic cfg f = true) (hlater : cfg.id < f.id) :
    step cfg eval .running env f = (.stopped, env, [unregistered cfg f none], false) :=
  replaced_or_unregistered_stops cfg eval env f hr hlater

/-- … so at most one instance per (context, name) outlives a later registration: once the
    subscription holds a later `.register` / `.unregister` of its name, the instance is stopped -/
theorem replaced_instance_is_stopped (cfg : HCfg) (eval : σ → SFrame → σ × EvalRes) (st : HState) (env : σ)
    (l : List SFrame) (f : SFrame) (hf : f ∈ l) (hr : isRegTraffic cfg f = true) (hlater : cfg.id < f.id) :
    (run cfg eval st env l).1 = .stopped := run_stopped_of_regtraffic cfg eval st env l f hf hr hlater

/-- a closure error stops it, announced with the error -/
theorem closure_error_stops (cfg : HCfg) (eval : σ → SFrame → σ × EvalRes) (env env' : σ) (f : SFrame)
    (msg : String) (hd : dispatch cfg f = .invoke) (he : eval env f = (env', .error msg)) :
    step cfg eval .running env f = (.stopped, env', [unregistered cfg f (some msg)], true) :=
  error_is_all_or_nothing cfg eval env env' f msg hd he

/-- an invalid script never becomes an instance and is announced by one `<name>.unregistered` -/
theorem invalid_script_rejected (parse : SFrame → Except String (HCfg × Resume)) (name : String)
    (stream : List SFrame) (r : SFrame) (e : String) (h : parse r = .error e) :
    startHandler parse name stream r = (stream ++ [rejectedFrame name r e], none) :=
  rejected_announced parse name stream r e h

/-- each stop is announced exactly once: it is the last frame the instance ever emits -/
theorem stop_announced_exactly_once (cfg : HCfg) (eval : σ → SFrame → σ × EvalRes) (env : σ) (l : List SFrame)
    (hs : (run cfg eval .running env l).1 = .stopped) :
    ∃ p f q e, l = p ++ f :: q ∧ (run cfg eval .running env p).1 = .running ∧
      (run cfg eval .running env l).2.2.1 = (run cfg eval .running env p).2.2.1 ++ [unregistered cfg f e] :=
  stop_announced_once cfg eval env l hs

/-- a stopped instance processes nothing further -/
theorem stopped_processes_nothing (cfg : HCfg) (eval : σ → SFrame → σ × EvalRes) (env : σ) (l : List SFrame) :
    run cfg eval .stopped env l = (.stopped, env, [], []) := stopped_inert cfg eval env l

/-- once `<name>.registered` is visible the handler is subscribed: everything appended from
    then on is in the live part of its subscription -/
theorem registered_means_subscribed (parse : SFrame → Except String (HCfg × Resume)) (name : String)
    (stream : List SFrame) (r : SFrame) (s' : List SFrame) (st : Started)
    (h : startHandler parse name stream r = (s', some st)) (later : List SFrame) :
    (s' ++ later).drop st.subAt = registeredFrame st.cfg :: later :=
  subscribed_before_announced parse name stream r s' st h later

/-- a tail handler that starts was not replaced or unregistered between its `.register` and its
    subscription - so every later `.register` / `.unregister` of its name reaches it live and
    stops it: at most one instance per (context, name) stays active -/
theorem started_tail_sees_all_later_traffic (parse : SFrame → Except String (HCfg × Resume)) (name : String)
    (stream : List SFrame) (r : SFrame) (s' : List SFrame) (st : Started)
    (h : startHandler parse name stream r = (s', some st)) (ht : st.resume = .tail) :
    ∀ f ∈ stream, f.ctx = st.cfg.ctx → st.cfg.id < f.id → isRegTraffic st.cfg f = false :=
  started_tail_not_superseded parse name stream r s' st h ht

/-- … and one that was never starts; its stop is announced once -/
theorem superseded_tail_never_starts (parse : SFrame → Except String (HCfg × Resume)) (name : String)
    (stream : List SFrame) (r : SFrame) (cfg : HCfg) (f : SFrame)
    (hp : parse r = .ok (cfg, .tail)) (hl : laterTraffic cfg stream = some f) :
    startHandler parse name stream r = (stream ++ [unregistered cfg f none], none) :=
  superseded_never_starts parse name stream r cfg f hp hl

/-- at most one active instance per (context, name), whichever resume mode and wherever the
    replacing frame fell relative to the subscription: once a later `.register` / `.unregister`
    of its name and context is stored, a started instance that has gone through its subscription
    is stopped -/
theorem replaced_started_instance_is_stopped (parse : SFrame → Except String (HCfg × Resume)) (name : String)
    (pre : List SFrame) (r : SFrame) (s' : List SFrame) (st : Started)
    (h : startHandler parse name pre r = (s', some st)) (ext : List SFrame) (thr f : SFrame)
    (hf : f ∈ s' ++ ext) (hctx : f.ctx = st.cfg.ctx) (hreg : isRegTraffic st.cfg f = true)
    (hlater : st.cfg.id < f.id) (hres : ∀ x, st.resume = .after x → x < f.id)
    (eval : σ → SFrame → σ × EvalRes) (env : σ) :
    (run st.cfg eval .running env (subscription st.cfg st.resume pre ((s' ++ ext).drop st.subAt) thr)).1 = .stopped :=
  started_instance_replaced_is_stopped parse name pre r s' st h ext thr f hf hctx hreg hlater hres eval env

/-- every `.register` the serve loop gets to is answered by exactly one frame: `<name>.registered`
    (an instance exists, subscribed at that point) or one `<name>.unregistered` (script rejected, or
    a tail handler superseded before it subscribed) and no instance -/
theorem every_register_answered_once (parse : SFrame → Except String (HCfg × Resume)) (name : String)
    (stream : List SFrame) (r : SFrame) :
    (∃ st, startHandler parse name stream r = (stream ++ [registeredFrame st.cfg], some st) ∧
        st.subAt = stream.length) ∨
    (∃ e, parse r = .error e ∧
        startHandler parse name stream r = (stream ++ [rejectedFrame name r e], none)) ∨
    (∃ cfg f, parse r = .ok (cfg, .tail) ∧ laterTraffic cfg stream = some f ∧
        startHandler parse name stream r = (stream ++ [unregistered cfg f none], none)) :=
  start_answers_once parse name stream r

/-- the closed system (XsModel/ServeSys.lean: clients and other handlers append anything but the
    instance's stop announcement, the instance is handed its subscription frame by frame and its
    output goes back into the same stream): for every interleaving, the instance *is* `Handler.run`
    over what it has been handed, and what it emitted is in the stream -/
theorem closed_system_instance_is_run (cfg : HCfg) (eval : σ → SFrame → σ × EvalRes)
    (pre : List SFrame) (env0 : σ) (as : List LAct) (s : LiveSys σ)
    (e : lrun cfg eval pre (LiveSys.init env0) as = some s) :
    (run cfg eval .running env0 ((s.input cfg pre).take s.pos)).1 = s.st ∧
    (run cfg eval .running env0 ((s.input cfg pre).take s.pos)).2.1 = s.env ∧
    (run cfg eval .running env0 ((s.input cfg pre).take s.pos)).2.2.1 = s.outs ∧
    (∀ g ∈ s.outs, g ∈ s.live) := closed_system_is_run cfg eval pre env0 as s e

/-- each stop is announced, and only a stop is: in the closed system, once the instance has been
    handed everything there is, a `<name>.unregistered` naming it is in the stream exactly when it
    has stopped -/
theorem announcement_in_stream_iff_stopped (cfg : HCfg) (eval : σ → SFrame → σ × EvalRes)
    (hno : NoSelfAnnounce cfg eval) (pre : List SFrame) (env0 : σ) (as : List LAct) (s : LiveSys σ)
    (e : lrun cfg eval pre (LiveSys.init env0) as = some s) (hq : s.quiescent cfg pre) :
    (∃ g ∈ s.live, announces cfg g = true) ↔ s.st = .stopped :=
  announced_iff_stopped cfg eval hno pre env0 as s e hq

/-- the start-up scan keeps at most one registration per (context, name) -/
theorem one_registration_per_key (h : List SFrame) : ((compactTable h).map (·.key)).Nodup :=
  compact_one_per_key h

/-- non-vacuity: an instance, a trigger, its replacement -/
example :
    let cfg : HCfg := { id := 5, ctx := 0, name := "h" }
    let eval : Unit → SFrame → Unit × EvalRes := fun _ _ => ((), .ok [] (.value "1"))
    let r := run cfg eval .running () [{ topic := "a", ctx := 0, id := 6 }, { topic := "h.register", ctx := 0, id := 7 },
      { topic := "b", ctx := 0, id := 8 }]
    (r.1, r.2.2.1.map (·.topic)) = (HState.stopped, ["h.out", "h.unregistered"]) := by decide

/-- non-vacuity of the closed system: a client frame, the instance's answer going back into the
    stream and being skipped, a replacing `.register`, the stop announcement - and quiescence -/
example :
    let cfg : HCfg := { id := 5, ctx := 0, name := "h" }
    let eval : Unit → SFrame → Unit × EvalRes := fun _ _ => ((), .ok [] (.value "1"))
    let r := lrun cfg eval [] (LiveSys.init ())
      [.envAppend { topic := "a", ctx := 0, id := 6 }, .instStep, .instStep,
       .envAppend { topic := "h.register", ctx := 0, id := 8 }, .instStep, .instStep]
    (r.map (fun s => (s.st, s.pos, s.live.map (·.topic), decide (s.pos = (s.input cfg []).length)))) =
      some (HState.stopped, 4, ["a", "h.out", "h.register", "h.unregistered"], true) := by decide

/-- the joint system (XsModel/ServeMulti.lean: clients append anything, the serve loop starts a
    handler for every `.register` it gets to, every instance is handed its own subscription at
    its own pace and writes back into the shared stream), any interleaving from the empty store:
    of two instances of one name and context, the earlier one is stopped as soon as it has been
    handed what there is - at most one instance per (context, name) stays active -/
theorem at_most_one_active_instance (m : MCfg σ) (hparse : ParseOk m.parse) (hres : ResumeOk m.parse)
    (as : List MAct) (s : MSys σ) (e : mrun m MSys.init as = some s)
    (i j : Nat) (x y : Inst σ) (hi : s.insts[i]? = some x) (hj : s.insts[j]? = some y) (hij : i < j)
    (hctx : x.cfg.ctx = y.cfg.ctx) (hname : x.cfg.name = y.cfg.name) (hcx : x.caughtUp m.thr s.stream) :
    x.st = .stopped :=
  one_running_per_key hparse hres (mrun_inv hparse (minv_init m) as e) i j x y hi hj hij hctx hname hcx

/-- … and the one that is still running once it has been handed everything is the instance of the
    latest registration: no later `.register` or `.unregister` of its name is stored in its
    context -/
theorem active_instance_is_latest_registration (m : MCfg σ) (hparse : ParseOk m.parse) (hres : ResumeOk m.parse)
    (as : List MAct) (s : MSys σ) (e : mrun m MSys.init as = some s) (x : Inst σ) (hx : x ∈ s.insts)
    (hrun : x.st = .running) (hc : x.caughtUp m.thr s.stream) :
    ∀ f ∈ s.stream, f.ctx = x.cfg.ctx → isRegTraffic x.cfg f = true → f.id ≤ x.cfg.id :=
  survivor_is_latest hres (mrun_inv hparse (minv_init m) as e) x hx hrun hc

/-- a stopped instance processes nothing further: handing it a frame leaves the stream as it is -/
theorem stopped_instance_writes_nothing (m : MCfg σ) (s s' : MSys σ) (i : Nat) (x : Inst σ)
    (hi : s.insts[i]? = some x) (hst : x.st = .stopped) (e : mstep m s (.inst i) = some s') :
    s'.stream = s.stream := stopped_emits_nothing i x hi hst e

/-- non-vacuity of the joint system: two registrations of `h` in one context (the second a tail
    handler), a trigger; the first instance (resuming from the start) answers its threshold marker and the
    trigger, meets the second `.register` and stops; the second one answers what came after it
    subscribed - the first one's stop announcement and a later trigger -/
example :
    let m : MCfg Unit := {
      parse := fun r => .ok ({ id := r.id, ctx := r.ctx, name := "h" }, if r.id = 1 then .head else .tail),
      eval := fun _ _ _ => ((), .ok [] (.value "1")), env0 := fun _ => (), thr := { topic := "xs.threshold", ctx := 0, id := 0 } }
    let r := mrun m MSys.init [.client { topic := "h.register", ctx := 0, id := 0 }, .serve,
      .client { topic := "a", ctx := 0, id := 0 }, .client { topic := "h.register", ctx := 0, id := 0 },
      .inst 0, .inst 0, .inst 0, .inst 0, .serve, .serve, .serve, .serve, .inst 0, .inst 0,
      .client { topic := "b", ctx := 0, id := 0 }, .inst 1, .inst 1, .inst 1]
    r.map (fun s => (s.stream.map (fun f => (f.topic, f.id)), s.insts.map (fun x => (x.cfg.id, x.st, x.pos)))) =
      some ([("h.register", 1), ("h.registered", 2), ("a", 3), ("h.register", 4), ("h.out", 5), ("h.out", 6),
             ("h.registered", 7), ("h.unregistered", 8), ("b", 9), ("h.out", 10), ("h.out", 11)],
            [(1, HState.stopped, 6), (4, HState.running, 3)]) := by decide

end Xs.C16
