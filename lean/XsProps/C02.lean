/-
  C02  The stream is append-only even with concurrent writers.

  `run s as = some s'`: `as` is any schedule of the LTS (any number of writers competing for
  the append lock, a reader, in any interleaving of id-assignment / commit / broadcast /
  subscribe / scan / live steps) that the system can perform from `s`.
-/
import XsProofs.Follow
namespace Xs.C02
open Xs.Follow

/-- every reachable state keeps ids, commits and broadcasts totally ordered -/
theorem reachable_ordered (as : List Act) (s : Sys) (e : run {} as = some s) :
    Sorted s.committed ∧ Sorted s.bcast ∧ idsLe s.committed s.lastId :=
  let h := run_inv1 inv1_init as e
  ⟨h.cs, h.bs, h.cle⟩

/-- the visible stream only ever grows at its end: whatever happens between two moments, the
    later stream is the earlier one followed by frames with greater ids -/
theorem stream_grows_only_at_end (as bs : List Act) (s s' : Sys) (e : run {} as = some s)
    (e' : run s bs = some s') :
    ∃ new, s'.committed = s.committed ++ new ∧ ∀ f ∈ new, ∀ g ∈ s.committed, g.id < f.id :=
  run_committed_extends (run_inv1 inv1_init as e) bs e'

/-- no frame with a smaller id later becomes visible: once `g` is stored, anything stored
    afterwards has a greater id -/
theorem no_frame_appears_below (as bs : List Act) (s s' : Sys) (e : run {} as = some s)
    (e' : run s bs = some s') (f : Frame) (hf : f ∈ s'.committed) (hnew : f ∉ s.committed)
    (g : Frame) (hg : g ∈ s.committed) : g.id < f.id := by
  obtain ⟨new, e1, h1⟩ := stream_grows_only_at_end as bs s s' e e'
  rw [e1] at hf
  rcases List.mem_append.1 hf with h | h
  · exact absurd h hnew
  · exact h1 f h g hg

/-- a client that repeatedly reads with `last-id` = the last frame it saw receives every
    frame exactly once, however many writers append at the same time -/
theorem poller_exactly_once (as bs : List Act) (s s' : Sys) (e : run {} as = some s)
    (e' : run s bs = some s') :
    ∃ new, s'.committed = s.committed ++ new ∧
      pollAfter s'.committed (newestId s.committed) = new :=
  Xs.Follow.poller_exactly_once (run_inv1 inv1_init as e) bs e'

/-- live subscribers are sent frames in increasing id order -/
theorem broadcast_in_id_order (as : List Act) (s : Sys) (e : run {} as = some s) : Sorted s.bcast :=
  Xs.Follow.broadcast_in_id_order inv1_init as e

/-- the mechanism: while one append is between id assignment and broadcast, no other append
    can be assigned an id, and no follow can subscribe -/
theorem append_is_a_critical_section (s s1 : Sys) (f g : Frame) (i j : Nat) (o : ROpts) (c : Nat)
    (e : step s (.appendId f i) = some s1) :
    step s1 (.appendId g j) = none ∧ (o.follow = true → step s1 (.subscribe o c) = none) :=
  ⟨append_mutually_exclusive s f g i j s1 e, fun ho => subscribe_not_during_append s f i s1 o c e ho⟩

end Xs.C02
