/-
  C19  Command calls: ordered results, exactly one terminal event, no replay.

  Model: XsModel/Command.lean.  The closure is a parameter `eval : CDef → SFrame → CallRes`: the
  result of a call is a function of the definition and the call frame alone, which is the
  model's reading of "fresh engine clone per call".
-/
import XsProofs.Command
namespace Xs.C19
open Xs.Serve

variable (parse : SFrame → Except String CDef) (eval : CDef → SFrame → CallRes)

/-- one result frame per value, in order, on `<name><suffix>` with the configured TTL in the
    caller's context, followed by exactly one `<name>.complete` -/
theorem results_in_order_then_complete (d : CDef) (c : SFrame) (appends : List OutReq) (values : List String) :
    callOutputs d c (.ok appends values) =
      appends.map (cemit d c) ++ values.map (crecv d c) ++ [ccomplete d c] ∧
    (values.map (crecv d c)).map (·.content) = values.map some ∧
    (∀ o ∈ values.map (crecv d c), o.topic = d.name ++ d.suffix ∧ o.ttl = d.ttl ∧ o.ctx = c.ctx) ∧
    (ccomplete d c).ctx = c.ctx := call_ok_shape d c appends values

/-- or else exactly one `<name>.error` (after the results produced before the failure, none when
    the closure fails at once) and no `<name>.complete` -/
theorem failure_is_one_error (d : CDef) (c : SFrame) (appends : List OutReq) (values : List String) (msg : String) :
    callOutputs d c (.error appends values msg) =
      appends.map (cemit d c) ++ values.map (crecv d c) ++ [cerror d c msg] ∧
    (cerror d c msg).ctx = c.ctx := call_error_shape d c appends values msg

/-- exactly one terminal event per call, and it comes last -/
theorem exactly_one_terminal_event (d : CDef) (c : SFrame) (r : CallRes) :
    ∃ body t, callOutputs d c r = body ++ [t] ∧ (t = ccomplete d c ∨ ∃ m, t = cerror d c m) :=
  call_one_terminal d c r

/-- each frame of a call is stamped with the definition's id and the call's id - explicit
    appends included, whatever meta the script passed -/
theorem stamped_with_definition_and_call (d : CDef) (c : SFrame) (r : CallRes) :
    ∀ o ∈ callOutputs d c r, metaGet o.mdata "command_id" = some (idText d.id) ∧
      metaGet o.mdata "frame_id" = some (idText c.id) := callOutputs_stamped d c r

/-- concurrent calls do not mix their results' stamps: however the frames of two calls
    interleave in the stream, selecting by `frame_id` gives back each call's frames, complete and
    in order -/
theorem concurrent_calls_do_not_mix (d1 d2 : CDef) (c1 c2 : SFrame) (r1 r2 : CallRes) (m : List SFrame)
    (hne : c1.id ≠ c2.id) (h : Xs.Interleave (callOutputs d1 c1 r1) (callOutputs d2 c2 r2) m) :
    m.filter (fun o => metaGet o.mdata "frame_id" = some (idText c1.id)) = callOutputs d1 c1 r1 :=
  concurrent_calls_separate d1 d2 c1 c2 r1 r2 m hne h

/-- a live call runs the definition in force under (caller's context, name); what it produces
    is determined by that definition and the call frame - no other call, no earlier state -/
theorem call_runs_definition_in_force (t : List CEntry) (f : SFrame) (name : String) (d : CDef)
    (hc : cclassify f.topic = some (name, .call)) (hd : ctblGet t (f.ctx, name) = some d) :
    cmdStep parse eval true t f = (t, callOutputs d f (eval d f)) := defined_call_runs parse eval t f name d hc hd

/-- the latest valid definition wins, per (context, name) -/
theorem latest_valid_definition_wins (t : List CEntry) (f : SFrame) (name : String) (d : CDef) (live : Bool)
    (hc : cclassify f.topic = some (name, .define)) (hp : parse f = .ok d) :
    (cmdStep parse eval live t f).2 = [] ∧
    ctblGet (cmdStep parse eval live t f).1 (f.ctx, name) = some d ∧
    ∀ k', k' ≠ (f.ctx, name) → ctblGet (cmdStep parse eval live t f).1 k' = ctblGet t k' :=
  valid_define_wins parse eval t f name d live hc hp

/-- an invalid definition is reported by exactly one `<name>.error` naming it; the previous
    definition stays -/
theorem invalid_definition_reported (t : List CEntry) (f : SFrame) (name : String) (e : String) (live : Bool)
    (hc : cclassify f.topic = some (name, .define)) (hp : parse f = .error e) :
    cmdStep parse eval live t f = (t, [defineError name f e]) := invalid_define_reported parse eval t f name e live hc hp

/-- a call of an undefined (context, name) - e.g. a name defined in another context only - does nothing -/
theorem undefined_call_does_nothing (t : List CEntry) (f : SFrame) (name : String) (live : Bool)
    (hc : cclassify f.topic = some (name, .call)) (hu : ctblGet t (f.ctx, name) = none) :
    cmdStep parse eval live t f = (t, []) := undefined_call_ignored parse eval t f name live hc hu

/-- no replay: a call met in the stored history is never run … -/
theorem historical_call_never_run (t : List CEntry) (f : SFrame) (name : String)
    (hc : cclassify f.topic = some (name, .call)) : cmdStep parse eval false t f = (t, []) :=
  history_call_not_run parse eval t f name hc

/-- … a start-up emits nothing but the reports of invalid definitions … -/
theorem startup_emits_only_definition_errors (t : List CEntry) (l : List SFrame) :
    ∀ p ∈ (cmdRun parse eval false t l).2, ∃ name, cclassify p.1.topic = some (name, .define) :=
  startup_runs_no_call parse eval t l

/-- … and restores exactly the definitions that were in force (C17 for commands) -/
theorem restart_restores_latest_definitions (history live : List SFrame) :
    (cmdServe parse eval history live).1 = (cmdServe parse eval (history ++ live) []).1 :=
  restart_restores_definitions parse eval history live

/-- non-vacuity: a definition, a redefinition that does not parse, calls before and after, the
    same name called in another context -/
example :
    let parse : SFrame → Except String CDef := fun f =>
      if f.content = some "bad" then .error "e" else .ok { id := f.id, ctx := f.ctx, name := "c" }
    let eval : CDef → SFrame → CallRes := fun _ _ => .ok [] ["1", "2"]
    let r := cmdServe parse eval [{ topic := "c.define", ctx := 1, id := 1 }, { topic := "c.call", ctx := 1, id := 2 }]
      [{ topic := "c.call", ctx := 1, id := 3 }, { topic := "c.define", ctx := 1, id := 4, content := some "bad" },
       { topic := "c.call", ctx := 2, id := 5 }, { topic := "c.call", ctx := 1, id := 6 }]
    r.2.map (fun p => (p.1.id, p.2.map (·.topic))) =
      [(3, ["c.recv", "c.recv", "c.complete"]), (4, ["c.error"]), (6, ["c.recv", "c.recv", "c.complete"])] := by
  decide

end Xs.C19
