/-
  C13  The HTTP API is a faithful and total front end to the store.
  (hyper's HTTP/1.1 syntax layer and the text decoders of xs-meta / import bodies are inputs
  of the model; the correspondence run feeds both sides raw requests.)
-/
import XsProofs.Route
namespace Xs.C13
open Xs.Http Xs.Wire

/-- every request is answered, with 200 / 204 / 400 / 404: no arm of the dispatcher drops the
    connection or blames the server for a request it rejects -/
theorem every_request_answered (s : Srv) (r : Request) :
    (handle s r).2.status = 200 ∨ (handle s r).2.status = 204 ∨ (handle s r).2.status = 400 ∨
    (handle s r).2.status = 404 := by
  unfold handle
  cases matchRoute r with
  | version => simp [Resp.status]
  | notFound => simp [Resp.status]
  | badRequest => simp [Resp.status]
  | streamCat sse o => simp only; unfold handleCat; split <;> (try split) <;> (try split) <;> simp [Resp.status]
  | itemGet id => simp only [respOfOpt]; split <;> simp [Resp.status]
  | itemRemove id => simp [Resp.status]
  | headGet t f c => simp only; unfold handleHead respOfOpt; split <;> (try split) <;> simp [Resp.status]
  | casGet h => simp only; split <;> simp [Resp.status]
  | casPost => simp only; unfold handleCasPost handleCasPostRead; split <;> (try split) <;> simp [Resp.status]
  | importR => simp only; unfold handleImport handleImportRead; split <;> (try split) <;> (try split) <;> simp [Resp.status]
  | streamAppend t ttl c =>
    simp only; unfold handleAppend handleAppendRead; simp only
    split <;> (try split) <;> (try split) <;> simp [Resp.status]

/-- a request answered with a client error changes nothing in the stream -/
theorem failed_request_no_effect (s : Srv) (r : Request) (he : 400 ≤ (handle s r).2.status) :
    (handle s r).1.store = s.store := client_error_no_effect s r he

/-- GET /{id} is `Store::get` -/
theorem get_is_store_get (s : Srv) (r : Request) (id : Nat) (hm : matchRoute r = .itemGet id) :
    handle s r = (s, respOfOpt (s.store.get id)) := by
  unfold handle; rw [hm]

/-- DELETE /{id} is `Store::remove` -/
theorem delete_is_store_remove (s : Srv) (r : Request) (id : Nat) (hm : matchRoute r = .itemRemove id) :
    handle s r = ({ s with store := s.store.remove id }, .noContent) := by
  simp [handle, hm]

/-- GET / without follow is the streaming read with the query's options, rendered completely -/
theorem cat_is_store_read (s : Srv) (r : Request) (sse : Bool) (o : ReadOpts)
    (hm : matchRoute r = .streamCat sse o) (hf : o.follow = .off) (ht : o.tail = false) :
    (handle s r).2 = .frames sse (s.store.readHist o.contextId o.lastId o.limit r.now).2 := by
  simp [handle, hm, handleCat, hf, ht, followOf]

/-- POST /{topic} without xs-meta is `Store::append` of exactly that topic, context, ttl and
    content hash; rejected ⇒ 400 -/
theorem append_is_store_append (s : Srv) (r : Request) (t : List Nat) (ttl : TTL) (c : Nat)
    (hm : matchRoute r = .streamAppend t ttl c) (hx : r.xsMeta = .absent) (hb : r.body = [])
    (hok : r.bodyBroken = false) :
    handle s r =
      (match s.store.append { topic := t, ctx := c, id := 0, hash := none, mdata := none, ttl := some ttl,
                               decodable := r.metaDecodable } r.newId with
       | .ok (st, f) => ({ s with store := st }, .frame f)
       | .error _ => (s, .badRequest)) := by
  simp only [handle, hm, handleAppend, handleAppendRead, hx, hb, hok, Bool.false_eq_true, if_false, List.isEmpty_nil, if_true]
  cases s.store.append _ r.newId with
  | ok p => rfl
  | error e => rfl

/-- GET /head/{topic}: the head of exactly that context; with follow, the subscription that
    feeds the rest of the stream is scoped to that context and that topic -/
theorem head_is_store_head (s : Srv) (r : Request) (t : List Nat) (c : Nat)
    (hm : matchRoute r = .headGet t false c) :
    handle s r = (s, respOfOpt (s.store.head t c)) := by
  unfold handle; rw [hm]; simp [handleHead]

theorem head_follow_scoped (s : Srv) (r : Request) (t : List Nat) (c : Nat)
    (hm : matchRoute r = .headGet t true c) :
    (handle s r).2 = .following false (s.store.head t c).toList false (some c) (some t) := by
  simp [handle, hm, handleHead]

/-- arm order of the dispatcher: the fixed routes win over id / topic interpretation -/
theorem route_table :
    (∀ q sse, matchRoute { method := .get, path := sVersion, query := q, acceptSse := sse } = .version) ∧
    matchRoute { method := .get, path := [47], query := none } = .streamCat false {} ∧
    (∀ q, matchRoute { method := .post, path := sCas, query := q } = .casPost) ∧
    (∀ q, matchRoute { method := .post, path := sImport, query := q } = .importR) ∧
    (∀ p q, matchRoute { method := .other, path := p, query := q } = .notFound) := by
  refine ⟨?_, ?_, ?_, ?_, ?_⟩
  · intro q sse; simp [matchRoute]
  · rfl
  · intro q; simp [matchRoute]
  · intro q; simp [matchRoute, sImport, sCas]
  · intro p q; simp [matchRoute]

/-- a path that is not an id is a client error for GET and DELETE; a bad `context`, TTL or
    read option is a client error -/
theorem bad_id_is_400 (r : Request) (hg : r.method = .get ∨ r.method = .delete)
    (hp : parseId (trimSlashes r.path) = none) (h1 : r.path ≠ sVersion) (h2 : r.path ≠ [47])
    (h3 : sHeadP.isPrefixOf r.path = false) (h4 : sCasP.isPrefixOf r.path = false) :
    matchRoute r = .badRequest := by
  rcases hg with hg | hg <;> simp [matchRoute, hg, hp, h1, h2, h3, h4]

end Xs.C13
