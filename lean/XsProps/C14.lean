/-
  C14  A handler sees each frame once, in order, and never its own output.

  Model: XsModel/Handler.lean (`dispatch`, `step`, `run`, `subscription`).  The closure is a
  parameter `eval : σ → SFrame → σ × EvalRes` over an arbitrary environment type `σ`, so every
  statement holds for every script.  What the store hands the instance is `subscription`
  (context-scoped follow read: C02/C03/C06 are proved for the store model).
-/
import XsProofs.Handler
import XsProofs.Registry
namespace Xs.C14
open Xs.Serve

variable {σ : Type}

/-- exactly once, in order, until it stops: the frames the closure is run for are exactly the
    frames of the subscription (up to the one that stops the instance; all of it while it is
    running) that are neither its own output nor registration traffic of its name -/
theorem invoked_exactly_once_in_order (cfg : HCfg) (eval : σ → SFrame → σ × EvalRes) (env : σ)
    (l : List SFrame) :
    ∃ p q, l = p ++ q ∧ (run cfg eval .running env l).2.2.2.map (·.2) = p.filter (isInvoke cfg) ∧
      ((run cfg eval .running env l).1 = .running → q = []) := invocations_exact cfg eval env l

/-- … so the invocations are a sublist of what was delivered: no frame twice, none out of order -/
theorem invocations_in_delivery_order (cfg : HCfg) (eval : σ → SFrame → σ × EvalRes) (st : HState)
    (env : σ) (l : List SFrame) : ((run cfg eval st env l).2.2.2.map (·.2)).Sublist l :=
  invocations_sublist cfg eval st env l

/-- in increasing id order: when the stream is in id order, so are the frames the closure is run
    for (the subscription's own threshold marker carries a fresh id and is left aside) -/
theorem invoked_in_increasing_id_order (cfg : HCfg) (eval : σ → SFrame → σ × EvalRes) (st : HState) (env : σ)
    (resume : Resume) (hist live : List SFrame) (thr : SFrame)
    (hs : (hist ++ live).Pairwise (fun a b => a.id < b.id)) :
    (((run cfg eval st env (subscription cfg resume hist live thr)).2.2.2.map (·.2)).filter
      (fun f => f ≠ thr)).Pairwise (fun a b => a.id < b.id) :=
  invocations_in_id_order cfg eval st env resume hist live thr hs

/-- never for its own output, never for registration traffic of its name, never once stopped -/
theorem never_own_nor_registration (cfg : HCfg) (eval : σ → SFrame → σ × EvalRes) (st : HState) (env : σ)
    (f : SFrame) (h : (step cfg eval st env f).2.2.2 = true) :
    st = .running ∧ isOwn cfg f = false ∧ isRegTraffic cfg f = false := invoked_only_if cfg eval st env f h

/-- a handler that reacts to every frame cannot feed itself: whatever a run emits is a frame
    the same instance skips -/
theorem cannot_feed_itself (cfg : HCfg) (eval : σ → SFrame → σ × EvalRes) (st : HState) (env : σ)
    (l : List SFrame) : ∀ o ∈ (run cfg eval st env l).2.2.1, isInvoke cfg o = false := by
  intro o ho
  have := outputs_are_skipped cfg eval st env l o ho
  simp [isInvoke, this]

/-- never for a frame of another context: the subscription holds frames of the handler's
    context only, plus the threshold marker of the subscription itself -/
theorem only_own_context (cfg : HCfg) (resume : Resume) (hist live : List SFrame) (thr : SFrame) :
    ∀ f ∈ subscription cfg resume hist live thr, f = thr ∨ f.ctx = cfg.ctx :=
  subscription_ctx cfg resume hist live thr

/-- every frame of its context appended after it subscribed is delivered, in order, after
    whatever the resume point contributes -/
theorem live_frames_all_delivered (cfg : HCfg) (resume : Resume) (hist live : List SFrame) (thr : SFrame) :
    ∃ pre, subscription cfg resume hist live thr = pre ++ live.filter (fun f => f.ctx = cfg.ctx) :=
  (subscription_live_complete cfg resume hist live thr).2

/-- the environment one invocation leaves is what the next one starts from -/
theorem environment_carries_over (cfg : HCfg) (eval : σ → SFrame → σ × EvalRes) (st : HState) (env : σ)
    (l1 l2 : List SFrame) :
    run cfg eval st env (l1 ++ l2) =
      (let r1 := run cfg eval st env l1
       let r2 := run cfg eval r1.1 r1.2.1 l2
       (r2.1, r2.2.1, r1.2.2.1 ++ r2.2.2.1, r1.2.2.2 ++ r2.2.2.2)) := run_append cfg eval st env l1 l2

/-- non-vacuity: a counting closure over three frames (one of them its own output) is run
    twice, with environments 0 and 1 -/
example :
    let cfg : HCfg := { id := 5, ctx := 0, name := "h" }
    let eval : Nat → SFrame → Nat × EvalRes := fun n _ => (n + 1, .ok [] (.value "1"))
    let own : SFrame := { topic := "h.out", ctx := 0, id := 7, mdata := some [("handler_id", idText 5)] }
    (run cfg eval .running 0 [{ topic := "a", ctx := 0, id := 6 }, own, { topic := "b", ctx := 0, id := 8 }]).2.2.2.map
      (fun p => (p.1, p.2.id)) = [(0, 6), (1, 8)] := by decide

/-- the synthetic markers of its own subscription (`xs.threshold`, `xs.pulse`: no meta, a topic
    that is nobody's `.register` / `.unregister`) are frames like any other: a running instance's
    closure is run for them, whatever the handler is called -/
theorem markers_are_invoked (cfg : HCfg) (m : SFrame) (hm : m.mdata = none)
    (ht : m.topic = "xs.pulse" ∨ m.topic = "xs.threshold") : isInvoke cfg m = true := by
  have hreg : isRegTraffic cfg m = false := by
    cases h : isRegTraffic cfg m with
    | false => rfl
    | true =>
      exfalso
      rw [isRegTraffic_iff] at h
      rcases ht with ht | ht <;> rw [ht] at h
      · have e : classify "xs.pulse" = some ("xs", .other) := by decide
        rw [e] at h; rcases h with h | h <;> (injection h with h; injection h with _ h; cases h)
      · have e : classify "xs.threshold" = some ("xs", .other) := by decide
        rw [e] at h; rcases h with h | h <;> (injection h with h; injection h with _ h; cases h)
  simp [isInvoke, hreg, isOwn, hm, metaGet]

/-- … so between two stored frames a pulse marker is one more invocation, in its place -/
theorem pulse_is_one_more_invocation (cfg : HCfg) (eval : σ → SFrame → σ × EvalRes) (env : σ) (p : SFrame)
    (hm : p.mdata = none) (ht : p.topic = "xs.pulse") :
    (step cfg eval .running env p).2.2.2 = true := by
  have h := (dispatch_invoke_iff cfg p).2 (markers_are_invoked cfg p hm (Or.inl ht))
  unfold step
  simp only [h]
  cases he : eval env p with
  | mk env' r =>
    cases r with
    | error msg => rfl
    | ok appends ret => simp only; split <;> rfl

end Xs.C14
