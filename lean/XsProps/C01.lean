/-
  C01  Reads return exactly the live history, once each, in id order.

  Statements only (proofs are one-liners from XsProofs).  `after ops` is the
  store after an arbitrary history `ops` of append / import / remove / read /
  gc / drain / reopen operations; `WfOps` only says ids are 128-bit.
  `WfRead` asks for 128-bit ids only (the all-ones context id included: F12, fixed).
-/
import XsProps.Common
namespace Xs.C01

/-- synchronous read (`read_sync`, used by `.cat`): exactly the stored frames in scope, after
    `last-id`, not expired at `now`, in the stored (id) order, cut to the first `limit` -/
theorem read_sync_exact (ops : List Op) (w : WfOps ops) (ctx last limit : Option Nat) (now : Nat)
    (wr : WfRead ctx last) :
    ((after ops).readSync ctx last limit now).2 = cut limit (liveHistory (after ops) ctx last now) :=
  readSync_spec (after_inv w).k wr limit now

/-- streaming read without follow (`GET /`, `Store::read`): the same list -/
theorem read_stream_exact (ops : List Op) (w : WfOps ops) (ctx last limit : Option Nat) (now : Nat)
    (wr : WfRead ctx last) :
    ((after ops).readHist ctx last limit now).2 = cut limit (liveHistory (after ops) ctx last now) :=
  readHist_spec (after_inv w).k wr limit now

/-- strictly increasing ids, hence each frame at most once -/
theorem read_strictly_increasing (ops : List Op) (w : WfOps ops) (ctx last limit : Option Nat)
    (now : Nat) (wr : WfRead ctx last) :
    (((after ops).readSync ctx last limit now).2).Pairwise (fun a b => a.id < b.id) := by
  rw [read_sync_exact ops w ctx last limit now wr]
  exact List.Pairwise.sublist (cut_sublist _ _) (liveHistory_sorted (after_inv w).k ctx last now)

theorem read_no_duplicates (ops : List Op) (w : WfOps ops) (ctx last limit : Option Nat)
    (now : Nat) (wr : WfRead ctx last) : (((after ops).readSync ctx last limit now).2).Nodup := by
  have := read_strictly_increasing ops w ctx last limit now wr
  exact this.imp (fun h e => by rw [e] at h; exact Nat.lt_irrefl _ h)

/-- every returned frame is stored, in scope, after `last-id` and not expired -/
theorem read_sound (ops : List Op) (w : WfOps ops) (ctx last limit : Option Nat) (now : Nat)
    (wr : WfRead ctx last) (f : Frame) (hf : f ∈ ((after ops).readSync ctx last limit now).2) :
    f ∈ frames (after ops) ∧ inScope ctx f = true ∧ afterLast last f = true ∧ f.expired now = false := by
  rw [read_sync_exact ops w ctx last limit now wr] at hf
  have := (cut_sublist limit _).subset hf
  simp only [liveHistory, List.mem_filter, Bool.and_eq_true, liveAt, Bool.not_eq_true'] at this
  exact ⟨this.1, this.2.1.1, this.2.1.2, this.2.2⟩

/-- without a limit nothing live is left out -/
theorem read_complete (ops : List Op) (w : WfOps ops) (ctx last : Option Nat) (now : Nat)
    (wr : WfRead ctx last) (f : Frame) (hf : f ∈ frames (after ops)) (h1 : inScope ctx f = true)
    (h2 : afterLast last f = true) (h3 : f.expired now = false) :
    f ∈ ((after ops).readSync ctx last none now).2 := by
  rw [read_sync_exact ops w ctx last none now wr]
  simp [cut, liveHistory, List.mem_filter, hf, h1, h2, liveAt, h3]

/-- lookup by id returns exactly the stored frame (topic, context, hash, meta, ttl) -/
theorem get_exact (ops : List Op) (w : WfOps ops) (i : Nat) (hi : i < idBound) (f : Frame) :
    (after ops).get i = some f ↔ f ∈ frames (after ops) ∧ f.id = i :=
  get_spec (after_inv w).k hi f

/-- what is stored: an accepted, non-ephemeral append adds exactly the returned frame -/
theorem append_stores (s s' : State) (h : Inv s) (f0 f : Frame) (id : Nat) (hid : id < idBound)
    (hc : f0.ctx < idBound) (e : s.append f0 id = .ok (s', f)) (hne : f.ttl ≠ some .ephemeral)
    (g : Frame) : g ∈ frames s' ↔ g = f ∨ (g ∈ frames s ∧ g.id ≠ f.id) :=
  mem_frames_append h hid hc e hne g

/-- an import stores the frame as is, replacing whatever had its id -/
theorem import_stores (s s' : State) (h : Inv s) (f : Frame) (hid : f.id < idBound)
    (hc : f.ctx < idBound) (e : s.insertFrame f = .ok s') (g : Frame) :
    g ∈ frames s' ↔ g = f ∨ (g ∈ frames s ∧ g.id ≠ f.id) :=
  mem_frames_insertFrame h hid hc e g

/-- a remove takes away exactly the frame with that id -/
theorem remove_removes (s : State) (h : Inv s) (id : Nat) (hid : id < idBound) (g : Frame) :
    g ∈ frames (s.remove id) ↔ g ∈ frames s ∧ g.id ≠ id :=
  mem_frames_remove h.k hid g

/-- reads do not change what is stored -/
theorem read_pure (s : State) (ctx last limit : Option Nat) (now : Nat) :
    frames (s.readSync ctx last limit now).1 = frames s ∧
    frames (s.readHist ctx last limit now).1 = frames s := ⟨rfl, rfl⟩

/-- a restart does not change what is stored (the journal contract is C04's) -/
theorem reopen_pure (s : State) : frames s.reopen = frames s := rfl

end Xs.C01
