/-
  C20  Export then import reproduces the store.
-/
import XsProps.Common
import XsProofs.Import
import XsProofs.HttpImport
namespace Xs.C20

/-- importing, in any order, every stored frame of a store into an empty store reproduces the
    stored frames — same ids, order, topics, contexts, metas, hashes and ttls — and the same
    usable contexts (registrations imported after the frames that use them included) -/
theorem export_import_roundtrip (ops : List Op) (w : WfOps ops) (l : List Frame)
    (hp : l.Perm (frames (after ops))) :
    frames (State.init.importAll l) = frames (after ops) ∧
    ∀ c, c ∈ (State.init.importAll l).contexts ↔ c ∈ (after ops).contexts :=
  Xs.export_import_roundtrip (after_inv w) hp

/-- … hence every read, lookup and head of the copy equals the original's -/
theorem copy_observably_equal (ops : List Op) (w : WfOps ops) (l : List Frame)
    (hp : l.Perm (frames (after ops))) :
    (∀ ctx last limit now, WfRead ctx last →
      ((State.init.importAll l).readSync ctx last limit now).2 = ((after ops).readSync ctx last limit now).2 ∧
      ((State.init.importAll l).readHist ctx last limit now).2 = ((after ops).readHist ctx last limit now).2) ∧
    (∀ i, i < idBound → (State.init.importAll l).get i = (after ops).get i) ∧
    (∀ t c, c < idBound → (State.init.importAll l).head t c = (after ops).head t c) := by
  have hI := after_inv w
  have hl : ∀ f ∈ l, Importable f := by
    intro f hf
    have wf := hI.k.wfFrame (hp.mem_iff.1 hf)
    exact ⟨wf.id_lt, wf.ctx_lt, wf.nul, wf.dec⟩
  exact observably_equal (importAll_inv inv_init l hl) hI (Xs.export_import_roundtrip hI hp).1

/-- the import order does not matter -/
theorem import_order_irrelevant (l₁ l₂ : List Frame) (hp : l₁.Perm l₂)
    (hl : ∀ f ∈ l₁, Importable f) (hd : l₁.Pairwise (fun a b => a.id ≠ b.id)) :
    frames (State.init.importAll l₁) = frames (State.init.importAll l₂) :=
  frames_importAll_perm hp hl hd

/-- import stores a frame as is: its id is kept and it sits at its id's position in the
    stream (the stream stays ordered by id), not at the end -/
theorem import_keeps_id_and_position (s s' : State) (h : Inv s) (f : Frame) (hid : f.id < idBound)
    (hc : f.ctx < idBound) (e : s.insertFrame f = .ok s') :
    f ∈ frames s' ∧ (frames s').Pairwise (fun a b => a.id < b.id) :=
  ⟨(mem_frames_insertFrame h hid hc e f).2 (Or.inl rfl), frames_sorted (insertFrame_inv h hid hc e).k⟩

/-- importing the same frame again changes nothing -/
theorem import_twice_same (ops : List Op) (w : WfOps ops) (f : Frame) (hf : f ∈ frames (after ops)) :
    frames ((after ops).step (.importF f)) = frames (after ops) ∧
    ∀ c, c ∈ ((after ops).step (.importF f)).contexts ↔ c ∈ (after ops).contexts :=
  import_idempotent (after_inv w) hf

/-- a frame that cannot be stored consistently (NUL in its topic, or JSON that would not read
    back) is rejected whole -/
theorem import_rejected_whole (s : State) (f : Frame) (h : hasNul f.topic = true ∨ f.decodable = false) :
    (∀ s', s.insertFrame f ≠ .ok s') ∧ s.step (.importF f) = s := by
  have hne : ∀ s', s.insertFrame f ≠ .ok s' := by
    intro s' e
    obtain ⟨hd, hn, _⟩ := insertFrame_ok e
    rcases h with h | h
    · rw [hn] at h; cases h
    · rw [hd] at h; cases h
  refine ⟨hne, ?_⟩
  simp only [State.step]
  cases e : s.insertFrame f with
  | error _ => rfl
  | ok s' => exact absurd e (hne s')

/-- import does not broadcast and does not queue gc work -/
theorem import_silent (s s' : State) (f : Frame) (e : s.insertFrame f = .ok s') :
    s'.gcq = s.gcq ∧ s'.bcast = s.bcast := by
  obtain ⟨_, _, rfl⟩ := insertFrame_ok e
  exact ⟨rfl, rfl⟩

open Xs.Http in
/-- over HTTP (`POST /cas` for the contents, `POST /import` for the frames, as `.import` does):
    whatever the order of the requests - frames before their content, frames before the
    registration of their context, the two kinds interleaved - an empty server that has been sent
    every stored frame of a store holds the original's frames and usable contexts, and its
    content store holds the contents in the order they were sent: neither kind of request looks
    at the other -/
theorem http_import_any_order (ops : List Op) (w : WfOps ops) (items : List Item)
    (hp : (items.filterMap Item.frame?).Perm (frames (after ops))) :
    frames (session {} items).store = frames (after ops) ∧
    (∀ c, c ∈ (session {} items).store.contexts ↔ c ∈ (after ops).contexts) ∧
    (session {} items).cas = (items.filterMap Item.content?).foldl casStep [] := by
  have h := Xs.export_import_roundtrip (after_inv w) hp
  rw [session_store, session_cas]
  exact ⟨h.1, h.2, rfl⟩

open Xs.Http in
/-- non-vacuity: a frame sent before its content and before a second frame; both kinds land -/
example :
    let f1 : Frame := { topic := [97], ctx := 0, id := 5, hash := some "h", mdata := none, ttl := none }
    let f2 : Frame := { topic := [98], ctx := 0, id := 3, hash := none, mdata := none, ttl := none }
    let s := session {} [.frame f1, .content "h" [1, 2], .frame f2]
    ((frames s.store).map (·.id), s.cas) = ([3, 5], [("h", [1, 2])]) := by decide

end Xs.C20
