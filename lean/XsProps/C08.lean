/-
  C08  Nothing disappears before its retention policy allows.
-/
import XsProps.Common
import XsProofs.History
namespace Xs.C08

/-- One step of any history: a stored frame stops being stored only because
    (append / import) a write reused its own id — a replacement, not a disappearance —,
    (remove) it was explicitly removed, or (gc / drain) a queued task evicted it:
    `Remove(id)` naming it, or `CheckHeadTTL{c,t,k}` finding it in context `c`, topic `t`,
    outside the `k` newest frames of that topic. Reads and restarts remove nothing. -/
theorem retention_step (ops : List Op) (w : WfOps ops) (op : Op) (wo : WfOp op) (g : Frame)
    (hg : g ∈ frames (after ops)) (hgone : g ∉ frames ((after ops).step op)) :
    GoneBecause (after ops) g op :=
  step_retention (after_inv w) (reachable_gcWf ops w) wo g hg hgone

/-- … and every task the collector ever holds is justified by the history:
    `Remove(id)` was queued by a read that found the stored frame `id` with its own `time:N`
    elapsed at that read's clock; `CheckHeadTTL{c,t,k}` by an accepted append of a `head:k`
    frame to context `c`, topic `t`. -/
theorem queued_tasks_justified (ops : List Op) (w : WfOps ops) :
    ∀ t ∈ (after ops).gcq, TaskJustified ops t := queue_justified ops w

/-- garbage collection for one topic never touches a frame of another topic — even one whose
    name shares a prefix — or of another context -/
theorem gc_other_topic_untouched (ops : List Op) (w : WfOps ops) (c : Nat) (t : List Nat) (k : Nat)
    (hc : c < idBound) (ht : NulFree t) (g : Frame) (hg : g ∈ frames (after ops))
    (hne : ¬ (g.ctx = c ∧ g.topic = t)) :
    g ∈ frames ((after ops).applyTask (.checkHead c t k)) :=
  checkHead_other_untouched (after_inv w) ht hc k g hg hne

/-- a frame a head task evicts is outside the `k` newest of its topic and context -/
theorem gc_evicts_only_beyond_keep (ops : List Op) (w : WfOps ops) (c : Nat) (t : List Nat) (k : Nat)
    (hc : c < idBound) (ht : NulFree t) (g : Frame) (hg : g ∈ frames (after ops))
    (hgone : g ∉ frames ((after ops).applyTask (.checkHead c t k))) :
    g.ctx = c ∧ g.topic = t ∧ g ∈ topicFrames (after ops) c t ∧
      g ∉ (topicFrames (after ops) c t).drop ((topicFrames (after ops) c t).length - k) :=
  checkHead_evicts_only_old (after_inv w) ht hc k g hg hgone

/-- expiry is exactly "id timestamp + N ≤ now" (saturating at u64::MAX): a frame is never
    treated as expired before its `time:N` has elapsed -/
theorem expired_iff (f : Frame) (now : Nat) :
    f.expired now = true ↔ ∃ ms, f.ttl = some (.time ms) ∧ min (tsOf f.id + ms) u64Max ≤ now := by
  unfold Frame.expired isExpired
  split
  · rename_i ms h; simp [h]
  · rename_i h
    constructor
    · intro e; cases e
    · rintro ⟨ms, e, _⟩; exact absurd e (h ms)

/-- a `forever` (or ttl-less) frame in a topic that never sees a head TTL is never lost to the
    collector: no justified task can name it -/
theorem forever_never_expires (f : Frame) (now : Nat) (h : f.ttl = some .forever ∨ f.ttl = none) :
    f.expired now = false := by
  unfold Frame.expired
  rcases h with h | h <;> simp [h]

end Xs.C08
