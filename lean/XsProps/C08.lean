/-
  C08  Nothing disappears before its retention policy allows.
-/
import XsProps.Common
import XsProofs.History
import XsProofs.GcRace
namespace Xs.C08

/-- One step of any history: a stored frame stops being stored only because
    (append / import) a write reused its own id — a replacement, not a disappearance —,
    (remove) it was explicitly removed, or (gc / drain) a queued task evicted it:
    `Remove(id)` naming it, or `CheckHeadTTL{c,t,k}` finding it in context `c`, topic `t`,
    outside the `k` newest frames of that topic. Reads and restarts remove nothing. -/
theorem retention_step (ops : List Op) (w : WfOps ops) (op : Op) (wo : WfOp op) (g : Frame)
    (hg : g ∈ frames (after ops)) (hgone : g ∉ frames ((after ops).step op)) :
    GoneBecause (after ops) g op :=
  step_retention (after_inv w) (reachable_gcWf ops w) wo g hg hgone

/-- … and every task the collector ever holds is justified by the history:
    `Remove(id)` was queued by a read that found the stored frame `id` with its own `time:N`
    elapsed at that read's clock; `CheckHeadTTL{c,t,k}` by an accepted append of a `head:k`
    frame to context `c`, topic `t`. -/
theorem queued_tasks_justified (ops : List Op) (w : WfOps ops) :
    ∀ t ∈ (after ops).gcq, TaskJustified ops t := queue_justified ops w

/-- garbage collection for one topic never touches a frame of another topic — even one whose
    name shares a prefix — or of another context -/
theorem gc_other_topic_untouched (ops : List Op) (w : WfOps ops) (c : Nat) (t : List Nat) (k : Nat)
    (hc : c < idBound) (ht : NulFree t) (g : Frame) (hg : g ∈ frames (after ops))
    (hne : ¬ (g.ctx = c ∧ g.topic = t)) :
    g ∈ frames ((after ops).applyTask (.checkHead c t k)) :=
  checkHead_other_untouched (after_inv w) ht hc k g hg hne

/-- a frame a head task evicts is outside the `k` newest of its topic and context -/
theorem gc_evicts_only_beyond_keep (ops : List Op) (w : WfOps ops) (c : Nat) (t : List Nat) (k : Nat)
    (hc : c < idBound) (ht : NulFree t) (g : Frame) (hg : g ∈ frames (after ops))
    (hgone : g ∉ frames ((after ops).applyTask (.checkHead c t k))) :
    g.ctx = c ∧ g.topic = t ∧ g ∈ topicFrames (after ops) c t ∧
      g ∉ (topicFrames (after ops) c t).drop ((topicFrames (after ops) c t).length - k) :=
  checkHead_evicts_only_old (after_inv w) ht hc k g hg hgone

/-- expiry is exactly "id timestamp + N ≤ now" (saturating at u64::MAX): a frame is never
    treated as expired before its `time:N` has elapsed -/
theorem expired_iff (f : Frame) (now : Nat) :
    f.expired now = true ↔ ∃ ms, f.ttl = some (.time ms) ∧ min (tsOf f.id + ms) u64Max ≤ now := by
  unfold Frame.expired isExpired
  split
  · rename_i ms h; simp [h]
  · rename_i h
    constructor
    · intro e; cases e
    · rintro ⟨ms, e, _⟩; exact absurd e (h ms)

/-- a `forever` (or ttl-less) frame in a topic that never sees a head TTL is never lost to the
    collector: no justified task can name it -/
theorem forever_never_expires (f : Frame) (now : Nat) (h : f.ttl = some .forever ∨ f.ttl = none) :
    f.expired now = false := by
  unfold Frame.expired
  rcases h with h | h <;> simp [h]

/-- explicit removals racing the collector, any interleaving: the collector picks its victims in
    one scan and removes them one by one while other threads remove frames explicitly.  `R1` are
    the removals that land before the scan - all of frames outside the `k` newest of the topic
    (`OldIn`) -, `mix` is any sequence made of the collector's own removals and the later
    explicit ones `R2`.  What is stored at the end is what the sequential history "collector,
    then every removal" leaves: nothing beyond the explicitly removed frames and the frames
    outside the `k` newest is lost, wherever the removals fall. -/
theorem removals_racing_the_collector (ops : List Op) (w : WfOps ops) (c : Nat) (t : List Nat) (k : Nat)
    (hc : c < idBound) (ht : NulFree t) (R1 R2 mix : List Nat) (hR1 : ∀ x ∈ R1, x < idBound)
    (hR2 : ∀ x ∈ R2, x < idBound) (hold : ∀ x ∈ R1, OldIn (after ops) c t k x)
    (hmix : ∀ i, i ∈ mix ↔ i ∈ victimIds (R1.foldl State.remove (after ops)) c t k ∨ i ∈ R2) (g : Frame) :
    g ∈ frames (mix.foldl State.remove (R1.foldl State.remove (after ops))) ↔
      g ∈ frames ((R1 ++ R2).foldl State.remove ((after ops).applyTask (.checkHead c t k))) :=
  removals_race_collector (after_inv w) ht hc k R1 R2 mix hR1 hR2 hold hmix g

/-- … in particular the `k` newest frames of the topic survive the race unless they are removed
    explicitly -/
theorem newest_survive_the_race (ops : List Op) (w : WfOps ops) (c : Nat) (t : List Nat) (k : Nat)
    (hc : c < idBound) (ht : NulFree t) (R1 R2 mix : List Nat) (hR1 : ∀ x ∈ R1, x < idBound)
    (hR2 : ∀ x ∈ R2, x < idBound) (hold : ∀ x ∈ R1, OldIn (after ops) c t k x)
    (hmix : ∀ i, i ∈ mix ↔ i ∈ victimIds (R1.foldl State.remove (after ops)) c t k ∨ i ∈ R2) (g : Frame)
    (hg : g ∈ topicFrames (after ops) c t) (hnew : newerCount (topicFrames (after ops) c t) g < k)
    (hn1 : g.id ∉ R1) (hn2 : g.id ∉ R2) :
    g ∈ frames (mix.foldl State.remove (R1.foldl State.remove (after ops))) := by
  rw [removals_racing_the_collector ops w c t k hc ht R1 R2 mix hR1 hR2 hold hmix g,
    mem_frames_foldl_remove (applyTask_inv (after_inv w) _) (R1 ++ R2) (fun i hi => by
      rcases List.mem_append.1 hi with hi | hi
      · exact hR1 i hi
      · exact hR2 i hi),
    checkHead_frames_rank (after_inv w) ht hc]
  refine ⟨⟨(List.mem_filter.1 hg).1, fun ⟨_, hr⟩ => by omega⟩, ?_⟩
  simp only [List.mem_append, not_or]; exact ⟨hn1, hn2⟩

/-- non-vacuity: `OldIn` holds of a frame that has `k` newer ones in its topic -/
example :
    let L : List Frame := [{ topic := [97], ctx := 0, id := 1, hash := none, mdata := none, ttl := none },
      { topic := [97], ctx := 0, id := 2, hash := none, mdata := none, ttl := none },
      { topic := [97], ctx := 0, id := 3, hash := none, mdata := none, ttl := none }]
    (L.map (newerCount L) = [2, 1, 0]) := by decide

end Xs.C08
