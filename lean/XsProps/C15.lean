/-
  C15  Handler output is stamped, scoped, ordered and all-or-nothing per call.
-/
import XsProofs.Handler
namespace Xs.C15
open Xs.Serve

variable {σ : Type}

/-- every frame a step emits carries the handler's id and the id of the triggering frame and
    lands in the handler's context - whatever `--meta` / `--context` the script asked for -/
theorem outputs_stamped_and_scoped (cfg : HCfg) (eval : σ → SFrame → σ × EvalRes) (st : HState) (env : σ)
    (f : SFrame) : ∀ o ∈ (step cfg eval st env f).2.2.1,
      metaGet o.mdata "handler_id" = some (idText cfg.id) ∧
      metaGet o.mdata "frame_id" = some (idText f.id) ∧ o.ctx = cfg.ctx :=
  step_outputs_stamped cfg eval st env f

/-- user meta colliding with the stamps loses: the stamps are written last -/
theorem user_meta_cannot_override (m : Option (List (String × String))) (hid fid : Nat) :
    metaGet (stamp m hid fid) "handler_id" = some (idText hid) ∧
    metaGet (stamp m hid fid) "frame_id" = some (idText fid) := stamp_handler_id m hid fid

/-- … and every other user key survives the stamping -/
theorem user_meta_kept (l : List (String × String)) (k : String) (hid fid : Nat)
    (h1 : k ≠ "handler_id") (h2 : k ≠ "frame_id") :
    metaGet (stamp (some l) hid fid) k = metaGet (some l) k := by
  unfold stamp
  simp only [Option.getD_some]
  rw [metaGet_metaSet_other _ _ _ _ h2, metaGet_metaSet_other _ _ _ _ h1]

/-- a successful call: the explicit appends in call order, then the return value on
    `<name><suffix>` with the configured TTL (nothing for a `nothing` return) -/
theorem success_order (cfg : HCfg) (eval : σ → SFrame → σ × EvalRes) (env env' : σ) (f : SFrame)
    (appends : List OutReq) (ret : Ret) (hd : dispatch cfg f = .invoke)
    (he : eval env f = (env', .ok appends ret))
    (hs : (appends.map (emit cfg f) ++ retFrames cfg f ret).all storable = true) :
    step cfg eval .running env f =
      (.running, env', appends.map (emit cfg f) ++ retFrames cfg f ret, true) :=
  success_outputs cfg eval env env' f appends ret hd he hs

/-- all-or-nothing also for frames the store would refuse: if one frame of the call cannot be
    stored (NUL in its topic, `xs.context` outside the zero context) none of them is emitted -
    the call fails like a closure error -/
theorem unstorable_frame_fails_whole_call (cfg : HCfg) (eval : σ → SFrame → σ × EvalRes) (env env' : σ) (f : SFrame)
    (appends : List OutReq) (ret : Ret) (hd : dispatch cfg f = .invoke)
    (he : eval env f = (env', .ok appends ret))
    (hs : (appends.map (emit cfg f) ++ retFrames cfg f ret).all storable = false) :
    step cfg eval .running env f =
      (.stopped, env', [unregistered cfg f (some "unstorable output")], true) :=
  unstorable_output_fails_call cfg eval env env' f appends ret hd he hs

/-- … and for a frame that would not read back once stored (meta nested beyond the decoder's
    limit): one such explicit append that is not ephemeral makes the whole call fail - nothing of
    it is emitted, the instance stops with the error (the defect F29 was the absence of this) -/
theorem unreadable_output_fails_whole_call (cfg : HCfg) (eval : σ → SFrame → σ × EvalRes) (env env' : σ) (f : SFrame)
    (appends : List OutReq) (ret : Ret) (hd : dispatch cfg f = .invoke)
    (he : eval env f = (env', .ok appends ret)) (o : OutReq) (ho : o ∈ appends)
    (hdec : o.decodable = false) (httl : o.ttl ≠ some .ephemeral) :
    step cfg eval .running env f =
      (.stopped, env', [unregistered cfg f (some "unstorable output")], true) := by
  apply unstorable_output_fails_call cfg eval env env' f appends ret hd he
  rw [List.all_eq_false]
  refine ⟨emit cfg f o, List.mem_append_left _ (List.mem_map.2 ⟨o, ho, rfl⟩), ?_⟩
  simp [storable, emit, hdec, httl]

theorem return_frame_shape (cfg : HCfg) (f : SFrame) (j : String) :
    (returnFrame cfg f j).topic = cfg.name ++ cfg.suffix ∧ (returnFrame cfg f j).ttl = cfg.ttl ∧
    (returnFrame cfg f j).content = some j := ⟨rfl, rfl, rfl⟩

theorem explicit_append_shape (cfg : HCfg) (f : SFrame) (o : OutReq) :
    (emit cfg f o).topic = o.topic ∧ (emit cfg f o).ttl = o.ttl ∧ (emit cfg f o).content = o.content ∧
    (emit cfg f o).ctx = cfg.ctx := ⟨rfl, rfl, rfl, rfl⟩

/-- all-or-nothing: if the closure fails - wherever the failure sits among its appends - none
    of its frames appear; the only frame emitted is `<name>.unregistered` with the error, and
    the instance is stopped -/
theorem failure_emits_nothing_but_the_error (cfg : HCfg) (eval : σ → SFrame → σ × EvalRes) (env env' : σ)
    (f : SFrame) (msg : String) (hd : dispatch cfg f = .invoke) (he : eval env f = (env', .error msg)) :
    step cfg eval .running env f = (.stopped, env', [unregistered cfg f (some msg)], true) :=
  error_is_all_or_nothing cfg eval env env' f msg hd he

/-- the stamp tells instances apart: however the outputs of two instances with different ids
    interleave in the stream, selecting by `handler_id` gives back one instance's output, complete
    and in its own order -/
theorem concurrent_instances_outputs_separate (cfg1 cfg2 : HCfg) (eval1 eval2 : σ → SFrame → σ × EvalRes)
    (st1 st2 : HState) (env1 env2 : σ) (l1 l2 m : List SFrame) (hne : cfg1.id ≠ cfg2.id)
    (h : Xs.Interleave (run cfg1 eval1 st1 env1 l1).2.2.1 (run cfg2 eval2 st2 env2 l2).2.2.1 m) :
    m.filter (fun o => metaGet o.mdata "handler_id" = some (idText cfg1.id)) = (run cfg1 eval1 st1 env1 l1).2.2.1 :=
  outputs_separate_by_stamp cfg1 cfg2 eval1 eval2 st1 st2 env1 env2 l1 l2 m hne h

/-- non-vacuity: two appends (one trying to override the stamp and the context) and a return -/
example :
    let cfg : HCfg := { id := 5, ctx := 3, name := "h", suffix := ".x" }
    let eval : Unit → SFrame → Unit × EvalRes := fun _ _ =>
      ((), .ok [{ topic := "o1", mdata := some [("handler_id", "zzz")], ctxReq := some 9 }, { topic := "o2" }] (.value "1"))
    ((step cfg eval .running () { topic := "a", ctx := 3, id := 6 }).2.2.1.map
      (fun o => (o.topic, o.ctx, metaGet o.mdata "handler_id"))) =
      [("o1", 3, some (idText 5)), ("o2", 3, some (idText 5)), ("h.x", 3, some (idText 5))] := by decide

end Xs.C15
