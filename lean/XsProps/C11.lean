/-
  C11  Follow options: limit is exact, tail skips history, never a silent gap.
-/
import XsProofs.Follow
namespace Xs.C11
open Xs.Follow

/-- `limit = n` (n ≥ 1): never more than n frames, whether they come from history, from live
    delivery, or both; synthetic frames are not counted -/
theorem limit_never_exceeded (as : List Act) (s : Sys) (r : Reader) (e : run {} as = some s)
    (hr : s.reader = some r) (n : Nat) (hn : r.opts.limit = some n) (h1 : 1 ≤ n) :
    (realFrames r.out).length ≤ n := by
  have hR := (run_allInv allInv_init as e).g.inv.rd r hr
  rw [hR.out_eq, List.length_append]
  rcases hR.lim_done n hn with h | ⟨h0, _, _⟩
  · exact h
  · omega

/-- once n frames have been delivered and the reader's tasks have wound down, the stream has
    ended: history thread finished, live task ended, heartbeat stopped -/
theorem limit_met_stream_ends (as : List Act) (s : Sys) (r : Reader) (e : run {} as = some s)
    (hr : s.reader = some r) (n : Nat) (hn : r.opts.limit = some n) (h1 : 1 ≤ n)
    (hfull : (realFrames r.out).length = n) (hq : Quiescent s.committed r) : r.closed = true :=
  let hA := run_allInv allInv_init as e
  limit_met_closed (hA.g.inv.rd r hr) (hA.g.thr r hr) (hA.p r hr) n hn h1 hfull hq

/-- an ended stream stays ended: no frame, threshold or pulse is ever delivered on it again -/
theorem ended_stream_is_final (c : List Frame) (r : Reader) (h : r.closed = true) (a : RAct) :
    stepReader c r a = none := closed_final c r h a

/-- while following with fewer than n frames delivered the live task is still there -/
theorem limit_not_met_still_open (as : List Act) (s : Sys) (r : Reader) (e : run {} as = some s)
    (hr : s.reader = some r) (n : Nat) (hn : r.opts.limit = some n) (hrun : r.lphase = .running) :
    (realFrames r.out).length < n ∨ n = 0 := by
  have hR := (run_allInv allInv_init as e).g.inv.rd r hr
  rw [hR.out_eq, List.length_append]
  rcases hR.lim_live n hn hrun with h | ⟨h0, _, _⟩
  · exact Or.inl h
  · exact Or.inr h0

/-- `tail` delivers no historical frame -/
theorem tail_no_history (as : List Act) (s : Sys) (r : Reader) (e : run {} as = some s)
    (hr : s.reader = some r) (ht : r.opts.tail = true) : r.hout = [] := by
  have hA := run_allInv allInv_init as e
  exact (hA.g.inv.rd r hr).ph_none ((hA.g.thr r hr).tail_none ht)

/-- pulses go only to a subscriber that asked for a heartbeat, and only while its live
    delivery is running; a reader gets at most the one threshold of C03 -/
theorem pulses_only_with_heartbeat (as : List Act) (s : Sys) (r : Reader) (e : run {} as = some s)
    (hr : s.reader = some r) (hp : pulses r.out > 0) : r.opts.heartbeat = true :=
  ((run_allInv allInv_init as e).g.thr r hr).pulse_only_hb hp

theorem heartbeat_stops_with_live (as : List Act) (s : Sys) (r : Reader) (e : run {} as = some s)
    (hr : s.reader = some r) (hend : r.lphase = .ended) : r.hbAlive = false := by
  cases hx : r.hbAlive with
  | false => rfl
  | true => exact absurd hend (((run_allInv allInv_init as e).g.thr r hr).hb hx).2.2

/-- synthetic frames are private to the reader: the stored stream and the broadcast log only
    ever contain appended frames (by construction: `Out.threshold` / `Out.pulse` are not frames),
    and a non-following or limited read gets no threshold at all -/
theorem no_threshold_unless_unlimited_follow (as : List Act) (s : Sys) (r : Reader)
    (e : run {} as = some s) (hr : s.reader = some r) (h : r.opts.limit ≠ none ∨ r.opts.tail = true ∨ r.opts.follow = false) :
    thresholds r.out = 0 := by
  have hA := run_allInv allInv_init as e
  have hT := hA.g.thr r hr
  have hP := hA.p r hr
  cases hx : r.hphase with
  | scanning => exact hT.pre (Or.inl hx)
  | stopped => exact hT.pre (Or.inr (Or.inl hx))
  | none => exact hT.pre (Or.inr (Or.inr hx))
  | handed =>
    rcases h with h | h | h
    · exact (hT.post hx).2 h
    · have := hT.tail_none h; rw [hx] at this; cases this
    · -- a non-following read never hands over
      have := hP.handed_follow hx
      rw [h] at this; cases this

/-- a subscriber that cannot keep up ends: once lagged, no further frame is taken from its
    subscription, and when its tasks have wound down the stream is closed — it never continues
    past a frame it did not deliver -/
theorem lagged_never_continues (c : List Frame) (r : Reader) (hl : r.lagged = true) :
    stepReader c r .liveRecv = none := by
  simp [stepReader, hl]

theorem lagged_stream_ends (as : List Act) (s : Sys) (r : Reader) (e : run {} as = some s)
    (hr : s.reader = some r) (hl : r.lagged = true) (hq : Quiescent s.committed r)
    (hdone : r.hphase ≠ .scanning) : r.closed = true :=
  let hA := run_allInv allInv_init as e
  lagged_closed (hA.g.inv.rd r hr) (hA.g.thr r hr) (hA.p r hr) hl hq hdone

end Xs.C11
