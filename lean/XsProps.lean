import XsProps.Common
import XsProps.C01
import XsProps.C05
import XsProps.C06
import XsProps.C07
