import XsProps.Common
import XsProps.C01
import XsProps.C05
import XsProps.C06
import XsProps.C07
import XsProps.C08
import XsProps.C09
import XsProps.C20
