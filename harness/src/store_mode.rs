//! `xsw store`: one JSON op per stdin line, one JSON observation per stdout line.
use std::io::{BufRead, Write};
use std::path::PathBuf;
use std::sync::{Arc, Condvar, Mutex};

use serde_json::{json, Value};

use xs::store::{FollowOption, ReadOptions, Store};

use crate::common::*;

#[derive(Default)]
struct GateState {
    gated: bool,
    free: bool,
    permits: u64,
    blocked: bool,
}

#[derive(Default)]
pub struct Gate {
    st: Mutex<GateState>,
    cv: Condvar,
}

impl Gate {
    fn on_gc_point(&self, name: &str) {
        let mut st = self.st.lock().unwrap();
        if !st.gated || name == "gc.drain" {
            return;
        }
        loop {
            if st.free {
                return;
            }
            if st.permits > 0 {
                st.permits -= 1;
                st.blocked = false;
                return;
            }
            st.blocked = true;
            self.cv.notify_all();
            st = self.cv.wait(st).unwrap();
        }
    }
}

/// every frame a from-the-start follower of all contexts was handed, in delivery order
static TAP: Mutex<Vec<Value>> = Mutex::new(Vec::new());
static TAP_ON: std::sync::atomic::AtomicBool = std::sync::atomic::AtomicBool::new(false);
/// handler start-up order: (point, handler id hex) for handler.subscribed / handler.announce and
/// for the broadcast of every `<name>.registered` frame
static SYNCLOG: Mutex<Vec<(String, String)>> = Mutex::new(Vec::new());
/// SIGKILL this process when sync point `.0` arrives with a frame whose topic ends with `.1`
static KILL_AT: Mutex<Option<(String, String)>> = Mutex::new(None);
static RACE_STORE: Mutex<Option<Store>> = Mutex::new(None);

thread_local! {
    /// this thread's next append is held at `append.id` (inside the append lock) for so many ms
    static PARK_MS: std::cell::Cell<u64> = const { std::cell::Cell::new(0) };
}

/// every reader's historical scan is held for so many ms before its first frame (once per reader): what is appended
/// meanwhile falls into the live part of a subscription whose history is still being replayed
static HIST_PARK_MS: std::sync::atomic::AtomicU64 = std::sync::atomic::AtomicU64::new(0);
static HIST_PARKED: Mutex<Vec<u64>> = Mutex::new(Vec::new());

fn on_serve_point(p: &xs::verif::Point) {
    if p.name == "hist.send" {
        let ms = HIST_PARK_MS.load(std::sync::atomic::Ordering::SeqCst);
        if ms > 0 {
            let first = {
                let mut g = HIST_PARKED.lock().unwrap();
                if g.contains(&p.reader) {
                    false
                } else {
                    g.push(p.reader);
                    true
                }
            };
            if first {
                std::thread::sleep(std::time::Duration::from_millis(ms));
            }
        }
        return;
    }
    if p.name == "append.id" {
        let ms = PARK_MS.with(|c| c.replace(0));
        if ms > 0 {
            std::thread::sleep(std::time::Duration::from_millis(ms));
        }
    }
    let Some(f) = p.frame else { return };
    if let Some((point, suffix)) = KILL_AT.lock().unwrap().as_ref() {
        if p.name == point && f.topic.ends_with(suffix.as_str()) {
            unsafe {
                libc::kill(libc::getpid(), libc::SIGKILL);
            }
            std::thread::sleep(std::time::Duration::from_secs(5));
        }
    }
    if p.name.starts_with("handler.") {
        SYNCLOG.lock().unwrap().push((p.name.to_string(), id_hex(&f.id)));
    } else if p.name == "append.broadcast" && f.topic.ends_with(".registered") {
        let hid = f
            .meta
            .as_ref()
            .and_then(|m| m.get("handler_id"))
            .and_then(|v| v.as_str())
            .and_then(|s| s.parse::<scru128::Scru128Id>().ok())
            .map(|i| id_hex(&i))
            .unwrap_or_default();
        SYNCLOG.lock().unwrap().push(("registered.broadcast".to_string(), hid));
        // a client that appends the instant `.registered` is visible (C16): it races the handler's
        // start-up for the append lock
        if let Some(st) = RACE_STORE.lock().unwrap().as_ref() {
            let (st, ctx) = (st.clone(), f.context_id);
            std::thread::spawn(move || {
                let _ = st.append(xs::store::Frame::builder("ping", ctx).build());
            });
        }
    }
}

pub fn run() {
    let rt = tokio::runtime::Builder::new_multi_thread()
        .worker_threads(4)
        .enable_all()
        .build()
        .unwrap();
    rt.block_on(async { main_loop().await });
    // clean exit: runtime dropped here
}

async fn main_loop() {
    let stdin = std::io::stdin();
    let stdout = std::io::stdout();
    let gate = Arc::new(Gate::default());
    {
        let gate = gate.clone();
        xs::verif::install(Box::new(move |p| {
            if p.name.starts_with("gc.") {
                gate.on_gc_point(p.name);
            } else {
                on_serve_point(p);
            }
        }));
    }
    let mut store: Option<Store> = None;
    for line in stdin.lock().lines() {
        let line = line.unwrap();
        if line.trim().is_empty() {
            continue;
        }
        let op: Value = serde_json::from_str(&line).expect("op json");
        let kind = op["op"].as_str().unwrap_or("").to_string();
        let obs = match kind.as_str() {
            "open" => {
                if let Some(now) = op["now"].as_u64() {
                    xs::verif::set_now_ms(now);
                }
                gate.st.lock().unwrap().gated = op["gated"].as_bool().unwrap_or(false);
                let dir = PathBuf::from(op["dir"].as_str().unwrap());
                store = Some(Store::new(dir));
                json!({"ok": null})
            }
            "exit" => {
                let how = op["how"].as_str().unwrap_or("clean");
                let mut out = stdout.lock();
                writeln!(out, "{}", json!({"ok": null})).unwrap();
                out.flush().unwrap();
                drop(out);
                if how == "kill" {
                    unsafe {
                        libc::kill(libc::getpid(), libc::SIGKILL);
                    }
                    std::thread::sleep(std::time::Duration::from_secs(5));
                }
                // clean: normal process exit. Pending gc tasks stay unprocessed (the gc
                // thread is parked in the gate), exactly like a queue lost at shutdown.
                std::process::exit(0);
                #[allow(unreachable_code)]
                return;
            }
            _ => {
                let s = store.as_ref().expect("store not open");
                exec(s, &gate, &kind, &op).await
            }
        };
        let mut out = stdout.lock();
        writeln!(out, "{}", obs).unwrap();
        out.flush().unwrap();
    }
    let mut st = gate.st.lock().unwrap();
    st.free = true;
    gate.cv.notify_all();
}

async fn exec(store: &Store, gate: &Arc<Gate>, kind: &str, op: &Value) -> Value {
    match kind {
        "clock" => {
            xs::verif::set_now_ms(op["now"].as_u64().unwrap());
            json!({"ok": null})
        }
        "append" if op["park_ms"].as_u64().unwrap_or(0) > 0 => {
            // an append that has its id and holds the append lock for a while before it is stored: whoever
            // subscribes meanwhile gets the lock only after this frame is committed and broadcast
            let frame = match frame_from_json(op) {
                Ok(f) => f,
                Err(e) => return json!({"err": format!("bad-op:{}", e)}),
            };
            let (st, ms) = (store.clone(), op["park_ms"].as_u64().unwrap_or(0));
            std::thread::spawn(move || {
                PARK_MS.with(|c| c.set(ms));
                let _ = st.append(frame);
            });
            tokio::time::sleep(std::time::Duration::from_millis(10)).await;
            json!({"ok": null})
        }
        "append" => {
            let frame = match frame_from_json(op) {
                Ok(f) => f,
                Err(e) => return json!({"err": format!("bad-op:{}", e)}),
            };
            match store.append(frame) {
                Ok(f) => json!({"ok": frame_json(&f)}),
                Err(e) => json!({"err": classify_err(&e.to_string())}),
            }
        }
        "import" => {
            let frame = match frame_from_json(&op["frame"]) {
                Ok(f) => f,
                Err(e) => return json!({"err": format!("bad-op:{}", e)}),
            };
            match store.insert_frame(&frame) {
                Ok(()) => json!({"ok": null}),
                Err(e) => json!({"err": classify_err(&e.to_string())}),
            }
        }
        "remove" => match store.remove(&id_from_hex(op["id"].as_str().unwrap())) {
            Ok(()) => json!({"ok": null}),
            Err(e) => json!({"err": classify_err(&e.to_string())}),
        },
        "get" => {
            let f = store.get(&id_from_hex(op["id"].as_str().unwrap()));
            json!({"ok": f.as_ref().map(frame_json)})
        }
        "head" => {
            let topic = String::from_utf8(hex::decode(op["topic"].as_str().unwrap()).unwrap()).unwrap();
            let f = store.head(&topic, id_from_hex(op["ctx"].as_str().unwrap()));
            json!({"ok": f.as_ref().map(frame_json)})
        }
        "read_sync" => {
            let last = opt_id(&op["last"]);
            let limit = op["limit"].as_u64().map(|n| n as usize);
            let frames: Vec<Value> = store
                .read_sync(last.as_ref(), limit, opt_id(&op["ctx"]))
                .map(|f| frame_json(&f))
                .collect();
            json!({"ok": frames})
        }
        "read" => {
            let options = ReadOptions::builder()
                .follow(FollowOption::Off)
                .maybe_last_id(opt_id(&op["last"]))
                .maybe_limit(op["limit"].as_u64().map(|n| n as usize))
                .maybe_context_id(opt_id(&op["ctx"]))
                .build();
            let mut rx = store.read(options).await;
            let mut frames = Vec::new();
            while let Some(f) = rx.recv().await {
                frames.push(frame_json(&f));
            }
            json!({"ok": frames})
        }
        "gc" => {
            let n = op["n"].as_u64().unwrap_or(1);
            {
                let mut st = gate.st.lock().unwrap();
                st.permits += n;
                gate.cv.notify_all();
            }
            let fut = store.wait_for_gc();
            tokio::pin!(fut);
            loop {
                if tokio::time::timeout(std::time::Duration::from_micros(300), &mut fut)
                    .await
                    .is_ok()
                {
                    gate.st.lock().unwrap().permits = 0;
                    break;
                }
                let st = gate.st.lock().unwrap();
                if st.blocked && st.permits == 0 {
                    break;
                }
            }
            json!({"ok": null})
        }
        "drain" => {
            {
                let mut st = gate.st.lock().unwrap();
                st.free = true;
                gate.cv.notify_all();
            }
            store.wait_for_gc().await;
            {
                let mut st = gate.st.lock().unwrap();
                st.free = false;
                st.permits = 0;
            }
            json!({"ok": null})
        }
        "serve_all" => {
            // what `xs serve` starts (main::serve), minus the trace logger: the three serve
            // loops, each on its own engine clone
            let engine = xs::nu::Engine::new().unwrap();
            if op["race_ping"].as_bool().unwrap_or(false) {
                *RACE_STORE.lock().unwrap() = Some(store.clone());
            }
            if op["tap"].as_bool().unwrap_or(true) {
                let st = store.clone();
                let mut rx = st.read(ReadOptions::builder().follow(FollowOption::On).build()).await;
                TAP_ON.store(true, std::sync::atomic::Ordering::SeqCst);
                tokio::spawn(async move {
                    while let Some(f) = rx.recv().await {
                        let mut v = frame_json(&f);
                        if let Some(h) = &f.hash {
                            match st.cas_read(h).await {
                                Ok(b) => {
                                    v["content"] = match String::from_utf8(b) {
                                        Ok(s) if s.len() < 4096 => json!(s),
                                        _ => json!(null),
                                    };
                                    v["content_present"] = json!(true);
                                }
                                Err(_) => v["content_present"] = json!(false),
                            }
                        }
                        TAP.lock().unwrap().push(v);
                    }
                });
            }
            {
                let (st, en) = (store.clone(), engine.clone());
                tokio::spawn(async move {
                    let _ = xs::generators::serve(st, en).await;
                });
            }
            {
                let (st, en) = (store.clone(), engine.clone());
                tokio::spawn(async move {
                    let _ = xs::handlers::serve(st, en).await;
                });
            }
            {
                let (st, en) = (store.clone(), engine.clone());
                tokio::spawn(async move {
                    let _ = xs::commands::serve(st, en).await;
                });
            }
            tokio::time::sleep(std::time::Duration::from_millis(op["wait_ms"].as_u64().unwrap_or(250))).await;
            json!({"ok": null})
        }
        "append_content" => {
            // content into the CAS first, then the frame (what `xs append` / `.append` do)
            let mut fv = op.clone();
            let content = op["content"].as_str().unwrap_or("");
            let hash = match store.cas_insert(content).await {
                Ok(h) => h,
                Err(e) => return json!({"err": format!("cas:{}", e)}),
            };
            fv["hash"] = json!(hash.to_string());
            let frame = match frame_from_json(&fv) {
                Ok(f) => f,
                Err(e) => return json!({"err": format!("bad-op:{}", e)}),
            };
            match store.append(frame) {
                Ok(f) => json!({"ok": frame_json(&f)}),
                Err(e) => json!({"err": classify_err(&e.to_string())}),
            }
        }
        "burst" => {
            // several writers appending at once: one thread per list, frames of a list in order
            let mut joins = Vec::new();
            for w in op["writers"].as_array().cloned().unwrap_or_default() {
                let st = store.clone();
                joins.push(std::thread::spawn(move || {
                    let mut out = Vec::new();
                    for fv in w.as_array().cloned().unwrap_or_default() {
                        match frame_from_json(&fv) {
                            Ok(f) => match st.append(f) {
                                Ok(f) => out.push(frame_json(&f)),
                                Err(e) => out.push(json!({"err": classify_err(&e.to_string())})),
                            },
                            Err(e) => out.push(json!({"err": format!("bad-op:{}", e)})),
                        }
                    }
                    out
                }));
            }
            let res: Vec<Value> = joins.into_iter().map(|j| json!(j.join().unwrap_or_default())).collect();
            json!({"ok": res})
        }
        "par" => {
            // several threads at once, each working through its own list of appends / removes (C08: explicit removals
            // racing the collector; nothing here is gated - open the store with gated=false)
            let mut joins = Vec::new();
            for t in op["threads"].as_array().cloned().unwrap_or_default() {
                let st = store.clone();
                joins.push(std::thread::spawn(move || {
                    let d = t["delay_us"].as_u64().unwrap_or(0);
                    if d > 0 {
                        std::thread::sleep(std::time::Duration::from_micros(d));
                    }
                    let mut out = Vec::new();
                    for o in t["ops"].as_array().cloned().unwrap_or_default() {
                        match o["op"].as_str().unwrap_or("") {
                            "append" => match frame_from_json(&o) {
                                Ok(f) => match st.append(f) {
                                    Ok(f) => out.push(json!({"ok": frame_json(&f)})),
                                    Err(e) => out.push(json!({"err": classify_err(&e.to_string())})),
                                },
                                Err(e) => out.push(json!({"err": format!("bad-op:{}", e)})),
                            },
                            "remove" => match st.remove(&id_from_hex(o["id"].as_str().unwrap_or("0"))) {
                                Ok(()) => out.push(json!({"ok": null})),
                                Err(e) => out.push(json!({"err": classify_err(&e.to_string())})),
                            },
                            _ => out.push(json!({"err": "bad-op"})),
                        }
                    }
                    out
                }));
            }
            let res: Vec<Value> = joins.into_iter().map(|j| json!(j.join().unwrap_or_default())).collect();
            json!({"ok": res})
        }
        "park_hist" => {
            HIST_PARK_MS.store(op["ms"].as_u64().unwrap_or(0), std::sync::atomic::Ordering::SeqCst);
            json!({"ok": null})
        }
        "settle" => {
            // wait until the stream has been quiet for `ms` (at most `max_ms`)
            let quiet = std::time::Duration::from_millis(op["ms"].as_u64().unwrap_or(200));
            let hard = std::time::Instant::now() + std::time::Duration::from_millis(op["max_ms"].as_u64().unwrap_or(5000));
            let count = || {
                if TAP_ON.load(std::sync::atomic::Ordering::SeqCst) {
                    TAP.lock().unwrap().len()
                } else {
                    store.read_sync(None, None, None).count()
                }
            };
            let mut last = count();
            let mut since = std::time::Instant::now();
            loop {
                tokio::time::sleep(std::time::Duration::from_millis(20)).await;
                let n = count();
                if n != last {
                    last = n;
                    since = std::time::Instant::now();
                }
                if since.elapsed() >= quiet || std::time::Instant::now() >= hard {
                    break;
                }
            }
            json!({"ok": last})
        }
        "tap" => {
            let log: Vec<Value> = SYNCLOG.lock().unwrap().iter().map(|(a, b)| json!([a, b])).collect();
            json!({"ok": {"frames": TAP.lock().unwrap().clone(), "sync": log}})
        }
        "arm_kill" => {
            *KILL_AT.lock().unwrap() = Some((
                op["point"].as_str().unwrap_or("append.enter").to_string(),
                op["suffix"].as_str().unwrap_or("").to_string(),
            ));
            json!({"ok": null})
        }
        "stream" => {
            // every stored frame, with its content when it is small text
            let mut out = Vec::new();
            for f in store.read_sync(None, None, None) {
                let mut v = frame_json(&f);
                if let Some(h) = &f.hash {
                    if let Ok(b) = store.cas_read(h).await {
                        v["content"] = match String::from_utf8(b) {
                            Ok(s) if s.len() < 4096 => json!(s),
                            _ => json!(null),
                        };
                        v["content_present"] = json!(true);
                    } else {
                        v["content_present"] = json!(false);
                    }
                }
                out.push(v);
            }
            json!({"ok": out})
        }
        "serve" => {
            let engine = xs::nu::Engine::new().unwrap();
            let st = store.clone();
            tokio::spawn(async move {
                let _ = xs::api::serve(st, engine, None).await;
            });
            let sock = store.path.join("sock");
            for _ in 0..400 {
                if sock.exists() {
                    break;
                }
                tokio::time::sleep(std::time::Duration::from_millis(5)).await;
            }
            // the listener is bound right after the xs.start frame was appended
            let f = store.head("xs.start", xs::store::ZERO_CONTEXT);
            json!({"ok": f.as_ref().map(frame_json)})
        }
        "http" => crate::http_client::request(&store.path.join("sock"), op).await,
        "http_bg" => crate::http_client::request_bg(&store.path.join("sock"), op).await,
        "http_collect" => crate::http_client::collect_bg(op).await,
        "cas_has" => {
            let h: Result<ssri::Integrity, _> = op["hash"].as_str().unwrap_or("").parse();
            match h {
                Ok(h) => match store.cas_read(&h).await {
                    Ok(b) => json!({"ok": hex::encode(b)}),
                    Err(_) => json!({"ok": null}),
                },
                Err(_) => json!({"err": "bad-hash"}),
            }
        }
        "dump" => {
            let (stream, idx_t, idx_c, contexts) = store.verif_dump();
            let stream: Vec<Value> = stream
                .iter()
                .map(|(k, v)| match serde_json::from_slice::<xs::store::Frame>(v) {
                    Ok(f) => json!([hex::encode(k), frame_json(&f)]),
                    Err(e) => json!([hex::encode(k), {"undecodable": e.to_string()}]),
                })
                .collect();
            json!({"ok": {
                "stream": stream,
                "idx_topic": idx_t.iter().map(hex::encode).collect::<Vec<_>>(),
                "idx_context": idx_c.iter().map(hex::encode).collect::<Vec<_>>(),
                "contexts": contexts.iter().map(id_hex).collect::<Vec<_>>(),
            }})
        }
        other => json!({"err": format!("bad-op:unknown {}", other)}),
    }
}
