//! minimal raw HTTP/1.1 client over the server's unix socket: the request is written as
//! bytes (so malformed header values are expressible), the response is read until EOF or a
//! deadline.
use std::path::Path;
use std::time::Duration;

use serde_json::{json, Value};
use tokio::io::{AsyncReadExt, AsyncWriteExt};
use tokio::net::UnixStream;

fn find(h: &[u8], n: &[u8]) -> Option<usize> {
    h.windows(n.len()).position(|w| w == n)
}

fn dechunk(mut b: &[u8]) -> (Vec<u8>, bool) {
    // returns (payload, complete)
    let mut out = Vec::new();
    loop {
        let Some(eol) = find(b, b"\r\n") else { return (out, false) };
        let size_txt = std::str::from_utf8(&b[..eol]).unwrap_or("0");
        let size = usize::from_str_radix(size_txt.split(';').next().unwrap_or("0").trim(), 16).unwrap_or(0);
        b = &b[eol + 2..];
        if size == 0 {
            return (out, true);
        }
        if b.len() < size {
            out.extend_from_slice(b);
            return (out, false);
        }
        out.extend_from_slice(&b[..size]);
        b = &b[size..];
        if b.len() >= 2 {
            b = &b[2..];
        } else {
            return (out, false);
        }
    }
}

use std::collections::HashMap;
use std::sync::{Arc, Mutex, OnceLock};

type Shared = Arc<Mutex<(Vec<u8>, bool)>>;
static BG: OnceLock<Mutex<HashMap<String, Shared>>> = OnceLock::new();

/// start a request whose response is collected in the background (`http_collect` reads it)
pub async fn request_bg(sock: &Path, op: &Value) -> Value {
    let name = op["name"].as_str().unwrap_or("bg").to_string();
    let req = build_request(op);
    let mut stream = match UnixStream::connect(sock).await {
        Ok(s) => s,
        Err(e) => return json!({"conn": "connect-failed", "detail": e.to_string()}),
    };
    if stream.write_all(&req).await.is_err() {
        return json!({"conn": "write-failed"});
    }
    let shared: Shared = Arc::new(Mutex::new((Vec::new(), false)));
    BG.get_or_init(|| Mutex::new(HashMap::new())).lock().unwrap().insert(name, shared.clone());
    tokio::spawn(async move {
        let mut tmp = [0u8; 16384];
        loop {
            match stream.read(&mut tmp).await {
                Ok(0) | Err(_) => {
                    shared.lock().unwrap().1 = true;
                    break;
                }
                Ok(n) => shared.lock().unwrap().0.extend_from_slice(&tmp[..n]),
            }
        }
    });
    // give the server time to answer the headers and the certain beginning of the stream
    tokio::time::sleep(Duration::from_millis(op["settle_ms"].as_u64().unwrap_or(150))).await;
    json!({"ok": null})
}

pub async fn collect_bg(op: &Value) -> Value {
    let name = op["name"].as_str().unwrap_or("bg").to_string();
    tokio::time::sleep(Duration::from_millis(op["settle_ms"].as_u64().unwrap_or(200))).await;
    let shared = BG.get_or_init(|| Mutex::new(HashMap::new())).lock().unwrap().get(&name).cloned();
    match shared {
        Some(sh) => {
            let g = sh.lock().unwrap();
            parse_response(&g.0, g.1)
        }
        None => json!({"conn": "unknown-bg"}),
    }
}

fn build_request(op: &Value) -> Vec<u8> {
    let method = op["method"].as_str().unwrap_or("GET");
    let target = op["target"].as_str().unwrap_or("/");
    let body = hex::decode(op["body_hex"].as_str().unwrap_or("")).unwrap_or_default();
    let mut req: Vec<u8> = Vec::new();
    req.extend_from_slice(format!("{} {} HTTP/1.1\r\nHost: localhost\r\nConnection: close\r\n", method, target).as_bytes());
    if let Some(hs) = op["headers"].as_array() {
        for h in hs {
            req.extend_from_slice(h[0].as_str().unwrap_or("x").as_bytes());
            req.extend_from_slice(b": ");
            req.extend_from_slice(&hex::decode(h[1].as_str().unwrap_or("")).unwrap_or_default());
            req.extend_from_slice(b"\r\n");
        }
    }
    if let Some(raw) = op["raw_tail_hex"].as_str() {
        // a body section sent verbatim (broken chunk framing, fewer bytes than announced)
        if op["te_chunked"].as_bool().unwrap_or(false) {
            req.extend_from_slice(b"Transfer-Encoding: chunked\r\n\r\n");
        } else {
            req.extend_from_slice(format!("Content-Length: {}\r\n\r\n", op["content_length"].as_u64().unwrap_or(0)).as_bytes());
        }
        req.extend_from_slice(&hex::decode(raw).unwrap_or_default());
    } else if let Some(sz) = op["chunked"].as_u64() {
        req.extend_from_slice(b"Transfer-Encoding: chunked\r\n\r\n");
        for c in body.chunks(sz.max(1) as usize) {
            req.extend_from_slice(format!("{:x}\r\n", c.len()).as_bytes());
            req.extend_from_slice(c);
            req.extend_from_slice(b"\r\n");
        }
        req.extend_from_slice(b"0\r\n\r\n");
    } else if !body.is_empty() || method == "POST" {
        req.extend_from_slice(format!("Content-Length: {}\r\n\r\n", body.len()).as_bytes());
        req.extend_from_slice(&body);
    } else {
        req.extend_from_slice(b"\r\n");
    }
    req
}

fn parse_response(buf: &[u8], eof: bool) -> Value {
    let Some(hend) = find(buf, b"\r\n\r\n") else {
        return json!({"status": null, "conn": if eof { "closed-no-response" } else { "hung" }, "raw_hex": hex::encode(buf)});
    };
    let head = String::from_utf8_lossy(&buf[..hend]).to_string();
    let mut lines = head.split("\r\n");
    let status: Option<u64> = lines.next().and_then(|l| l.split(' ').nth(1)).and_then(|c| c.parse().ok());
    let mut ctype = None;
    let mut is_chunked = false;
    for l in lines {
        let ll = l.to_ascii_lowercase();
        if let Some(v) = ll.strip_prefix("content-type:") {
            ctype = Some(v.trim().to_string());
        }
        if ll.starts_with("transfer-encoding:") && ll.contains("chunked") {
            is_chunked = true;
        }
    }
    let raw_body = &buf[hend + 4..];
    let (body, complete) = if is_chunked { dechunk(raw_body) } else { (raw_body.to_vec(), eof) };
    json!({"status": status, "conn": "responded", "ctype": ctype, "body_hex": hex::encode(&body),
           "complete": complete, "open": !eof && !complete})
}

pub async fn request(sock: &Path, op: &Value) -> Value {
    let read_ms = op["read_ms"].as_u64().unwrap_or(1500);
    let req = build_request(op);
    let mut stream = match UnixStream::connect(sock).await {
        Ok(s) => s,
        Err(e) => return json!({"conn": "connect-failed", "detail": e.to_string()}),
    };
    if stream.write_all(&req).await.is_err() {
        return json!({"conn": "write-failed"});
    }
    if op["half_close"].as_bool().unwrap_or(false) {
        let _ = stream.shutdown().await;      // the client stops sending: the announced body never completes
    }
    let mut buf: Vec<u8> = Vec::new();
    let mut tmp = [0u8; 16384];
    let deadline = tokio::time::Instant::now() + Duration::from_millis(read_ms);
    let mut eof = false;
    loop {
        match tokio::time::timeout_at(deadline, stream.read(&mut tmp)).await {
            Ok(Ok(0)) | Ok(Err(_)) => {
                eof = true;
                break;
            }
            Ok(Ok(n)) => buf.extend_from_slice(&tmp[..n]),
            Err(_) => break,
        }
    }
    parse_response(&buf, eof)
}
