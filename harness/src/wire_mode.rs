//! `xsw wire`: the real parsers / printers on one input per line.
use std::io::{BufRead, Write};

use serde_json::{json, Value};

use xs::store::{FollowOption, Frame, ReadOptions, TTL};

use crate::common::*;

fn ttl_json(t: &TTL) -> Value {
    match t {
        TTL::Forever => json!("forever"),
        TTL::Ephemeral => json!("ephemeral"),
        TTL::Time(d) => json!(format!("time:{}", d.as_millis())),
        TTL::Head(n) => json!(format!("head:{}", n)),
    }
}

fn opts_json(o: &ReadOptions) -> Value {
    json!({
        "follow": match &o.follow {
            FollowOption::Off => json!("off"),
            FollowOption::On => json!("on"),
            FollowOption::WithHeartbeat(d) => json!(d.as_millis() as u64),
        },
        "tail": o.tail,
        "last": o.last_id.as_ref().map(id_hex),
        "limit": o.limit,
        "ctx": o.context_id.as_ref().map(id_hex),
    })
}

fn opts_from_json(v: &Value) -> ReadOptions {
    let follow = match &v["follow"] {
        Value::String(s) if s == "on" => FollowOption::On,
        Value::Number(n) => FollowOption::WithHeartbeat(std::time::Duration::from_millis(n.as_u64().unwrap())),
        _ => FollowOption::Off,
    };
    ReadOptions::builder()
        .follow(follow)
        .tail(v["tail"].as_bool().unwrap_or(false))
        .maybe_last_id(opt_id(&v["last"]))
        .maybe_limit(v["limit"].as_u64().map(|n| n as usize))
        .maybe_context_id(opt_id(&v["ctx"]))
        .build()
}

pub fn run() {
    let stdin = std::io::stdin();
    let stdout = std::io::stdout();
    let mut out = stdout.lock();
    for line in stdin.lock().lines() {
        let line = line.unwrap();
        if line.trim().is_empty() {
            continue;
        }
        let v: Value = serde_json::from_str(&line).expect("json");
        let kind = v["kind"].as_str().unwrap_or("");
        let s = v["s"].as_str().unwrap_or("");
        let res = std::panic::catch_unwind(|| match kind {
            // parse_ttl on a raw string
            "ttl" => match xs::store::parse_ttl(s) {
                Ok(t) => json!({"ok": ttl_json(&t)}),
                Err(_) => json!({"err": "bad-ttl"}),
            },
            // the JSON spelling: "<string>" through serde
            "ttl_json" => match serde_json::from_str::<TTL>(s) {
                Ok(t) => json!({"ok": ttl_json(&t), "again": serde_json::to_string(&t).unwrap()}),
                Err(_) => json!({"err": "bad-ttl"}),
            },
            // TTL::from_query on a query string
            "ttl_query" => match TTL::from_query(Some(s)) {
                Ok(t) => json!({"ok": ttl_json(&t), "again": t.to_query()}),
                Err(_) => json!({"err": "bad-ttl"}),
            },
            "opts_query" => match ReadOptions::from_query(Some(s)) {
                Ok(o) => json!({"ok": opts_json(&o), "again": o.to_query_string()}),
                Err(_) => json!({"err": "bad-query"}),
            },
            "opts_print" => {
                let o = opts_from_json(&v["opts"]);
                let q = o.to_query_string();
                let back = ReadOptions::from_query(if q.is_empty() { None } else { Some(&q) });
                json!({"ok": q, "back": back.as_ref().ok().map(opts_json), "same": back.map(|b| b == o).unwrap_or(false)})
            }
            // Frame from JSON text, and its re-serialisation
            "frame_json" => match serde_json::from_str::<Frame>(s) {
                Ok(f) => {
                    let again = serde_json::to_string(&f).unwrap();
                    let back = serde_json::from_str::<Frame>(&again);
                    json!({"ok": frame_json(&f), "again": again, "back_ok": back.is_ok(), "same": back.map(|b| b == f).unwrap_or(false)})
                }
                Err(e) => json!({"err": "bad-json", "detail": e.to_string()}),
            },
            "id" => match s.parse::<scru128::Scru128Id>() {
                Ok(i) => json!({"ok": id_hex(&i), "again": i.to_string()}),
                Err(_) => json!({"err": "bad-id"}),
            },
            _ => json!({"err": "unknown-kind"}),
        });
        let res = res.unwrap_or_else(|_| json!({"panic": true}));
        writeln!(out, "{}", res).unwrap();
    }
    out.flush().unwrap();
}
