//! xsw: worker that executes operations against the real cablehead/xs crate
//! (built from /repo's working tree with the `verif` feature) and reports
//! canonical observations as JSON lines.
mod common;
mod http_client;
mod sched_mode;
mod store_mode;
mod wire_mode;

fn main() {
    let args: Vec<String> = std::env::args().collect();
    let mode = args.get(1).map(|s| s.as_str()).unwrap_or("");
    match mode {
        "store" => store_mode::run(),
        "sched" => sched_mode::run(),
        "wire" => wire_mode::run(),
        _ => {
            eprintln!("usage: xsw <store> ...");
            std::process::exit(2);
        }
    }
}
