//! `xsw sched`: run writers / readers of the real Store under a controlled schedule.
//! Threads park at the `verif::sync` points; the controller releases them step by step.
use std::cell::RefCell;
use std::collections::{HashMap, HashSet};
use std::io::Read;
use std::path::PathBuf;
use std::sync::{Arc, Condvar, Mutex};
use std::time::{Duration, Instant};

use serde_json::{json, Value};

use xs::store::{FollowOption, Frame, ReadOptions, Store};

use crate::common::*;

thread_local! {
    static ACTOR: RefCell<Option<String>> = const { RefCell::new(None) };
}

#[derive(Default)]
struct CtlState {
    parked: HashMap<String, String>,
    tokens: HashMap<String, u64>,
    free: HashSet<String>,
    all_free: bool,
    readers: HashMap<u64, String>,
    pending_reader: Option<String>,
    done: HashSet<String>,
    log: Vec<Value>,
}

#[derive(Default)]
struct Ctl {
    m: Mutex<CtlState>,
    cv: Condvar,
}

impl Ctl {
    fn on_point(&self, name: &str, frame: Option<&Frame>, reader: u64) {
        if name.starts_with("gc.") {
            return;
        }
        let mut st = self.m.lock().unwrap();
        let actor = if reader != 0 {
            if !st.readers.contains_key(&reader) && (name == "read.subscribed" || name == "read.start") {
                if let Some(n) = st.pending_reader.take() {
                    st.readers.insert(reader, n);
                }
            }
            st.readers.get(&reader).cloned()
        } else {
            ACTOR.with(|a| a.borrow().clone())
        };
        let Some(actor) = actor else { return };
        st.log.push(json!({"actor": actor, "point": name, "frame": frame.map(|f| id_hex(&f.id)),
            "topic": frame.map(|f| f.topic.clone())}));
        if st.all_free || st.free.contains(&actor) {
            return;
        }
        st.parked.insert(actor.clone(), name.to_string());
        self.cv.notify_all();
        drop(st);
        // Parking a tokio worker (live task, heartbeat, the `read()` call itself) must not
        // stall the runtime's timer/IO driver: tell tokio this worker is going to block.
        let wait = || {
            let mut st = self.m.lock().unwrap();
            loop {
                if st.all_free || st.free.contains(&actor) {
                    break;
                }
                let t = st.tokens.entry(actor.clone()).or_insert(0);
                if *t > 0 {
                    *t -= 1;
                    break;
                }
                st = self.cv.wait(st).unwrap();
            }
            st
        };
        let in_worker = tokio::runtime::Handle::try_current()
            .map(|h| h.runtime_flavor() == tokio::runtime::RuntimeFlavor::MultiThread)
            .unwrap_or(false);
        let mut st = if in_worker { tokio::task::block_in_place(wait) } else { wait() };
        st.parked.remove(&actor);
        self.cv.notify_all();
    }

    /// release `actor` from where it is parked and let it run until it parks at `point`
    fn run_to(&self, actor: &str, point: &str, timeout: Duration, release_first: bool) -> &'static str {
        let deadline = Instant::now() + timeout;
        let mut st = self.m.lock().unwrap();
        if release_first && st.parked.contains_key(actor) {
            *st.tokens.entry(actor.to_string()).or_insert(0) += 1;
            self.cv.notify_all();
            // wait until it left the park
            while st.parked.contains_key(actor) && st.tokens.get(actor).copied().unwrap_or(0) > 0 {
                let now = Instant::now();
                if now >= deadline {
                    return "timeout";
                }
                st = self.cv.wait_timeout(st, deadline - now).unwrap().0;
            }
        }
        loop {
            if let Some(p) = st.parked.get(actor) {
                if st.tokens.get(actor).copied().unwrap_or(0) == 0 {
                    if p == point {
                        return "arrived";
                    }
                    // intermediate point: let it pass
                    *st.tokens.entry(actor.to_string()).or_insert(0) += 1;
                    self.cv.notify_all();
                }
            }
            let now = Instant::now();
            if now >= deadline {
                return "timeout";
            }
            st = self.cv.wait_timeout(st, deadline - now).unwrap().0;
        }
    }

    /// release `actor` and wait until it is parked again (anywhere), finished, or `timeout`
    fn next(&self, actor: &str, timeout: Duration) -> String {
        let deadline = Instant::now() + timeout;
        let mut st = self.m.lock().unwrap();
        if st.parked.contains_key(actor) {
            *st.tokens.entry(actor.to_string()).or_insert(0) += 1;
            self.cv.notify_all();
            while st.parked.contains_key(actor) && st.tokens.get(actor).copied().unwrap_or(0) > 0 {
                let now = Instant::now();
                if now >= deadline {
                    return "timeout".into();
                }
                st = self.cv.wait_timeout(st, deadline - now).unwrap().0;
            }
        }
        loop {
            if let Some(p) = st.parked.get(actor) {
                if st.tokens.get(actor).copied().unwrap_or(0) == 0 {
                    return p.clone();
                }
            }
            if st.done.contains(actor) {
                return "finished".into();
            }
            let now = Instant::now();
            if now >= deadline {
                return "timeout".into();
            }
            st = self.cv.wait_timeout(st, deadline - now).unwrap().0;
        }
    }

    fn free(&self, actor: Option<&str>) {
        let mut st = self.m.lock().unwrap();
        match actor {
            Some(a) => {
                st.free.insert(a.to_string());
            }
            None => st.all_free = true,
        }
        self.cv.notify_all();
    }
}

struct ReaderState {
    rx: Option<tokio::sync::mpsc::Receiver<Frame>>,
    shared: Arc<Mutex<(Vec<Value>, bool)>>,
}

fn resolve_id(v: &Value, hist: &[Frame]) -> Option<scru128::Scru128Id> {
    let s = v.as_str()?;
    if let Some(k) = s.strip_prefix('@') {
        let k: usize = k.parse().ok()?;
        hist.get(k).map(|f| f.id)
    } else {
        Some(id_from_hex(s))
    }
}

fn build_frame(v: &Value, hist: &[Frame]) -> Frame {
    let mut v = v.clone();
    if let Some(c) = resolve_id(&v["ctx"], hist) {
        v["ctx"] = json!(id_hex(&c));
    }
    frame_from_json(&v).expect("frame")
}

pub fn run() {
    let mut input = String::new();
    std::io::stdin().read_to_string(&mut input).unwrap();
    let spec: Value = serde_json::from_str(&input).expect("spec json");
    let rt = tokio::runtime::Builder::new_multi_thread()
        .worker_threads(8)
        .enable_all()
        .build()
        .unwrap();
    let out = rt.block_on(async { drive(spec).await });
    println!("{}", out);
    // the store's gc thread and parked threads would keep the process alive
    std::process::exit(0);
}

/// if the pending `read()` has reached its subscription point, let it return and take its stream
async fn complete_read(
    ctl: &Arc<Ctl>,
    pending: &mut Option<(String, bool, tokio::task::JoinHandle<tokio::sync::mpsc::Receiver<Frame>>)>,
    readers: &mut HashMap<String, ReaderState>,
    wait: Duration,
) {
    let Some((name, _, _)) = pending.as_ref() else { return };
    let name = name.clone();
    let arrived = {
        let st = ctl.m.lock().unwrap();
        st.all_free || st.parked.get(&name).map(|p| p == "read.start").unwrap_or(false)
    };
    if !arrived && wait.is_zero() {
        return;
    }
    {
        let mut st = ctl.m.lock().unwrap();
        if st.parked.get(&name).map(|p| p == "read.start").unwrap_or(false) {
            *st.tokens.entry(name.clone()).or_insert(0) += 1;
            ctl.cv.notify_all();
        }
    }
    let (name, eager, h) = pending.take().unwrap();
    let t = if wait.is_zero() { Duration::from_millis(2000) } else { wait };
    if let Ok(Ok(mut rx)) = tokio::time::timeout(t, h).await {
        let shared = Arc::new(Mutex::new((Vec::new(), false)));
        if eager {
            let sh = shared.clone();
            tokio::spawn(async move {
                while let Some(f) = rx.recv().await {
                    sh.lock().unwrap().0.push(frame_json(&f));
                }
                sh.lock().unwrap().1 = true;
            });
            readers.insert(name, ReaderState { rx: None, shared });
        } else {
            readers.insert(name, ReaderState { rx: Some(rx), shared });
        }
    }
}

async fn drive(spec: Value) -> Value {
    let ctl = Arc::new(Ctl::default());
    {
        let ctl = ctl.clone();
        xs::verif::install(Box::new(move |p| ctl.on_point(p.name, p.frame, p.reader)));
    }
    let store = Store::new(PathBuf::from(spec["dir"].as_str().unwrap()));
    ctl.m.lock().unwrap().free.insert("main".to_string());
    let timeout = Duration::from_millis(spec["step_timeout_ms"].as_u64().unwrap_or(5000));
    let dbg = std::env::var("XSW_DEBUG").is_ok();

    // history, appended uncontrolled
    let mut hist: Vec<Frame> = Vec::new();
    for fv in spec["history"].as_array().cloned().unwrap_or_default() {
        let f = build_frame(&fv, &hist);
        match store.append(f) {
            Ok(f) => hist.push(f),
            Err(e) => return json!({"error": format!("history append: {}", e)}),
        }
    }

    let writer_results: Arc<Mutex<HashMap<String, Vec<Value>>>> = Arc::new(Mutex::new(HashMap::new()));
    let mut readers: HashMap<String, ReaderState> = HashMap::new();
    let mut step_results: Vec<Value> = Vec::new();
    let mut pollers: HashMap<String, Vec<Value>> = HashMap::new();
    let mut started_writers: Vec<String> = Vec::new();
    let mut main_started: usize = 0;
    let mut pending_read: Option<(String, bool, tokio::task::JoinHandle<tokio::sync::mpsc::Receiver<Frame>>)> = None;
    let main_results: Arc<Mutex<Vec<Value>>> = Arc::new(Mutex::new(Vec::new()));

    for step in spec["steps"].as_array().cloned().unwrap_or_default() {
        if dbg { eprintln!("step {} (pre)", step); }
        complete_read(&ctl, &mut pending_read, &mut readers, Duration::from_millis(0)).await;
        if dbg { eprintln!("step {} (run)", step); }
        let kind = step[0].as_str().unwrap_or("");
        let res: Value = match kind {
            "start_writer" => {
                let name = step[1].as_str().unwrap().to_string();
                started_writers.push(name.clone());
                let frames: Vec<Frame> = spec["writers"][&name]
                    .as_array()
                    .cloned()
                    .unwrap_or_default()
                    .iter()
                    .map(|fv| build_frame(fv, &hist))
                    .collect();
                let store = store.clone();
                let results = writer_results.clone();
                let n2 = name.clone();
                let ctl3 = ctl.clone();
                std::thread::Builder::new()
                    .name(name.clone())
                    .spawn(move || {
                        ACTOR.with(|a| *a.borrow_mut() = Some(n2.clone()));
                        for f in frames {
                            let r = match store.append(f) {
                                Ok(f) => json!({"ok": frame_json(&f)}),
                                Err(e) => json!({"err": classify_err(&e.to_string())}),
                            };
                            results.lock().unwrap().entry(n2.clone()).or_default().push(r);
                        }
                        let mut st = ctl3.m.lock().unwrap();
                        st.done.insert(n2.clone());
                        ctl3.cv.notify_all();
                    })
                    .unwrap();
                json!(ctl.run_to(&name, "append.enter", timeout, false))
            }
            "start_reader" => {
                let name = step[1].as_str().unwrap().to_string();
                let o = &spec["readers"][&name];
                let follow = match &o["follow"] {
                    Value::String(s) if s == "on" => FollowOption::On,
                    Value::Number(n) => FollowOption::WithHeartbeat(Duration::from_millis(n.as_u64().unwrap())),
                    _ => FollowOption::Off,
                };
                let options = ReadOptions::builder()
                    .follow(follow)
                    .tail(o["tail"].as_bool().unwrap_or(false))
                    .maybe_last_id(resolve_id(&o["last"], &hist))
                    .maybe_limit(o["limit"].as_u64().map(|n| n as usize))
                    .maybe_context_id(resolve_id(&o["ctx"], &hist))
                    .build();
                ctl.m.lock().unwrap().pending_reader = Some(name.clone());
                let store2 = store.clone();
                let h = tokio::spawn(async move { store2.read(options).await });
                let eager = o["consume"].as_str().unwrap_or("eager") == "eager";
                pending_read = Some((name.clone(), eager, h));
                // a follow subscribes under the append lock: if a writer is parked holding it,
                // the read stays blocked until that writer moves on
                let t = step[2].as_u64().map(Duration::from_millis).unwrap_or(Duration::from_millis(400));
                let ctl2 = ctl.clone();
                let n3 = name.clone();
                let r = tokio::task::spawn_blocking(move || ctl2.next(&n3, t)).await.unwrap();
                json!(r)
            }
            "run" => {
                let actor = step[1].as_str().unwrap();
                let point = step[2].as_str().unwrap();
                let ctl2 = ctl.clone();
                let (a, p) = (actor.to_string(), point.to_string());
                let t = step[3].as_u64().map(Duration::from_millis).unwrap_or(timeout);
                let r = tokio::task::spawn_blocking(move || ctl2.run_to(&a, &p, t, true)).await.unwrap();
                json!(r)
            }
            "next" => {
                let actor = step[1].as_str().unwrap().to_string();
                let t = step[2].as_u64().map(Duration::from_millis).unwrap_or(timeout);
                let ctl2 = ctl.clone();
                let r = tokio::task::spawn_blocking(move || ctl2.next(&actor, t)).await.unwrap();
                json!(r)
            }
            "poll" => {
                // a client that resumes with last-id = the last frame it saw
                let name = step[1].as_str().unwrap().to_string();
                let last = pollers.get(&name).and_then(|v: &Vec<Value>| v.last()).map(|f| id_from_hex(f["id"].as_str().unwrap()));
                let ctx = resolve_id(&step[2], &hist);
                let got: Vec<Value> = store.read_sync(last.as_ref(), None, ctx).map(|f| frame_json(&f)).collect();
                let n = got.len();
                pollers.entry(name).or_default().extend(got);
                json!({"polled": n})
            }
            "free" => {
                ctl.free(step[1].as_str());
                json!("ok")
            }
            "sleep" => {
                tokio::time::sleep(Duration::from_millis(step[1].as_u64().unwrap_or(10))).await;
                json!("ok")
            }
            "clock_after" => {
                // the wall clock jumps to `plus` ms after the id timestamp of history frame `idx`
                let idx = step[1].as_u64().unwrap_or(0) as usize;
                let plus = step[2].as_u64().unwrap_or(0);
                match hist.get(idx) {
                    Some(f) => {
                        let ts = (f.id.to_u128() >> 80) as u64;
                        {
                            // logged under the controller's lock: ordered against the sync-point arrivals
                            let mut st = ctl.m.lock().unwrap();
                            xs::verif::set_now_ms(ts + plus);
                            st.log.push(json!({"actor": "main", "point": "clock", "frame": null, "topic": null}));
                        }
                        json!("ok")
                    }
                    None => json!("no-such-frame"),
                }
            }
            "join" => {
                // wait until every writer thread started so far has made all its appends
                let deadline = Instant::now() + Duration::from_millis(step[1].as_u64().unwrap_or(10000));
                let mut all = false;
                while Instant::now() < deadline {
                    {
                        let st = ctl.m.lock().unwrap();
                        if started_writers.iter().all(|w| st.done.contains(w))
                            && main_results.lock().unwrap().len() >= main_started
                        {
                            all = true;
                        }
                    }
                    if all {
                        break;
                    }
                    tokio::time::sleep(Duration::from_millis(5)).await;
                }
                json!(if all { "ok" } else { "timeout" })
            }
            "append" => {
                let f = build_frame(&step[1], &hist);
                main_started += 1;
                let store2 = store.clone();
                let res2 = main_results.clone();
                let (dtx, drx) = tokio::sync::oneshot::channel::<()>();
                std::thread::spawn(move || {
                    ACTOR.with(|a| *a.borrow_mut() = Some("main".to_string()));
                    let v = match store2.append(f) {
                        Ok(f) => json!({"ok": frame_json(&f)}),
                        Err(e) => json!({"err": classify_err(&e.to_string())}),
                    };
                    res2.lock().unwrap().push(v);
                    let _ = dtx.send(());
                });
                // normally immediate; blocked while a parked writer holds the append lock
                match tokio::time::timeout(Duration::from_millis(300), drx).await {
                    Ok(_) => json!("done"),
                    Err(_) => json!("blocked"),
                }
            }
            "consume" => {
                let name = step[1].as_str().unwrap();
                let n = step[2].as_u64().unwrap_or(1);
                let wait = Duration::from_millis(step[3].as_u64().unwrap_or(1000));
                let mut got = 0;
                if let Some(rs) = readers.get_mut(name) {
                    if let Some(rx) = rs.rx.as_mut() {
                        for _ in 0..n {
                            match tokio::time::timeout(wait, rx.recv()).await {
                                Ok(Some(f)) => {
                                    rs.shared.lock().unwrap().0.push(frame_json(&f));
                                    got += 1;
                                }
                                Ok(None) => {
                                    rs.shared.lock().unwrap().1 = true;
                                    break;
                                }
                                Err(_) => break,
                            }
                        }
                    }
                }
                json!({"consumed": got})
            }
            _ => json!("unknown-step"),
        };
        step_results.push(res);
    }

    // finish: everything runs free; drain readers until quiet
    ctl.free(None);
    complete_read(&ctl, &mut pending_read, &mut readers, timeout).await;
    // every writer thread (and main-thread append) has finished before the readers are drained and the store is read
    let wdead = Instant::now() + Duration::from_millis(15000);
    while Instant::now() < wdead {
        let fin = {
            let st = ctl.m.lock().unwrap();
            started_writers.iter().all(|w| st.done.contains(w)) && main_results.lock().unwrap().len() >= main_started
        };
        if fin {
            break;
        }
        tokio::time::sleep(Duration::from_millis(5)).await;
    }
    let settle = Duration::from_millis(spec["settle_ms"].as_u64().unwrap_or(300));
    let hard = Instant::now() + Duration::from_millis(spec["drain_max_ms"].as_u64().unwrap_or(4000));
    for (_, rs) in readers.iter_mut() {
        if let Some(rx) = rs.rx.as_mut() {
            if rs.shared.lock().unwrap().1 {
                continue;
            }
            loop {
                if Instant::now() >= hard {
                    break;
                }
                match tokio::time::timeout(settle, rx.recv()).await {
                    Ok(Some(f)) => rs.shared.lock().unwrap().0.push(frame_json(&f)),
                    Ok(None) => {
                        rs.shared.lock().unwrap().1 = true;
                        break;
                    }
                    Err(_) => break,
                }
            }
        } else {
            // eager consumer: wait until its output has been quiet for `settle`
            let mut last = rs.shared.lock().unwrap().0.len();
            loop {
                tokio::time::sleep(settle).await;
                let (n, ended) = { let g = rs.shared.lock().unwrap(); (g.0.len(), g.1) };
                if ended || n == last || Instant::now() >= hard {
                    break;
                }
                last = n;
            }
        }
    }
    tokio::time::sleep(Duration::from_millis(20)).await;
    let final_read: Vec<Value> = store.read_sync(None, None, None).map(|f| frame_json(&f)).collect();
    let st = ctl.m.lock().unwrap();
    json!({
        "history": hist.iter().map(frame_json).collect::<Vec<_>>(),
        "steps": step_results,
        "writers": *writer_results.lock().unwrap(),
        "main_appends": *main_results.lock().unwrap(),
        "pollers": pollers,
        "readers": readers.iter().map(|(k, rs)| { let g = rs.shared.lock().unwrap(); (k.clone(), json!({"out": g.0, "ended": g.1})) }).collect::<serde_json::Map<_, _>>(),
        "log": st.log,
        "final": final_read,
    })
}
