use serde_json::{json, Value};
use xs::store::{Frame, TTL};

pub fn id_hex(id: &scru128::Scru128Id) -> String {
    format!("{:032x}", id.to_u128())
}

pub fn id_from_hex(s: &str) -> scru128::Scru128Id {
    scru128::Scru128Id::from(u128::from_str_radix(s, 16).expect("hex id"))
}

pub fn opt_id(v: &Value) -> Option<scru128::Scru128Id> {
    v.as_str().map(id_from_hex)
}

pub fn ttl_str(t: &TTL) -> String {
    serde_json::to_value(t).unwrap().as_str().unwrap().to_string()
}

/// canonical protocol rendering of a frame
pub fn frame_json(f: &Frame) -> Value {
    json!({
        "id": id_hex(&f.id),
        "ctx": id_hex(&f.context_id),
        "topic": hex::encode(f.topic.as_bytes()),
        "hash": f.hash.as_ref().map(|h| h.to_string()),
        "meta": f.meta.as_ref().map(|m| serde_json::to_string(m).unwrap()),
        "ttl": f.ttl.as_ref().map(ttl_str),
    })
}

/// build a frame from its protocol rendering (id optional)
pub fn frame_from_json(v: &Value) -> Result<Frame, String> {
    let topic_bytes = hex::decode(v["topic"].as_str().ok_or("topic")?).map_err(|e| e.to_string())?;
    let topic = String::from_utf8(topic_bytes).map_err(|e| e.to_string())?;
    let ctx = id_from_hex(v["ctx"].as_str().ok_or("ctx")?);
    let hash = match v["hash"].as_str() {
        Some(h) => Some(h.parse::<ssri::Integrity>().map_err(|e| e.to_string())?),
        None => None,
    };
    let meta = match v["meta"].as_str() {
        Some(m) => Some(serde_json::from_str::<Value>(m).map_err(|e| e.to_string())?),
        None => None,
    };
    let ttl = match v["ttl"].as_str() {
        Some(t) => Some(xs::store::parse_ttl(t)?),
        None => None,
    };
    let mut f = Frame::builder(topic, ctx)
        .maybe_hash(hash)
        .maybe_meta(meta)
        .maybe_ttl(ttl)
        .build();
    if let Some(id) = v["id"].as_str() {
        f.id = id_from_hex(id);
    }
    Ok(f)
}

pub fn classify_err(msg: &str) -> String {
    if msg.starts_with("xs.context frames must be in zero context") {
        "ctx-frame-not-zero".into()
    } else if msg.starts_with("Invalid context") {
        "invalid-context".into()
    } else if msg.starts_with("Topic cannot contain null byte") {
        "nul-in-topic".into()
    } else if msg.starts_with("Frame does not survive serialization") {
        "undecodable".into()
    } else {
        format!("other:{}", msg)
    }
}
