"""C14, the pulse markers of a handler's own subscription: a handler registered with `pulse: P` is invoked for a synthetic
`xs.pulse` frame every P ms - besides, not instead of, the frames of its context - and a handler without the option never
is.  Pulses are not stored, so the subscription is rebuilt from the handler's own stamps: every rule of these handlers
writes something, hence the order of the stamps is the order of the invocations; the stored frames among them must be
exactly the frames of the context after the subscription, once each, in id order; and the outputs must be what
`Handler.run` (Lean) produces over that sequence."""
import random

from . import servelayer as L

RULE_PULSE = {"topic": "xs.pulse", "appends": [{"topic": "beat", "meta_nu": None, "meta": None, "ttl": None, "ctx_ref": None, "content": None}],
              "ret_nu": None, "ret": None, "fail": False, "fail_at": 0, "slow_ms": 0}
RULE_PING = {"topic": "ping", "appends": [], "ret_nu": '"pong"', "ret": '"pong"', "fail": False, "fail_at": 0, "slow_ms": 0}


def scenario(seed):
    r = random.Random(seed)
    pulse = r.choice([40, 60, 90])
    nctx = r.choice([0, 1, 1])
    ctx = r.randint(0, nctx)
    mk = lambda p: {"rules": [dict(RULE_PULSE), dict(RULE_PING)], "resume": "tail", "env0": 0, "suffix": None, "ttl": None, "pulse": p}
    steps = [{"k": "serve"},
             {"k": "register", "name": "p", "ctx": ctx, "spec": mk(pulse)},
             {"k": "register", "name": "q", "ctx": ctx, "spec": mk(None)},
             {"k": "sleep", "ms": pulse * r.randint(6, 9)}]
    for _ in range(r.randint(1, 3)):
        steps.append({"k": "append", "topic": "ping", "ctx": r.choice([ctx, ctx, 0]), "meta": None, "content": None, "ttl": None})
        steps.append({"k": "sleep", "ms": pulse * r.randint(1, 3)})
    # the instance is stopped before the run is closed: no marker reaches a stopped instance (and the stream falls silent)
    steps.append({"k": "unregister", "name": "p", "ctx": ctx})
    steps.append({"k": "sleep", "ms": pulse * 3})
    steps.append({"k": "settle"})
    return {"name": "pulse-%d" % seed, "nctx": nctx, "steps": steps, "pulse": pulse, "ctx": ctx}


def analyse(sc, res, drv):
    if res.get("crash") is not None:
        return [{"why": "worker died", "detail": res["crash"][-300:]}]
    fnd = []
    tap = res["epochs"][-1]["tap"]
    ids = res["step_ids"]
    regs = {st["name"]: ids.get(i) for i, st in enumerate(sc["steps"]) if st["k"] == "register"}
    ctx_hex = res["ctxs"][sc["ctx"]]
    stored_ids = {f["id"] for f in tap}
    for name in ("p", "q"):
        hid = regs.get(name)
        if hid is None:
            fnd.append({"why": "registration of %s was refused" % name}); continue
        h36 = L.hex_to_b36(hid)
        pos = next((j for j, f in enumerate(tap) if L.unhx(f["topic"]) == name + ".registered" and (L.meta_of(f) or {}).get("handler_id") == h36), None)
        if pos is None:
            fnd.append({"why": "%s.registered never appeared" % name}); continue
        outs = [f for f in tap[pos + 1:] if (L.meta_of(f) or {}).get("handler_id") == h36]
        # order of invocations = order of first appearance of each stamp
        trig = []
        for f in outs:
            t = (L.meta_of(f) or {}).get("frame_id")
            if t not in trig:
                trig.append(t)
        trig_hex = [L.b36_to_hex(t) if L.is_id_text(t) else None for t in trig]
        pulses = [t for t in trig_hex if t not in stored_ids]
        beats = [f for f in outs if L.unhx(f["topic"]) == "beat"]
        if name == "q":
            if pulses or beats:
                fnd.append({"why": "a handler registered without `pulse` was invoked for a marker", "n": len(pulses)})
            continue
        # p: pulses arrive, about one per period
        t_reg = int(tap[pos]["id"], 16) >> 80
        t_end = int(tap[-1]["id"], 16) >> 80
        periods = max(0, (t_end - t_reg) // sc["pulse"])
        if len(pulses) < 2 or len(pulses) > periods + 3:
            fnd.append({"why": "pulse markers: %d over %d ms with pulse=%d" % (len(pulses), t_end - t_reg, sc["pulse"])})
        if any(t is None for t in trig_hex) or len(set(pulses)) != len(pulses) or [int(x, 16) for x in pulses] != sorted(int(x, 16) for x in pulses):
            fnd.append({"why": "pulse markers not distinct / not in increasing id order"})
        # the stored frames it was invoked for: every frame of its context after the subscription that a rule answers, once, in order
        stop = next((j for j, f in enumerate(tap) if f["ctx"] == ctx_hex and L.unhx(f["topic"]) == "p.unregister"), len(tap))
        want_stored = [f["id"] for f in tap[pos + 1:stop + 1] if f["ctx"] == ctx_hex and L.unhx(f["topic"]) in ("ping", "xs.barrier", "p.unregister")]
        got_stored = [t for t in trig_hex if t in stored_ids]
        if got_stored != want_stored:
            fnd.append({"why": "stored frames the handler was invoked for differ from the frames of its context after it subscribed",
                        "want": [x[-6:] for x in want_stored], "got": [x[-6:] for x in got_stored]})
            continue
        # Handler.run over the rebuilt subscription
        by_id = {f["id"]: f for f in tap}
        sub = [L.sframe(by_id[t]) if t in by_id else {"topic": "xs.pulse", "ctx": ctx_hex, "id": t, "meta": None, "ttl": "ephemeral", "content": None}
               for t in trig_hex]
        st = next(s for s in sc["steps"] if s["k"] == "register" and s["name"] == name)
        reg_frame = next(f for f in tap if f["id"] == hid)
        q = {"q": "handler", "cfg": L.handler_cfg(st, reg_frame), "rules": L.model_rules(st["spec"], res["ctxs"]), "env0": 0,
             "resume": "tail", "hist": [], "live": sub}
        m = drv.ask(q)
        known = {int(x, 16) for x in stored_ids} | {int(x, 16) for x in pulses}
        want_o = [L.canon_out(o, known) for o in m["outs"]]
        actual = [L.canon_out(L.sframe(f), known) for f in outs]
        if want_o != actual:
            fnd.append({"why": "outputs differ from Handler.run over the rebuilt subscription (stored frames and pulse markers)",
                        "model": [[x[0], x[2]] for x in want_o][:10], "impl": [[x[0], x[2]] for x in actual][:10]})
    return fnd
