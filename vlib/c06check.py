"""C06: store access paths (storecheck) + front-end paths (httpcheck, incl. head --follow and
GET /?follow streams held open across appends in two contexts)."""
import json, os
from . import common as C
from . import storecheck, httpcheck, servecheck


def run(prop, tier, seed, replay=None):
    if replay:
        layer = json.load(open(replay)).get("layer")
        return (httpcheck if layer == "http" else servecheck if layer == "serve" else storecheck).run(prop, tier, seed, replay)
    rc1 = storecheck.run(prop, tier, seed)
    p = os.path.join(C.VERIF, "evidence", prop + ".json")
    ev1 = json.load(open(p))
    rc2 = httpcheck.run(prop, tier, seed)
    ev2 = json.load(open(p))
    cov = ev1["coverage"]
    c2 = ev2["coverage"]
    cov["traces_validated_against_impl"] += c2["traces_validated_against_impl"]
    cov["evaluations"] += c2["evaluations"]
    cov["distinct_nontrivial"] += c2["distinct_nontrivial"]
    cov["rule"] += " || front end: " + c2["rule"]
    cov["http"] = {k: c2[k] for k in ("route_histogram", "status_histogram", "samples", "disagreements_checked")}
    ev1["wall_s"] = round(ev1["wall_s"] + ev2["wall_s"], 2)
    ev1["violations"] = ev1.get("violations", 0) + ev2.get("violations", 0)
    rc3 = servecheck.run(prop, tier, seed)
    ev3 = json.load(open(p))
    c3 = ev3["coverage"]
    cov["traces_validated_against_impl"] += c3["traces_validated_against_impl"]
    cov["evaluations"] += c3["evaluations"]
    cov["distinct_nontrivial"] += c3["distinct_nontrivial"]
    cov["rule"] += " || serve loops (handlers, generators, commands in several contexts): " + c3["rule"]
    cov["serve"] = {k: c3[k] for k in ("step_histogram", "findings_checked")}
    ev1["wall_s"] = round(ev1["wall_s"] + ev3["wall_s"], 2)
    ev1["violations"] = ev1.get("violations", 0) + ev3.get("violations", 0)
    json.dump(ev1, open(p, "w"), indent=1, sort_keys=True)
    return 1 if (rc1 or rc2 or rc3) else 0
