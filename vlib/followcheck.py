"""Checks of the append/follow protocol properties C02, C03, C11."""
import collections, glob, json, os, time

from . import common as C
from . import followlayer as F

PROPS = ("C02", "C03", "C11")


def relevant(item):
    if "prop" in item:
        return {item["prop"]}
    k = item["kind"]
    if k == "crash":
        return set(PROPS)
    if k == "not-enabled":
        if item["act"].startswith("append") or item["act"] == "subscribe":
            return {"C02", "C03"}
        return {"C03", "C11"}
    if k == "committed":
        return {"C02"}
    if k in ("frame-mismatch", "deliveries", "reader-presence"):
        return {"C03", "C11"}
    if k == "stream-end":
        return {"C11"}
    return set()


def observable(item):
    return "prop" in item or item["kind"] in ("crash", "deliveries", "stream-end", "committed")


def signature_of(spec, item):
    sig = {"layer": "follow", "case": spec["name"] if spec["name"].startswith("corpus-") else "generated"}
    if "prop" in item:
        sig.update({"kind": "oracle", "why": item["why"]})
    else:
        sig.update({"kind": item["kind"], "act": item.get("act")})
    return sig


def load_corpus(prop):
    out = []
    for p in sorted(glob.glob(os.path.join(C.VERIF, "corpus", "follow", "*.json"))):
        c = json.load(open(p))
        if prop in c.get("props", [prop]):
            c["name"] = "corpus-" + os.path.basename(p)[:-5]
            out.append(c)
    return out


def nontrivial(r):
    """the reader was started while at least one append was still to come, or history and live
    both contributed deliveries"""
    res = r["res"]
    if "log" not in res:
        return False
    log = res["log"]
    sub = next((k for k, e in enumerate(log) if e["point"] in ("read.subscribed",) and e["actor"] == "r1"), None)
    if sub is None:
        sub = next((k for k, e in enumerate(log) if e["point"] == "read.start" and e["actor"] == "r1"), None)
    if sub is None:
        return False
    later = any(e["point"] == "append.broadcast" for e in log[sub:])
    return later and len(res.get("history", [])) + len(res.get("main_appends", [])) > 0


def run(prop, tier, seed, replay=None):
    t_start = time.time()
    ok, out, dt = C.build_harness()
    if not ok:
        print("harness build against /repo failed:\n" + out[-3000:])
        return 2
    aud = C.audit(prop)
    theorem_broken = [f["theorem"] for f in aud["failures"]]
    if replay:
        specs = [json.load(open(replay))["case"]]
    else:
        specs = load_corpus(prop)
        n = 160 if tier == "quick" else 1500
        for k in range(n):
            specs.append(F.gen_scenario(seed * 7919 + k))
        specs += [F.gen_scenario(seed * 31 + k, "long") for k in range(2 if tier == "quick" else 12)]
        if prop in ("C11", "C03"):
            specs += [F.lag_scenario(seed, "replay"), F.lag_scenario(seed + 1, "live")]
            specs += [F.slow_reader_scenario(seed * 13 + k) for k in range(4 if tier == "quick" else 24)]
        if prop in ("C02", "C03"):
            specs += [F.stress_scenario(seed + k, writers=8, per=100 if tier == "quick" else 400) for k in range(1 if tier == "quick" else 4)]
    results = F.run_all(specs)

    violations, known_hit, internal = [], [], []
    steps_hist = collections.Counter()
    distinct, n_nontrivial = set(), 0
    for r in results:
        for e in r["res"].get("log", []):
            steps_hist[e["point"]] += 1
        key = json.dumps([(e["actor"], e["point"]) for e in r["res"].get("log", [])][:200]) + json.dumps(r["spec"]["readers"])
        if nontrivial(r) and key not in distinct:
            distinct.add(key); n_nontrivial += 1
        for it in r["fails"] + r["diffs"]:
            if prop not in relevant(it):
                continue
            kf = C.finding_for(prop, signature_of(r["spec"], it))
            if kf:
                known_hit.append(kf)
            elif observable(it):
                violations.append((r, it))
            else:
                internal.append((r, it))

    # An observation of real threads is not repeatable by itself. A scenario that shows a finding is run again, as it is
    # (same schedule script): a finding that comes from the code shows again - every seeded change did, on every run -, one
    # that does not show in two further runs is recorded as unconfirmed and is no alarm (vp check 11: one such, not seen
    # again in some twenty runs of the whole scenario set).
    unconfirmed = []

    def confirm(cands):
        # two scenarios of one run that show a finding independently confirm each other (a change in the code that shows
        # only under a race shows in several of them; a one-off does not happen twice in a run)
        if len({r["spec"]["name"] for r, _ in cands}) >= 2:
            return cands
        kept = []
        seen = set()
        for r, it in cands:
            if r["spec"]["name"] in seen:
                continue
            seen.add(r["spec"]["name"])
            if len(seen) > 4 and kept:
                break
            again = []
            for _ in range(4):
                rr = F.run_all([r["spec"]], jobs=1)[0]
                again = [x for x in rr["fails"] + rr["diffs"] if prop in relevant(x)]
                if again:
                    break
            if again:
                kept.append((r, it))
            else:
                unconfirmed.append({"scenario": r["spec"]["name"], "finding": {k: v for k, v in it.items() if k in ("prop", "why", "kind", "act")}})
        return kept
    if not replay:
        violations = confirm(violations)
        internal = confirm(internal) if not violations else internal

    rc, lines, replay_path = 0, [], None
    for kf in {k["id"]: k for k in known_hit}.values():
        lines.append(f"KNOWN-FINDING: property={prop} {kf['what']}")

    def payload(r, items, broken, note=None):
        res = r["res"]
        p = {"property": prop, "tier": tier, "seed": seed, "layer": "follow", "case": r["spec"],
             "impl": {"steps": res.get("steps"), "log": res.get("log"), "readers": res.get("readers"),
                      "final": [f["id"] for f in res.get("final", [])], "crash": res.get("crash")},
             "findings": items[:6], "broken": broken}
        if note:
            p["note"] = note
        return p

    if violations:
        r, it = violations[0]
        its = [x for x in r["fails"] + r["diffs"] if prop in relevant(x)]
        replay_path = C.write_replay(prop, payload(r, its, ("theorem:" + theorem_broken[0]) if theorem_broken else None))
        lines.append(f"VIOLATION property={prop} replay={replay_path}")
        rc = 1
    elif internal or theorem_broken:
        if internal:
            r, it = internal[0]
            its = [x for x in r["diffs"] if prop in relevant(x)]
            pl = payload(r, its, "correspondence:follow/%s %s" % (it["kind"], it.get("act", "")),
                         "the implementation's execution is not an execution of the Lean LTS; no input was found on which the property itself fails")
        else:
            pl = {"property": prop, "case": None, "broken": "theorem:" + theorem_broken[0], "findings": aud["failures"][:3],
                  "note": "a theorem of this property no longer checks; no failing input found"}
        replay_path = C.write_replay(prop, pl)
        lines.append(f"VIOLATION property={prop} replay={replay_path} no-failing-input-found")
        rc = 1

    samples = [{"name": r["spec"]["name"], "reader": r["spec"]["readers"].get("r1"), "steps": r["spec"]["steps"][:10],
                "n_steps": len(r["spec"]["steps"])} for r in results[:3]]
    cov = {
        "obligations": aud["obligations"], "discharged": aud["discharged"],
        "checker_cmd": f"cd /verif/lean && lake build {aud['module']} && lake env lean .lake/audit_{prop}.lean  # #print axioms of every listed theorem",
        "trusted_base": C.TRUSTED_BASE + [
            "tokio broadcast: FIFO per receiver, capacity 1024, a receiver more than capacity behind errors on its next recv; mpsc: FIFO",
            "scru128::new(): process-wide strictly increasing (checked on every trace)",
            "std::sync::Mutex gives mutual exclusion (the append lock)"],
        "theorems": aud["theorems"], "axioms": aud["axioms"], "theorem_failures": aud["failures"],
        "traces_validated_against_impl": sum(1 for r in results if "log" in r["res"] and not r["spec"].get("free_run")),
        "evaluations": len(results), "distinct_nontrivial": n_nontrivial,
        "rule": "random schedules (seeded): 1-3 writer threads, main-thread appends, one reader with random options, stepped one "
                "sync point at a time by the controller; the observed global order of sync-point arrivals is replayed as LTS actions "
                "on the Lean model (every action must be enabled, handle the frame the model expects, and final deliveries / stream end / "
                "stored frames must agree) and the C02/C03/C11 statements are evaluated on the observed execution; plus slow-consumer lag "
                "runs (>1024 frames behind, during replay and afterwards), long histories (>100-slot buffer) and a hook-free 8-writer stress; "
                "non-trivial = at least one append was broadcast after the reader subscribed; distinct by (arrival sequence, reader options)",
        "samples": samples, "sync_point_histogram": dict(steps_hist),
        "disagreements_checked": sum(len(r["diffs"]) for r in results),
        "oracle_failures": sum(len(r["fails"]) for r in results),
        "known_findings_hit": [k["id"] for k in known_hit],
        "unconfirmed_findings": unconfirmed,
        "harness_build_s": round(dt, 1), "lake_s": aud.get("lake_s"),
    }
    if tier == "thorough":
        okc, outc = C.leanchecker(aud["module"])
        cov["leanchecker"] = "ok" if okc else outc
    C.write_evidence(prop, tier, seed, cov, time.time() - t_start, len(violations),
                     ["the order in which threads arrive at the sync points is a linearisation of the execution at the granularity of the LTS",
                      "a released thread reaches its next sync point within the step timeout"])
    for l in lines:
        print(l)
    print(f"{prop}: {'FAIL' if rc else 'ok'}  theorems {aud['discharged']}/{aud['obligations']}  scenarios {len(results)}  "
          f"nontrivial {n_nontrivial}  {time.time() - t_start:.1f}s")
    return rc
