"""Explicit removals racing the head:N collector (C08 / C09).

A topic holds many frames. One thread removes old frames of it explicitly, oldest first (what `DELETE /<id>` and
`.remove` do), while another appends a `head:K` frame to the topic, which sends the collector over it. Whatever the
interleaving, every old frame is gone at the end (removed by one or the other) and the K newest frames of the topic -
never removed explicitly, never outside the K newest - are still there, as is a bystander in a prefix-related topic.
The final state and the final read are compared with the Lean model run over the sequential history
appends; head:K append; collector; removals - the outcome does not depend on where the removals fall."""
import hashlib, json, os, random, shutil, threading, time

from . import common as C
from . import storelayer as S

ZERO = "0" * 32


def scenario(seed, tier="quick"):
    rng = random.Random(seed)
    n_old = rng.choice([600, 1200, 2000] if tier == "quick" else [1500, 3000, 6000])
    keep = rng.choice([1, 2, 2, 3])
    return {"name": f"gcrace-{seed}", "seed": seed, "old": n_old, "keep": keep, "topic": rng.choice(["log", "a.b", "t"]),
            "delay_frac": rng.choice([0.02, 0.1, 0.25, 0.5]), "rounds": 2 if tier == "quick" else 3}


def _frame(topic, ttl=None):
    return {"topic": S.hx(topic), "ctx": ZERO, "ttl": ttl, "meta": None, "hash": None}


def run_round(sp, rnd):
    """-> (model trace, impl final read, impl final dump, stats)"""
    d = os.path.join(S.SCRATCH, "gcrace-%d-%s-%s" % (os.getpid(), threading.get_ident(), hashlib.sha1(sp["name"].encode()).hexdigest()[:8]))
    shutil.rmtree(d, ignore_errors=True)
    os.makedirs(d)
    t0 = int(time.time() * 1000)
    w = S.Worker()
    trace = []
    try:
        w.call({"op": "open", "dir": d, "now": t0, "gated": False})
        trace.append({"op": {"op": "open", "now": t0}, "obs": {"ok": None}, "quiet": True})
        topic = sp["topic"]
        setup = [dict(_frame(topic)) for _ in range(sp["old"] + sp["keep"] - 1)] + [_frame(topic + ".other")]
        t_a = time.time()
        res = w.call({"op": "burst", "writers": [setup]}, timeout=120)["ok"][0]
        t_append = time.time() - t_a
        for fr, ob in zip(setup, res):
            trace.append({"op": dict(fr, op="append"), "obs": {"ok": ob}, "quiet": True})
        old = [f["id"] for f in res[: sp["old"]]]
        # how long the removals take, roughly: same order as the appends
        delay_us = int(sp["delay_frac"] * t_append * 1e6 * (0.6 + 0.2 * rnd))
        head = _frame(topic, "head:%d" % sp["keep"])
        out = w.call({"op": "par", "threads": [
            {"ops": [{"op": "remove", "id": i} for i in old]},
            {"delay_us": delay_us, "ops": [dict(head, op="append")]}]}, timeout=120)["ok"]
        head_obs = out[1][0]
        w.call({"op": "drain"}, timeout=60)
        trace.append({"op": dict(head, op="append"), "obs": head_obs, "quiet": True})
        trace.append({"op": {"op": "drain"}, "obs": {"ok": None}, "quiet": True})
        for i in old:
            trace.append({"op": {"op": "remove", "id": i}, "obs": {"ok": None}, "quiet": True})
        rd = {"op": "read_sync", "last": None, "limit": None, "ctx": ZERO}
        got = w.call(rd)
        dump = w.call({"op": "dump"}).get("ok")
        trace.append({"op": rd, "obs": got})
        stats = {"old": sp["old"], "keep": sp["keep"], "delay_us": delay_us, "append_s": round(t_append, 3),
                 "remove_errs": sum(1 for o in out[0] if "err" in o)}
        return trace, got, dump, stats
    finally:
        w.close()
        shutil.rmtree(d, ignore_errors=True)


def run_scenario(sp):
    """-> list of findings (each with the round's numbers)"""
    fails = []
    stats_all = []
    for rnd in range(sp["rounds"]):
        try:
            trace, got, dump, stats = run_round(sp, rnd)
        except S.WorkerDied as e:
            fails.append({"round": rnd, "why": "worker died", "detail": str(e)[-300:]})
            break
        stats_all.append(stats)
        model = S.run_model([(sp["name"], trace)])[sp["name"]]
        last = model[-1]
        m_read = S.canon_obs(last["model"])
        i_read = S.canon_obs(got)
        m_post, i_post = S.canon_dump(last.get("post")), S.canon_dump(dump)
        if m_read != i_read:
            mi = {f["id"] for f in (m_read.get("ok") or [])}
            ii = {f["id"] for f in (i_read.get("ok") or [])}
            fails.append({"round": rnd, "why": "after explicit removals raced the head:%d collector the context reads differently from the model" % sp["keep"],
                          "missing_in_impl": sorted(mi - ii)[:5], "extra_in_impl": sorted(ii - mi)[:5], "stats": stats,
                          "model_read": m_read, "impl_read": i_read})
            break
        if m_post is not None and i_post is not None and m_post != i_post:
            comps = [c for c in ("stream", "idx_topic", "idx_context", "contexts") if m_post[c] != i_post[c]]
            fails.append({"round": rnd, "why": "final stored state differs from the model", "comps": comps, "stats": stats})
            break
    return fails, stats_all
