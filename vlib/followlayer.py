"""Layer B (append / follow protocol): schedule generator, executor on the real crate
through the sync-point controller, translation of the observed execution into LTS actions
for the Lean model, comparison and trace oracles for C02 / C03 / C11."""
import json, os, random, shutil, subprocess, threading, hashlib
from concurrent.futures import ThreadPoolExecutor

from .common import XSW, XSDRV, SCRATCH

ZERO = "0" * 32


def hx(s):
    return s.encode().hex()


def topic_of(f):
    return bytes.fromhex(f["topic"]).decode("utf-8", "replace")


# ---------------------------------------------------------------------------
# scenarios
# ---------------------------------------------------------------------------

def gen_scenario(seed, profile="mixed"):
    r = random.Random(seed)
    use_ctx = r.random() < 0.5
    history = []
    if use_ctx:
        history.append({"topic": hx("xs.context"), "ctx": ZERO})
    nh = r.choice([0, 0, 1, 2, 3, 5]) if profile != "long" else r.choice([101, 130])
    for i in range(nh):
        ctx = "@0" if use_ctx and r.random() < 0.5 else ZERO
        history.append({"topic": hx(r.choice(["h", "t", "u"])), "ctx": ctx})
    nhist = len(history)

    def new_frame(tag):
        ctx = "@0" if use_ctx and r.random() < 0.4 else ZERO
        ttl = r.choice([None, None, None, "ephemeral", "ephemeral"])
        return {"topic": hx(r.choice(["t", "u", tag])), "ctx": ctx, "ttl": ttl}

    writers = {}
    for w in range(r.choice([1, 2, 2, 3])):
        writers["w%d" % (w + 1)] = [new_frame("w%d" % (w + 1)) for _ in range(r.choice([1, 1, 2, 3]))]

    follow = r.choice(["on", "on", "on", "off", 15])
    tail = r.random() < 0.25
    limit = r.choice([None, None, None, 1, 2, 3, max(1, nhist), nhist + 1, nhist + 2])
    last = ("@%d" % r.randrange(nhist)) if nhist and r.random() < 0.3 else None
    ctx = r.choice([None, None, ZERO, "@0"]) if use_ctx else r.choice([None, ZERO])
    reader = {"follow": follow, "tail": tail, "last": last, "limit": limit, "ctx": ctx, "consume": "eager"}

    # steps: a random interleaving of single steps of the actors
    steps = []
    pending = ["start_reader"] + ["start_writer:" + w for w in writers]
    r.shuffle(pending)
    started_w, reader_started = [], False
    budget = r.randint(6, 40)
    extra_main = r.randint(0, 3)
    while budget > 0:
        budget -= 1
        choices = []
        if pending:
            choices += ["start"] * 3
        if started_w:
            choices += ["w"] * 4
        if reader_started:
            choices += ["r"] * 4
        if extra_main:
            choices += ["m"]
        choices += ["poll"]
        c = r.choice(choices)
        if c == "start":
            p = pending.pop()
            if p == "start_reader":
                steps.append(["start_reader", "r1"]); reader_started = True
            else:
                w = p.split(":")[1]
                steps.append(["start_writer", w]); started_w.append(w)
        elif c == "w":
            steps.append(["next", r.choice(started_w), 400])
        elif c == "r":
            steps.append(["next", "r1", 120])
        elif c == "m":
            extra_main -= 1
            steps.append(["append", new_frame("m")])
        else:
            steps.append(["poll", "p1", None])
    for p in pending:
        if p == "start_reader":
            steps.append(["start_reader", "r1"])
        else:
            steps.append(["start_writer", p.split(":")[1]])
    steps.append(["free", None])
    steps.append(["join", 15000])      # every writer has made all its appends: the last poll comes after quiescence
    steps.append(["sleep", 20])
    steps.append(["poll", "p1", None])
    return {"name": "sched-%s-%d" % (profile, seed), "history": history, "writers": writers,
            "readers": {"r1": reader}, "steps": steps, "settle_ms": 150 if follow != 15 else 250,
            "step_timeout_ms": 3000, "drain_max_ms": 3000}


def lag_scenario(seed, when):
    """a follower that does not consume while more than the 1024-slot broadcast buffer is
    appended - during replay (`when` = "replay") or afterwards ("live")"""
    r = random.Random(seed)
    history = [{"topic": hx("h"), "ctx": ZERO} for _ in range(3)]
    hb = r.choice(["on", 20])
    reader = {"follow": hb, "tail": False, "last": None, "limit": None, "ctx": None, "consume": "manual"}
    steps = [["start_reader", "r1"]]
    if when == "replay":
        steps.append(["run", "r1", "hist.send"])       # parked before the first historical frame
    else:
        steps += [["free", "r1"], ["sleep", 80]]
    n = 1024 + 100 + r.randint(2, 30)
    for i in range(n):
        steps.append(["append", {"topic": hx("x"), "ctx": ZERO, "ttl": "ephemeral"}])
    steps += [["free", None], ["sleep", 100]]
    steps += [["append", {"topic": hx("late"), "ctx": ZERO}] for _ in range(3)]
    return {"name": "lag-%s-%d" % (when, seed), "history": history, "writers": {}, "readers": {"r1": reader},
            "steps": steps, "settle_ms": 300, "step_timeout_ms": 4000, "drain_max_ms": 8000}


def slow_reader_scenario(seed):
    """a follower that does not consume while its historical replay runs: the scan fills the reader's 100-slot buffer and has
    to wait there - with exactly 100 frames of history it is the threshold marker that finds the buffer full. Whatever the
    reader's pace: the whole history, then exactly one marker, then what was appended meanwhile"""
    r = random.Random(seed)
    n = r.choice([100, 100, 99, 101, 130])
    history = [{"topic": hx("h"), "ctx": ZERO} for _ in range(n)]
    reader = {"follow": r.choice(["on", "on", 25]), "tail": False, "last": None, "limit": None, "ctx": r.choice([None, ZERO]), "consume": "manual"}
    steps = [["start_reader", "r1"], ["free", None], ["sleep", 200]]
    steps += [["append", {"topic": hx("live"), "ctx": ZERO, "ttl": r.choice([None, "ephemeral"])}] for _ in range(r.randint(1, 3))]
    steps += [["sleep", 100]]
    return {"name": "slow-reader-%d" % seed, "history": history, "writers": {}, "readers": {"r1": reader},
            "steps": steps, "settle_ms": 300, "step_timeout_ms": 4000, "drain_max_ms": 8000}


def expiry_scan_scenario(seed):
    """C09, streaming read path: the clock passes a `time:N` frame's expiry while the history scan is under way (the
    reader is parked before its first delivery). Frames the scan reaches afterwards are judged by the clock as it is then."""
    r = random.Random(seed)
    n_ms = r.choice([1500, 60000, 3600000])
    k = r.randint(1, 3)                       # position of the first expiring frame: never the parked one
    history = []
    for i in range(k + r.randint(1, 4)):
        ttl = ("time:%d" % n_ms) if (i == k or (i > k and r.random() < 0.3)) else r.choice([None, "forever"])
        history.append({"topic": hx("h"), "ctx": ZERO, "ttl": ttl})
    reader = {"follow": r.choice(["off", "on"]), "tail": False, "last": None, "limit": None, "ctx": None, "consume": "eager"}
    steps = [["start_reader", "r1"], ["run", "r1", "hist.send"], ["clock_after", len(history) - 1, n_ms + r.choice([0, 1, 500])],
             ["free", None], ["join", 5000], ["sleep", 150]]
    return {"name": "expiry-scan-%d" % seed, "history": history, "writers": {}, "readers": {"r1": reader}, "steps": steps,
            "settle_ms": 200, "step_timeout_ms": 3000, "drain_max_ms": 3000, "expiry_scan": True}


def expiry_scan_oracle(spec, res):
    """a `time:N` frame is never returned by a stream read once N ms have passed since its id timestamp"""
    if "readers" not in res:
        return [{"prop": "C09", "why": "worker crashed", "detail": res.get("crash")}]
    hist = res["history"]
    out = res["readers"]["r1"]["out"]
    got = [f["id"] for f in out if topic_of(f) not in ("xs.threshold", "xs.pulse")]
    # where was the scan when the clock moved? every sync-point arrival parks the reader until it is released, and the
    # clock entry is logged under the same lock: the last hist.send before it names the frame the scan was holding
    log = res.get("log", [])
    ic = next((k for k, e in enumerate(log) if e["point"] == "clock"), len(log))
    held = [e["frame"] for e in log[:ic] if e["actor"] == "r1" and e["point"] == "hist.send"]
    ids = [f["id"] for f in hist]
    upto = ids.index(held[-1]) if held and held[-1] in ids else -1
    want = []
    for i, (h, f) in enumerate(zip(spec["history"], hist)):
        if i <= upto or not (h.get("ttl") or "").startswith("time:"):
            want.append(f["id"])      # examined before the clock moved; frames that do not expire: always
    fails = []
    if got != want:
        late = [i for i in got if i not in want]
        fails.append({"prop": "C09", "why": "a time:N frame was returned by a stream read after its time had passed" if late
                      else "the stream read lost a frame that had not expired", "got": got, "want": want})
    return fails


def stress_scenario(seed, writers=8, per=120):
    """hook-free second detector: many concurrent appenders against a poller and a follower"""
    ws = {"w%d" % i: [{"topic": hx("s%d" % i), "ctx": ZERO} for _ in range(per)] for i in range(writers)}
    steps = [["free", None], ["start_reader", "r1"]] + [["start_writer", w] for w in ws]
    for _ in range(60):
        steps += [["poll", "p1", None], ["sleep", 3]]
    steps += [["join", 30000], ["sleep", 50], ["poll", "p1", None]]
    return {"name": "stress-%d" % seed, "history": [], "writers": ws,
            "readers": {"r1": {"follow": "on", "tail": False, "last": None, "limit": None, "ctx": None, "consume": "eager"}},
            "steps": steps, "settle_ms": 400, "step_timeout_ms": 5000, "drain_max_ms": 15000, "free_run": True}


# ---------------------------------------------------------------------------
# execution
# ---------------------------------------------------------------------------

def run_impl(spec):
    d = os.path.join(SCRATCH, "f%d-%s-%s" % (os.getpid(), threading.get_ident(), hashlib.sha1(spec["name"].encode()).hexdigest()[:8]))
    shutil.rmtree(d, ignore_errors=True)
    os.makedirs(d)
    sp = dict(spec, dir=d)
    try:
        p = subprocess.run([XSW, "sched"], input=json.dumps(sp), stdout=subprocess.PIPE, stderr=subprocess.PIPE,
                           text=True, timeout=120)
        if p.returncode != 0 or not p.stdout.strip():
            return {"crash": (p.stderr or "")[-1500:]}
        return json.loads(p.stdout.strip().splitlines()[-1])
    except subprocess.TimeoutExpired:
        return {"crash": "timeout"}
    finally:
        shutil.rmtree(d, ignore_errors=True)


def resolve(v, hist):
    if isinstance(v, str) and v.startswith("@"):
        return hist[int(v[1:])]["id"]
    return v


def to_acts(spec, res):
    """translate the observed execution (global order of sync-point arrivals) into LTS actions"""
    hist = res["history"]
    frames = {f["id"]: f for f in hist}
    for w, rs in res["writers"].items():
        for x in rs:
            if "ok" in x:
                frames[x["ok"]["id"]] = x["ok"]
    for x in res["main_appends"]:
        if "ok" in x:
            frames[x["ok"]["id"]] = x["ok"]
    o = spec["readers"]["r1"]
    opts = {"follow": o["follow"], "tail": o["tail"], "limit": o["limit"],
            "last": resolve(o["last"], hist), "ctx": resolve(o["ctx"], hist)}
    acts = []
    log = res["log"]
    # the append currently holding the lock: (frame id, committed?, broadcast emitted?)
    cur = {"id": None, "committed": False, "bcast": False}

    def emit_broadcast(k):
        f = frames.get(cur["id"])
        if f is not None and f.get("ttl") != "ephemeral" and not cur["committed"]:
            acts.append({"act": "appendCommit", "log": k}); cur["committed"] = True
        acts.append({"act": "appendBroadcast", "log": k}); cur["bcast"] = True

    last_r = None
    for k, e in enumerate(log):
        pt, actor, fid = e["point"], e["actor"], e.get("frame")
        if actor == "r1" and pt not in ("hist.end", "hist.stop") and acts:
            pass
        if pt == "append.id":
            f = frames.get(fid)
            if f is None:
                # rejected append: it took the lock and an id, then failed
                f = {"id": fid, "ctx": ZERO, "topic": e.get("topic") and hx(e["topic"]) or "", "hash": None, "meta": None, "ttl": None}
                acts.append({"act": "appendId", "frame": f, "log": k})
                acts.append({"act": "appendAbort", "log": k})
                cur.update(id=None, committed=False, bcast=True)
            else:
                acts.append({"act": "appendId", "frame": f, "log": k})
                cur.update(id=fid, committed=False, bcast=False)
        elif pt == "append.commit":
            if not cur["committed"]:
                acts.append({"act": "appendCommit", "log": k}); cur["committed"] = True
        elif pt == "append.broadcast":
            # the point is reached after the send; a fast subscriber may already have logged
            # its live.recv of this frame, in which case the broadcast was emitted there
            if not cur["bcast"]:
                emit_broadcast(k)
        elif pt == ("read.subscribed" if o["follow"] != "off" else "read.start"):
            acts.append({"act": "subscribe", "opts": opts, "log": k})
        elif pt == "hist.send":
            acts.append({"act": "histSend", "frame": fid, "log": k})
        elif pt in ("hist.end", "hist.stop"):
            if o["follow"] == "off":
                # no cut: the live iterator saw its end some time after the reader's previous
                # step; appends logged in between came after that observation
                pos = max([i for i, a in enumerate(acts) if a["act"] in ("subscribe", "histSend")] or [len(acts) - 1])
                acts.insert(pos + 1, {"act": "histEnd", "log": k})
            else:
                acts.append({"act": "histEnd", "log": k})
        elif pt == "live.recv":
            if fid == cur["id"] and not cur["bcast"]:
                emit_broadcast(k)
            acts.append({"act": "liveRecv", "frame": fid, "log": k})
        elif pt == "live.end":
            acts.append({"act": "liveEnd", "log": k, "optional": True})
        elif pt == "pulse":
            acts.append({"act": "pulse", "log": k, "optional": True})
    acts.append({"act": "final"})
    return acts


def _mark():
    pass


def run_model(named):
    """named: list of (name, history, acts). Returns {name: [outputs]}"""
    lines = []
    for name, hist, acts, cap in named:
        lines.append(json.dumps({"case": name, "history": hist, "cap": cap}))
        for a in acts:
            lines.append(json.dumps(a))
    p = subprocess.run([XSDRV, "follow"], input="\n".join(lines) + "\n", stdout=subprocess.PIPE,
                       stderr=subprocess.PIPE, text=True)
    if p.returncode != 0:
        raise RuntimeError("xsdrv follow failed: " + p.stderr[-2000:])
    out, cur = {}, None
    for line in p.stdout.splitlines():
        j = json.loads(line)
        if "case" in j:
            cur = out.setdefault(j["case"], [])
        else:
            cur.append(j)
    return out


def compare(spec, res, acts, mout):
    """model vs implementation: every observed step was enabled in the model and handled the
    frame the model expected; final deliveries and stream end agree"""
    diffs = []
    for a, m in zip(acts, mout):
        if a["act"] == "final":
            fin = m.get("final", {})
            impl = res["readers"].get("r1")
            if impl is None or fin.get("reader", 1) is None:
                if (impl is None) != (fin.get("reader", 1) is None):
                    diffs.append({"kind": "reader-presence"})
                continue
            mo = [x for x in fin["out"] if "pulse" not in x]
            io = []
            for f in impl["out"]:
                t = topic_of(f)
                if t == "xs.pulse":
                    continue
                io.append({"threshold": True} if t == "xs.threshold" else {"frame": f["id"]})
            if mo != io:
                diffs.append({"kind": "deliveries", "impl": io, "model": mo})
            if bool(impl["ended"]) != bool(fin["closed"]) and not spec.get("free_run"):
                diffs.append({"kind": "stream-end", "impl_ended": impl["ended"], "model_closed": fin["closed"], "lagged": fin.get("lagged")})
            if fin["committed"] != [f["id"] for f in res["final"]]:
                diffs.append({"kind": "committed", "impl": [f["id"] for f in res["final"]], "model": fin["committed"]})
            continue
        if not m.get("enabled") and not a.get("optional"):
            diffs.append({"kind": "not-enabled", "act": a["act"], "log": a.get("log")})
        if a["act"] in ("histSend", "liveRecv") and m.get("enabled") and m.get("expect") != a.get("frame"):
            diffs.append({"kind": "frame-mismatch", "act": a["act"], "impl": a.get("frame"), "model": m.get("expect"), "log": a.get("log")})
    return diffs


# ---------------------------------------------------------------------------
# trace oracles (property statements evaluated on the implementation's execution)
# ---------------------------------------------------------------------------

def oracles(spec, res):
    fails = []
    hist = res["history"]
    log = res["log"]
    appended = []  # frames in order of id assignment
    for w, rs in res["writers"].items():
        appended += [x["ok"] for x in rs if "ok" in x]
    appended += [x["ok"] for x in res["main_appends"] if "ok" in x]
    by_id = {f["id"]: f for f in hist + appended}
    persisted = sorted([f for f in hist + appended if f.get("ttl") != "ephemeral"], key=lambda f: int(f["id"], 16))
    # --- C02: commits and broadcasts happen in id order; the stream only grows at its end
    for point in ("append.id", "append.commit", "append.broadcast"):
        seq = [int(e["frame"], 16) for e in log if e["point"] == point and e.get("frame")]
        if any(a >= b for a, b in zip(seq, seq[1:])):
            fails.append({"prop": "C02", "why": "%s events are not in increasing id order" % point})
    # a head:N frame may evict older ones (C08/C09), so compare modulo frames that can be evicted
    final_ids = [f["id"] for f in res["final"]]
    if any(int(a, 16) >= int(b, 16) for a, b in zip(final_ids, final_ids[1:])):
        fails.append({"prop": "C02", "why": "final stream not in increasing id order"})
    has_head = any((f.get("ttl") or "").startswith("head:") for f in hist + appended)
    if not has_head and final_ids != [f["id"] for f in persisted]:
        fails.append({"prop": "C02", "why": "final stream differs from the persisted appends", "want": [f["id"] for f in persisted], "got": final_ids})
    for name, got in res.get("pollers", {}).items():
        ids = [f["id"] for f in got]
        if len(ids) != len(set(ids)):
            fails.append({"prop": "C02", "why": "poller saw a frame twice"})
        if any(int(a, 16) >= int(b, 16) for a, b in zip(ids, ids[1:])):
            fails.append({"prop": "C02", "why": "poller saw ids out of order"})
        if not has_head:
            want = [f["id"] for f in persisted]
            # the last poll happens after quiescence, so everything must have been seen
            if ids != want:
                fails.append({"prop": "C02", "why": "a last-id poller missed or duplicated frames", "missed": [i for i in want if i not in ids][:5]})
    # --- reader
    o = spec["readers"].get("r1")
    impl = res["readers"].get("r1")
    if o and impl:
        follow = o["follow"] != "off"
        ctx = resolve(o["ctx"], hist)
        last = resolve(o["last"], hist)
        out = impl["out"]
        real = [f for f in out if topic_of(f) not in ("xs.threshold", "xs.pulse")]
        thresholds = [i for i, f in enumerate(out) if topic_of(f) == "xs.threshold"]
        pulses = [f for f in out if topic_of(f) == "xs.pulse"]
        sub_pt = "read.subscribed" if follow else "read.start"
        sub_idx = next((k for k, e in enumerate(log) if e["point"] == sub_pt and e["actor"] == "r1"), None)
        bcast_after = [by_id[e["frame"]] for k, e in enumerate(log)
                       if e["point"] == "append.broadcast" and sub_idx is not None and k > sub_idx and e.get("frame") in by_id]
        stored_before = [by_id[e["frame"]] for k, e in enumerate(log)
                         if e["point"] == "append.commit" and sub_idx is not None and k < sub_idx and e.get("frame") in by_id]
        in_scope = lambda f: ctx is None or f["ctx"] == ctx
        H = [] if o["tail"] else [f for f in sorted(hist + stored_before, key=lambda f: int(f["id"], 16))
                                  if f.get("ttl") != "ephemeral" and in_scope(f) and (last is None or int(f["id"], 16) > int(last, 16))]
        L = [f for f in bcast_after if in_scope(f)] if follow else []
        ideal = [f["id"] for f in H + L]
        got = [f["id"] for f in real]
        n = o["limit"]
        heads = has_head
        # C03: exactly once, in order, no gap: the deliveries are a prefix of the ideal sequence ...
        if follow:
            if got != ideal[:len(got)] and not heads:
                fails.append({"prop": "C03", "why": "deliveries are not a gap-free, duplicate-free prefix of history ++ live", "got": got, "ideal": ideal})
        else:
            # a non-following read has no cut: frames committed while it scans may be included
            allp = [f["id"] for f in persisted if in_scope(f) and (last is None or int(f["id"], 16) > int(last, 16))]
            if any(int(a, 16) >= int(b, 16) for a, b in zip(got, got[1:])) or any(i not in allp for i in got):
                fails.append({"prop": "C01", "why": "non-following read returned frames out of order or out of scope"})
            must = ideal if n is None else ideal[:n]
            if not heads and any(i not in got for i in must) and (n is None or len(got) < n):
                fails.append({"prop": "C01", "why": "non-following read missed a frame stored before it began"})
        if len(got) != len(set(got)):
            fails.append({"prop": "C03", "why": "a frame was delivered twice"})
        lagged = len(L) > 1024
        if follow and n is None and not lagged and not heads and got != ideal:
            fails.append({"prop": "C03", "why": "open follow stream missed frames at quiescence", "missing": [i for i in ideal if i not in got][:5]})
        if follow and n is None and not o["tail"]:
            if len(thresholds) != 1:
                fails.append({"prop": "C03", "why": "expected exactly one xs.threshold, got %d" % len(thresholds)})
            else:
                before = [f["id"] for f in out[:thresholds[0]] if topic_of(f) not in ("xs.pulse",)]
                after = [f["id"] for f in out[thresholds[0] + 1:] if topic_of(f) not in ("xs.pulse",)]
                Hids, Lids = {f["id"] for f in H}, {f["id"] for f in L}
                if any(i in Lids for i in before) or any(i in Hids for i in after):
                    fails.append({"prop": "C03", "why": "xs.threshold misplaced between history and live"})
        elif thresholds:
            fails.append({"prop": "C11", "why": "xs.threshold delivered to a reader that must not get one"})
        # C11
        if n is not None and n >= 1:
            if len(got) > n:
                fails.append({"prop": "C11", "why": "more than limit frames delivered", "limit": n, "got": len(got)})
            if len(got) == n and not impl["ended"]:
                fails.append({"prop": "C11", "why": "limit reached but the stream did not end"})
            if follow and len(got) < n and impl["ended"] and not lagged:
                fails.append({"prop": "C11", "why": "following stream ended before its limit"})
            if not follow and len(got) < min(n, len(H)) and not heads:
                fails.append({"prop": "C11", "why": "non-following read with limit returned fewer frames than existed"})
        if o["tail"] and any(f["id"] in {h["id"] for h in hist + stored_before} for f in real):
            fails.append({"prop": "C11", "why": "tail delivered a historical frame"})
        if pulses and not isinstance(o["follow"], int):
            fails.append({"prop": "C11", "why": "xs.pulse delivered to a reader without heartbeat"})
        if lagged and not impl["ended"]:
            fails.append({"prop": "C11", "why": "subscriber fell more than the broadcast buffer behind but its stream stayed open"})
        if not follow and not impl["ended"]:
            fails.append({"prop": "C11", "why": "non-following stream did not end"})
    # synthetic frames are never stored
    if any(topic_of(f) in ("xs.threshold", "xs.pulse") for f in res["final"]):
        fails.append({"prop": "C11", "why": "synthetic frame stored"})
    return fails


def run_all(specs, jobs=12):
    with ThreadPoolExecutor(max_workers=jobs) as ex:
        results = list(ex.map(run_impl, specs))
    named, keep = [], []
    for sp, rs in zip(specs, results):
        if "crash" in rs or "error" in rs:
            keep.append((sp, rs, None))
            continue
        acts = to_acts(sp, rs)
        keep.append((sp, rs, acts))
        if not sp.get("free_run"):
            named.append((sp["name"], rs["history"], acts, sp.get("cap", 1024)))
    mo = run_model(named) if named else {}
    out = []
    for sp, rs, acts in keep:
        if acts is None:
            out.append({"spec": sp, "res": rs, "diffs": [{"kind": "crash", "detail": rs.get("crash") or rs.get("error")}], "fails": []})
            continue
        diffs = compare(sp, rs, acts, mo[sp["name"]]) if sp["name"] in mo else []
        out.append({"spec": sp, "res": rs, "acts": acts, "diffs": diffs, "fails": oracles(sp, rs)})
    return out
