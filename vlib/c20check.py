"""C20: the store-level histories with imports (storecheck) + export / import over HTTP between two servers (exportimport)."""
import json, os
from concurrent.futures import ThreadPoolExecutor
from . import common as C
from . import storecheck
from . import exportimport as X


def ser(case):
    if case is None:
        return None
    cc = {k: v for k, v in case.items() if k != "ops"}
    cc["ops"] = []
    for o in case["ops"]:
        o2 = dict(o)
        for key in ("body", "meta"):
            if isinstance(o2.get(key), bytes):
                o2[key] = o2[key].hex()
        cc["ops"].append(o2)
    return cc


def run(prop, tier, seed, replay=None):
    rc1 = 0
    if replay:
        pl = json.load(open(replay))
        if pl.get("layer") != "export-import":
            return storecheck.run(prop, tier, seed, replay)
        seeds = [pl["pair_seed"]]
    else:
        rc1 = storecheck.run(prop, tier, seed)
        if rc1 == 2:
            return 2
        seeds = [seed * 977 + k for k in range(24 if tier == "quick" else 400)]
    with ThreadPoolExecutor(max_workers=8) as ex:
        pairs = list(ex.map(X.run_pair, seeds))
    mf = X.model_findings(pairs)
    bad_obs, bad_int = [], []
    for p in pairs:
        fs = list(p["findings"])
        for f in mf.get((p.get("tgt") or {}).get("name"), []):
            fs.append({"why": "the import side differs from the Route model", "observable": bool(f.get("observable")), "model_finding": f})
        if any(f.get("observable") for f in fs):
            bad_obs.append((p, fs))
        elif fs:
            bad_int.append((p, fs))
    rc2 = 0
    if bad_obs or bad_int:
        p, fs = (bad_obs or bad_int)[0]
        path = C.write_replay(prop, {"property": prop, "tier": tier, "seed": seed, "layer": "export-import", "pair_seed": p["seed"],
                                     "case": {"source": ser(p.get("src")), "import": ser(p.get("tgt"))}, "findings": fs[:4],
                                     "broken": None if bad_obs else "correspondence:export-import/stored state"})
        print(f"VIOLATION property={prop} replay={path}" + ("" if bad_obs else " no-failing-input-found"))
        rc2 = 1
    n_items = sum(p["stats"].get("items", 0) for p in pairs)
    print(f"{prop}: {'FAIL' if rc2 else 'ok'}  export/import over HTTP: pairs {len(pairs)} items imported {n_items}")
    if replay:
        return rc2
    p = os.path.join(C.VERIF, "evidence", prop + ".json")
    ev = json.load(open(p))
    cov = ev["coverage"]
    cov["traces_validated_against_impl"] += len(pairs)
    cov["evaluations"] += n_items
    cov["rule"] += (" || export / import over HTTP: a source server built by registrations, appends (shared content, all persistent TTL kinds, "
                    "several contexts, late registrations) and removals is exported (GET /, GET /cas/<hash>) and everything is imported into an empty "
                    "server (POST /cas, POST /import) in a random order with duplicates - frames before their content and before their context's "
                    "registration; both servers are then asked the same questions (whole stream, every context, every head, every content, which contexts "
                    "accept appends) and their partitions compared; the import requests are also compared one by one with the Lean Route model")
    cov["export_import"] = {"pairs": len(pairs), "items_imported": n_items, "frames": sum(p["stats"].get("frames", 0) for p in pairs),
                            "contexts": sum(p["stats"].get("contexts", 0) for p in pairs), "failures": len(bad_obs) + len(bad_int)}
    ev["violations"] = ev.get("violations", 0) + len(bad_obs) + len(bad_int)
    json.dump(ev, open(p, "w"), indent=1, sort_keys=True)
    return 1 if (rc1 or rc2) else 0
