"""C10: HTTP entry points (httpcheck) + content written by scripts (`.append` inside handlers, commands; generator output):
byte-exact, present when the frame is handed to a follower (servecheck)."""
import json, os
from . import common as C
from . import httpcheck, servecheck


def run(prop, tier, seed, replay=None):
    if replay:
        layer = json.load(open(replay)).get("layer")
        return (servecheck if layer == "serve" else httpcheck).run(prop, tier, seed, replay)
    rc1 = httpcheck.run(prop, tier, seed)
    p = os.path.join(C.VERIF, "evidence", prop + ".json")
    ev1 = json.load(open(p))
    rc2 = servecheck.run(prop, tier, seed)
    ev2 = json.load(open(p))
    cov, c2 = ev1["coverage"], ev2["coverage"]
    cov["traces_validated_against_impl"] += c2["traces_validated_against_impl"]
    cov["evaluations"] += c2["evaluations"]
    cov["distinct_nontrivial"] += c2["distinct_nontrivial"]
    cov["rule"] += " || script entry points: " + c2["rule"]
    cov["serve"] = {k: c2[k] for k in ("step_histogram", "findings_checked")}
    ev1["wall_s"] = round(ev1["wall_s"] + ev2["wall_s"], 2)
    ev1["violations"] = ev1.get("violations", 0) + ev2.get("violations", 0)
    json.dump(ev1, open(p, "w"), indent=1, sort_keys=True)
    return 1 if (rc1 or rc2) else 0
