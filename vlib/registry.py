"""property id -> check function"""
from . import storecheck

REGISTRY = {}
for p in ("C01", "C05", "C06", "C07"):
    REGISTRY[p] = storecheck.run
