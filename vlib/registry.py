"""property id -> check function"""
from . import storecheck, followcheck, wirecheck, httpcheck, c06check, crashcheck, servecheck, c10check, c09check, c08check, c20check

REGISTRY = {}
for p in ("C01", "C05", "C06", "C07", "C08", "C09", "C20"):
    REGISTRY[p] = storecheck.run

for p in ("C02", "C03", "C11"):
    REGISTRY[p] = followcheck.run

REGISTRY["C12"] = wirecheck.run

REGISTRY["C13"] = httpcheck.run
REGISTRY["C10"] = c10check.run

REGISTRY["C06"] = c06check.run

REGISTRY["C04"] = crashcheck.run

for p in ("C14", "C15", "C16", "C17", "C18", "C19"):
    REGISTRY[p] = servecheck.run

REGISTRY["C09"] = c09check.run
REGISTRY["C08"] = c08check.run
REGISTRY["C20"] = c20check.run
