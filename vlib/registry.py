"""property id -> check function"""
from . import storecheck, followcheck, wirecheck

REGISTRY = {}
for p in ("C01", "C05", "C06", "C07", "C08", "C09", "C20"):
    REGISTRY[p] = storecheck.run

for p in ("C02", "C03", "C11"):
    REGISTRY[p] = followcheck.run

REGISTRY["C12"] = wirecheck.run
