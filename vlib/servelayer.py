"""Serve-loop layer (handlers; generators and commands build on it): scenario generator, nushell
script renderer, runner against the real crate (worker `store` mode with serve_all + tap) and
the oracles that replay what every handler instance was handed on the Lean model
(XsModel/Handler.lean `run`, `subscription`; XsModel/Registry.lean `announcements`)."""
import json, os, random, shutil, subprocess, threading, hashlib, time

from . import common as C
from . import storelayer as S

ZERO = "0" * 32
DRV = os.path.join(C.VERIF, "lean", ".lake", "build", "bin", "xsdrv")


def hx(s):
    return s.encode().hex()


def unhx(h):
    return bytes.fromhex(h).decode("utf-8", "replace")


B36 = "0123456789abcdefghijklmnopqrstuvwxyz"


def hex_to_b36(h):
    n = int(h, 16)
    out = ""
    for _ in range(25):
        out = B36[n % 36] + out
        n //= 36
    return out


def b36_to_hex(s):
    return "%032x" % int(s, 36)


def is_id_text(v):
    return isinstance(v, str) and len(v) == 25 and all(c in B36 for c in v)


# ---------------------------------------------------------------------------------------------
# behaviour tables -> nushell

RETS = [  # (nu expression, JSON text the model expects as content; {n} = the call counter)
    ('"pong"', '"pong"'), ("$env.n", "{n}"), ('{a: 1, b: [1 2]}', '{"a":1,"b":[1,2]}'), ("[1 2 3]", "[1,2,3]"),
    ("true", "true"), ("3.5", "3.5"), ('$"r($env.n)"', '"r{n}"'), (None, None), (None, None)]

METAS = [  # (nu record, model pairs key -> JSON text)
    (None, None), (None, None), ('{k: "v"}', [["k", '"v"']]), ('{n: 1, s: "x y"}', [["n", "1"], ["s", '"x y"']]),
    ('{handler_id: "zzz"}', [["handler_id", '"zzz"']]), ('{frame_id: "me", k: true}', [["frame_id", '"me"'], ["k", "true"]])]

OUT_TTLS = [None, None, None, "forever", "ephemeral", "time:600000"]


def nu_str(s):
    return '"' + s.replace("\\", "\\\\").replace('"', '\\"') + '"'


def render_append(a, ctx_text):
    parts = []
    if a.get("content") is not None:
        c = a["content"]
        parts.append(('$"' + c.replace("{n}", "($env.n)") + '"') if "{n}" in c else nu_str(c))
        parts.append("|")
    parts.append(".append " + a["topic"])
    if a.get("meta_nu"):
        parts.append("--meta " + a["meta_nu"])
    if a.get("ttl"):
        parts.append("--ttl " + nu_str(a["ttl"]))
    if a.get("ctx_ref") is not None:
        parts.append("--context " + nu_str(ctx_text(a["ctx_ref"])))
    return " ".join(parts)


def render_rule_body(rule, ctx_text):
    lines = []
    if rule.get("slow_ms"):
        lines.append("sleep %dms" % rule["slow_ms"])
    apps = [render_append(a, ctx_text) for a in rule["appends"]]
    if rule.get("fail"):
        k = min(rule.get("fail_at", 0), len(apps))
        apps = apps[:k] + ['error make {msg: "boom"}'] + apps[k:]
    lines += apps
    lines.append(rule["ret_nu"] if rule.get("ret_nu") is not None else "null")
    return "\n      ".join(lines)


def render_handler(spec, ctx_text, id_text):
    """the configuration script of `<name>.register`"""
    if spec.get("invalid") == "syntax":
        return "{ run: {|frame| "
    if spec.get("invalid") == "norun":
        return '{ resume_from: "tail" }'
    if spec.get("invalid") == "notclosure":
        return '{ run: 5 }'
    out = ["$env.n = %d" % spec.get("env0", 0), "{", "  run: {|frame|", "    $env.n = $env.n + 1"]
    first = True
    closed = False
    for r in spec["rules"]:
        body = render_rule_body(r, ctx_text)
        if r["topic"] == "":
            if first:
                out.append("    if true {\n      %s\n    }" % body)
            else:
                out[-1] += " else {\n      %s\n    }" % body
            closed = True
            break
        cond = "$frame.topic == %s" % nu_str(r["topic"])
        if first:
            out.append("    if %s {\n      %s\n    }" % (cond, body))
        else:
            out[-1] += " else if %s {\n      %s\n    }" % (cond, body)
        first = False
    if first and not closed:
        out.append("    null")
    out.append("  }")
    res = spec.get("resume", "tail")
    if isinstance(res, dict):
        out.append("  resume_from: %s" % nu_str(id_text(res["after"])))
    else:
        out.append("  resume_from: %s" % nu_str(res))
    ro = []
    if spec.get("suffix"):
        ro.append("suffix: %s" % nu_str(spec["suffix"]))
    if spec.get("ttl"):
        ro.append("ttl: %s" % nu_str(spec["ttl"]))
    if ro:
        out.append("  return_options: {%s}" % ", ".join(ro))
    out.append("}")
    return "\n".join(out)


# ---------------------------------------------------------------------------------------------
# scenario generator

TOPICS = ["ping", "a", "b.c", "tick"]


class Gen:
    def __init__(self, seed, profile="mixed"):
        self.r = random.Random(seed)
        self.profile = profile
        self.steps = []
        self.nctx = self.r.choice([0, 1, 2, 2])
        self.names = ["h", "g.h", "k"]
        self.n_append = 0
        self.handlers = []   # (step index, name, ctx)

    def ctx(self):
        return self.r.randint(0, self.nctx)

    def rule(self, topic, history_ok):
        r = self.r
        apps = []
        for _ in range(r.choice([0, 0, 1, 1, 2, 3])):
            m = r.choice(METAS)
            apps.append({"topic": r.choice(["out1", "out2", "o.x"]), "meta_nu": m[0], "meta": m[1],
                         "ttl": r.choice(OUT_TTLS) if history_ok else r.choice(OUT_TTLS + ["head:1", "head:2"]),
                         "ctx_ref": r.choice([None, None, None, r.randint(0, self.nctx)]),
                         "content": r.choice([None, "c", "c{n}", "x y"])})
        ret = r.choice(RETS)
        fail = r.random() < 0.12
        return {"topic": topic, "appends": apps, "ret_nu": ret[0], "ret": ret[1], "fail": fail,
                "fail_at": r.randint(0, 3), "slow_ms": r.choice([0, 0, 0, 20, 40])}

    def handler_spec(self, history_ok, name="h"):
        r = self.r
        if r.random() < 0.1:
            return {"invalid": r.choice(["syntax", "norun", "notclosure"]), "rules": []}
        rules = [self.rule(t, history_ok) for t in r.sample(TOPICS, r.randint(1, 3))]
        # a react-to-everything rule only under the name "h": two such handlers of different names in
        # one context would answer each other for ever (that is not self-feeding, and never settles)
        if name == "h" and r.random() < 0.45:
            rules.append(self.rule("", history_ok))
        res = r.choice(["tail", "tail", "head"] + (["after"] if self.n_append else [])) if history_ok else "tail"
        if res == "after":
            cands = [i for i, s in enumerate(self.steps) if s["k"] == "append"]
            res = {"after": r.choice(cands)}
        return {"rules": rules, "resume": res, "env0": r.choice([0, 0, 5]),
                "suffix": r.choice([None, None, ".x", ".res.y"]),
                "ttl": r.choice([None, None, "forever", "time:600000"] + ([] if history_ok else ["head:1", "head:2", "ephemeral"]))}

    def step_append(self):
        r = self.r
        m = r.choice([None, None, None, {"k": 1}, {"handler_id": "zzz"}])
        self.steps.append({"k": "append", "topic": r.choice(TOPICS + ["zzz"]), "ctx": self.ctx(), "meta": m,
                           "content": r.choice([None, None, "body"]), "ttl": r.choice([None, None, None, "ephemeral"])})
        self.n_append += 1

    def step_burst(self):
        r = self.r
        ws = []
        for _ in range(r.randint(2, 4)):
            ws.append([{"topic": r.choice(TOPICS), "ctx": self.ctx(), "meta": None, "ttl": None} for _ in range(r.randint(2, 6))])
        self.steps.append({"k": "burst", "writers": ws})

    def build(self):
        r = self.r
        history_ok = self.profile != "ttl"
        for _ in range(r.choice([0, 0, 2, 5])):       # a pre-existing history
            self.step_append()
        self.steps.append({"k": "serve"})
        n = r.randint(6, 16)
        for _ in range(n):
            x = r.random()
            if x < 0.22 or not self.handlers:
                name, c = r.choice(self.names), self.ctx()
                self.handlers.append((len(self.steps), name, c))
                self.steps.append({"k": "register", "name": name, "ctx": c, "spec": self.handler_spec(history_ok, name)})
                if r.random() < 0.85:
                    self.steps.append({"k": "settle"})
            elif x < 0.62:
                self.step_append()
                if r.random() < 0.5:
                    self.steps.append({"k": "settle"})
            elif x < 0.72:
                self.step_burst()
            elif x < 0.80:
                _, name, c = r.choice(self.handlers)
                if self.profile == "restart" and r.random() < 0.4:
                    self.steps.append({"k": "settle"})
                    self.steps.append({"k": "unregister", "name": name, "ctx": c, "kill": True})
                else:
                    self.steps.append({"k": "unregister", "name": name, "ctx": c})
                    self.steps.append({"k": "settle"})
            elif x < 0.90 and self.profile in ("mixed", "restart"):
                self.steps.append({"k": "settle"})
                self.steps.append({"k": "restart"})
            else:
                self.step_append()
        if self.profile == "restart":
            self.steps.append({"k": "settle"})
            self.steps.append({"k": "restart"})
            for _ in range(r.randint(2, 5)):
                self.step_append()
        self.steps.append({"k": "settle"})
        return {"nctx": self.nctx, "steps": self.steps}


def gen_scenario(seed, profile="mixed"):
    sc = Gen(seed, profile).build()
    sc["name"] = "gen-%s-%d" % (profile, seed)
    sc["race_ping"] = seed % 2 == 0
    return sc


# ---------------------------------------------------------------------------------------------
# runner

SCRATCH = os.environ.get("XSV_SCRATCH", "/dev/shm/xsv-serve" if os.path.isdir("/dev/shm") else "/var/tmp/xsv-serve")


def frame_op(kind, topic, ctx_hex, meta=None, ttl=None, content=None):
    op = {"op": kind, "topic": hx(topic), "ctx": ctx_hex, "meta": json.dumps(meta) if meta is not None else None,
          "ttl": ttl, "hash": None}
    if content is not None:
        op["op"] = "append_content"
        op["content"] = content
    return op


def run_impl(sc, keep_dir=False, settle_ms=250):
    """returns {"ctxs": [hex...], "epochs": [{"stored": [...], "tap": [...], "sync": [...]}], "steps": [...per step obs],
    "scripts": {step index: text}, "crash": str|None}"""
    d = os.path.join(SCRATCH, "%d-%s-%s" % (os.getpid(), threading.get_ident(), hashlib.sha1(sc["name"].encode()).hexdigest()[:8]))
    shutil.rmtree(d, ignore_errors=True)
    os.makedirs(d)
    out = {"ctxs": [ZERO], "epochs": [], "steps": [], "scripts": {}, "crash": None}
    step_ids = {}
    w = None

    def ctx_hex(i):
        return out["ctxs"][i]

    def ctx_text(i):
        return hex_to_b36(ctx_hex(i))

    def id_text(step_i):
        return hex_to_b36(step_ids.get(step_i, ZERO))

    def close_epoch():
        ep = out["epochs"][-1]
        t = w.call({"op": "tap"})["ok"]
        ep["tap"], ep["sync"] = t["frames"], t["sync"]

    try:
        w = S.Worker()
        w.call({"op": "open", "dir": d, "now": None, "gated": False})
        for _ in range(sc["nctx"]):
            f = w.call(frame_op("append", "xs.context", ZERO))["ok"]
            out["ctxs"].append(f["id"])
        serving = False
        for i, st in enumerate(sc["steps"]):
            k = st["k"]
            obs = None
            if k == "serve":
                stored = w.call({"op": "stream"})["ok"]
                out["epochs"].append({"stored": stored, "tap": [], "sync": [], "first_step": i})
                w.call({"op": "serve_all", "wait_ms": 150, "race_ping": bool(sc.get("race_ping"))})
                serving = True
            elif k == "append":
                obs = w.call(frame_op("append", st["topic"], ctx_hex(st["ctx"]), st.get("meta"), st.get("ttl"), st.get("content")))
                if isinstance(obs.get("ok"), dict):
                    step_ids[i] = obs["ok"]["id"]
            elif k == "burst":
                ws = [[{"topic": hx(f["topic"]), "ctx": ctx_hex(f["ctx"]), "meta": None, "ttl": f.get("ttl"), "hash": None} for f in wl]
                      for wl in st["writers"]]
                obs = w.call({"op": "burst", "writers": ws})
            elif k == "register":
                text = render_handler(st["spec"], ctx_text, id_text)
                out["scripts"][i] = text
                obs = w.call(frame_op("append", st["name"] + ".register", ctx_hex(st["ctx"]), content=text))
                if isinstance(obs.get("ok"), dict):
                    step_ids[i] = obs["ok"]["id"]
            elif k == "unregister" and st.get("kill"):
                # crash between the stored request and the handler's announcement: the process is killed when the
                # `.unregistered` append begins
                close_epoch()
                w.call({"op": "arm_kill", "point": "append.enter", "suffix": ".unregistered"})
                try:
                    w.call(frame_op("append", st["name"] + ".unregister", ctx_hex(st["ctx"])))
                    w.call({"op": "settle", "ms": 400, "max_ms": 3000})
                    w.call({"op": "exit", "how": "kill"})      # nobody answered the request: plain kill
                except S.WorkerDied:
                    pass
                w.close()
                w = S.Worker()
                w.call({"op": "open", "dir": d, "now": None, "gated": False})
                stored = w.call({"op": "stream"})["ok"]
                out["epochs"].append({"stored": stored, "tap": [], "sync": [], "first_step": i})
                w.call({"op": "serve_all", "wait_ms": 150, "race_ping": bool(sc.get("race_ping"))})
                w.call({"op": "settle", "ms": settle_ms, "max_ms": 8000})
            elif k == "unregister":
                obs = w.call(frame_op("append", st["name"] + ".unregister", ctx_hex(st["ctx"])))
            elif k == "settle":
                if serving:
                    obs = w.call({"op": "settle", "ms": st.get("ms", settle_ms), "max_ms": 8000})
            elif k == "restart":
                close_epoch()
                try:
                    w.call({"op": "exit", "how": "kill"})
                except S.WorkerDied:
                    pass
                w.close()
                w = S.Worker()
                w.call({"op": "open", "dir": d, "now": None, "gated": False})
                stored = w.call({"op": "stream"})["ok"]
                out["epochs"].append({"stored": stored, "tap": [], "sync": [], "first_step": i})
                w.call({"op": "serve_all", "wait_ms": 150, "race_ping": bool(sc.get("race_ping"))})
                w.call({"op": "settle", "ms": settle_ms, "max_ms": 8000})
            out["steps"].append(obs)
        if out["epochs"]:
            close_epoch()
        out["step_ids"] = step_ids
    except S.WorkerDied as e:
        out["crash"] = str(e)[-600:]
        out["step_ids"] = step_ids
    finally:
        if w is not None:
            w.close()
        if not keep_dir:
            shutil.rmtree(d, ignore_errors=True)
    return out


# ---------------------------------------------------------------------------------------------
# model side

class Driver:
    def __init__(self):
        self.p = subprocess.Popen([DRV, "serve"], stdin=subprocess.PIPE, stdout=subprocess.PIPE, text=True, bufsize=1)
        self.lock = threading.Lock()

    def ask(self, q):
        with self.lock:
            self.p.stdin.write(json.dumps(q) + "\n")
            self.p.stdin.flush()
            line = self.p.stdout.readline()
        if not line:
            raise RuntimeError("xsdrv serve died")
        return json.loads(line)

    def close(self):
        try:
            self.p.kill(); self.p.wait(timeout=5)
        except Exception:
            pass
        for f in (self.p.stdin, self.p.stdout):
            try:
                f.close()
            except Exception:
                pass


ID_KEYS = ("handler_id", "frame_id", "source_id", "command_id")


def model_meta(meta_str):
    """the implementation's meta (JSON text of an object) as the model's pairs: key -> JSON text of the
    value; values that are id texts become the model's `id:<n>`"""
    if meta_str is None:
        return None
    try:
        m = json.loads(meta_str)
    except Exception:
        return [["<unparsed>", meta_str]]
    if not isinstance(m, dict):
        return [["<not-an-object>", json.dumps(m)]]
    out = []
    for k, v in m.items():
        if is_id_text(v):
            out.append([k, "id:%d" % int(v, 36)])
        else:
            out.append([k, json.dumps(v, separators=(",", ":"), ensure_ascii=False)])
    return out


def sframe(f):
    """tap / stream frame -> model frame"""
    return {"topic": unhx(f["topic"]), "ctx": f["ctx"], "id": f["id"], "meta": model_meta(f.get("meta")),
            "ttl": f.get("ttl"), "content": f.get("content")}


def canon_out(f, known_ids):
    """comparable form of an output frame (model or implementation side, both as model frames)"""
    meta = {}
    for k, v in (f.get("meta") or []):
        if k == "frame_id" and isinstance(v, str) and v.startswith("id:") and int(v[3:]) not in known_ids:
            v = "id:<marker>"
        if k == "error":
            v = "<error>"
        meta[k] = v
    return (f["topic"], f["ctx"], tuple(sorted(meta.items())), f.get("ttl") or "forever", f.get("content"))


# ---------------------------------------------------------------------------------------------
# oracles

def split_tap(tap):
    """(history replayed to the tap, live part) - the tap's own threshold marker separates them"""
    for i, f in enumerate(tap):
        if unhx(f["topic"]) == "xs.threshold" and f["ctx"] == ZERO and f.get("ttl") == "ephemeral":
            return tap[:i], tap[i + 1:]
    return tap, []


def meta_of(f):
    try:
        m = json.loads(f["meta"]) if f.get("meta") else None
        return m if isinstance(m, dict) else None
    except Exception:
        return None


def loop_announcements(live):
    """what the handler serve loop announced, in order: [kind, handler id hex, frame id hex | None] with kind
    registered / rejected (script error) / superseded (a tail handler replaced before it subscribed)"""
    out = []
    registered = set()
    for f in live:
        t = unhx(f["topic"])
        m = meta_of(f) or {}
        hid = m.get("handler_id")
        if not is_id_text(hid):
            continue
        h = b36_to_hex(hid)
        if t.endswith(".registered") and "tail" in m:
            out.append(["registered", h, None])
            registered.add(h)
        elif t.endswith(".unregistered") and "frame_id" not in m and "error" in m:
            out.append(["rejected", h, None])
        elif t.endswith(".unregistered") and h not in registered and is_id_text(m.get("frame_id")) and "error" not in m:
            out.append(["superseded", h, b36_to_hex(m["frame_id"])])
    return out


def announcements_ok(starts, got):
    """the model's start infos against the observed announcements; returns None or the first difference"""
    if len(starts) != len(got):
        return "count: model %d, impl %d" % (len(starts), len(got))
    for s, g in zip(starts, got):
        if s["hid"] != g[1]:
            return "order / identity: model %s, impl %s" % (s["hid"][-6:], g[1][-6:])
        if not s["valid"]:
            if g[0] != "rejected":
                return "%s: an invalid script must be rejected, impl %s" % (s["hid"][-6:], g[0])
        elif g[0] == "registered":
            pass            # whether it was superseded later is the instance check's business
        elif g[0] == "superseded":
            if s["superseded_by"] is None or s["superseded_by"] != g[2]:
                return "%s: superseded by %s, model says %s" % (s["hid"][-6:], (g[2] or "")[-6:], (s["superseded_by"] or "none")[-6:])
        else:
            return "%s: a valid script was rejected" % s["hid"][-6:]
    return None


def handler_cfg(st, reg_frame):
    sp = st["spec"]
    return {"id": reg_frame["id"], "ctx": reg_frame["ctx"], "name": st["name"], "suffix": sp.get("suffix") or ".out",
            "ttl": sp.get("ttl")}


def model_rules(sp, ctxs):
    out = []
    for r in sp["rules"]:
        out.append({"topic": r["topic"], "ret": r["ret"], "fail": bool(r.get("fail")),
                    "appends": [{"topic": a["topic"], "meta": a["meta"], "ttl": a.get("ttl"),
                                 "ctx": ctxs[a["ctx_ref"]] if a.get("ctx_ref") is not None else None,
                                 "content": a.get("content")} for a in r["appends"]]})
    return out


def analyse(sc, res, drv):
    """findings: list of {"kind", "props", "why", ...} for one executed scenario"""
    fnd = []
    if res.get("crash") is not None:
        return [{"kind": "crash", "props": ["C14", "C15", "C16", "C17"], "why": "worker died", "detail": res["crash"][-300:]}]
    step_ids = res["step_ids"]
    reg_steps = {}      # register frame id -> step
    for i, st in enumerate(sc["steps"]):
        if st["k"] == "register" and i in step_ids:
            reg_steps[step_ids[i]] = (i, st)
    invalid = [rid for rid, (i, st) in reg_steps.items() if st["spec"].get("invalid")]
    for e, ep in enumerate(res["epochs"]):
        hist, live = split_tap(ep["tap"])
        # the tap replays exactly what is stored when the epoch starts
        if [f["id"] for f in hist] != [f["id"] for f in ep["stored"]]:
            fnd.append({"kind": "tap", "props": [], "why": "tap history differs from the stored stream", "epoch": e})
        S_all = hist + live
        known_ids = {int(f["id"], 16) for f in S_all}
        # --- C16 / C17: who is started, in which order, announced how
        tails = [rid for rid, (i, st) in reg_steps.items() if not st["spec"].get("invalid") and st["spec"].get("resume", "tail") == "tail"]
        ans = drv.ask({"q": "compact", "history": [sframe(f) for f in hist], "live": [sframe(f) for f in live],
                       "invalid": invalid, "tail": tails})
        starts, nh = ans["starts"], ans["n_history"]
        got = loop_announcements(live)
        diff = announcements_ok(starts, got)
        if diff:
            props = ["C17"] if announcements_ok(starts[:nh], got[:nh]) else ["C16"]
            if e > 0 and "C17" not in props:
                props.append("C17")
            fnd.append({"kind": "announce", "props": props, "epoch": e, "why": "handlers started / announced differ from the model",
                        "diff": diff, "model": [[x["hid"][-6:], x["valid"], (x["superseded_by"] or "")[-6:]] for x in starts],
                        "impl": [[k, h[-6:], (f or "")[-6:]] for k, h, f in got]})
        # --- C16: subscribed before `.registered` becomes visible
        seen = set()
        for point, hid in ep["sync"]:
            if point == "handler.subscribed":
                seen.add(hid)
            elif point == "registered.broadcast" and hid not in seen:
                fnd.append({"kind": "order", "props": ["C16"], "epoch": e, "handler": hid[-6:],
                            "why": "<name>.registered was visible before the handler had subscribed"})
        # --- C14 / C15: every started instance, replayed on the model
        started = [h for k, h, _ in got if k == "registered"]
        stamped = {}
        for idx, f in enumerate(live):
            m = meta_of(f) or {}
            hid = m.get("handler_id")
            if is_id_text(hid) and not (unhx(f["topic"]).endswith(".registered") and "tail" in m) \
                    and not (unhx(f["topic"]).endswith(".unregistered") and "frame_id" not in m) \
                    and not ["superseded", b36_to_hex(hid), b36_to_hex(m["frame_id"]) if is_id_text(m.get("frame_id")) else None] in got:
                stamped.setdefault(b36_to_hex(hid), []).append(f)
        for hid, fs in stamped.items():
            if hid not in started and hid in reg_steps:
                fnd.append({"kind": "ghost", "props": ["C16", "C17"], "epoch": e, "handler": hid[-6:],
                            "why": "output stamped by a handler that is not active in this epoch", "n": len(fs)})
        for hid in started:
            if hid not in reg_steps:
                continue
            i, st = reg_steps[hid]
            sp = st["spec"]
            # position of this start's `.registered` in the live part
            pos_reg = next((j for j, f in enumerate(live) if unhx(f["topic"]).endswith(".registered")
                            and (meta_of(f) or {}).get("handler_id") == hex_to_b36(hid) and "tail" in (meta_of(f) or {})), None)
            reg_in_live = next((j for j, f in enumerate(live) if f["id"] == hid), None)
            lo = (reg_in_live + 1) if reg_in_live is not None else 0
            reg_frame = next(f for f in S_all if f["id"] == hid)
            cfg = handler_cfg(st, reg_frame)
            res_mode = sp.get("resume", "tail")
            resume = {"after": step_ids.get(res_mode["after"], ZERO)} if isinstance(res_mode, dict) else res_mode
            actual = [canon_out(sframe(f), known_ids) for f in stamped.get(hid, [])]
            for f in stamped.get(hid, []):
                if f.get("hash") and f.get("content_present") is False:
                    fnd.append({"kind": "cas", "props": ["C15", "C10"], "epoch": e, "handler": hid[-6:],
                                "why": "output frame delivered without its content in CAS", "frame": f["id"][-6:]})
            ok, best = False, None
            own_traffic = lambda f: f["ctx"] == cfg["ctx"] and unhx(f["topic"]) in (st["name"] + ".register", st["name"] + ".unregister") \
                and int(f["id"], 16) > int(hid, 16)
            for p in range(lo, pos_reg + 1):
                # a tail handler that announced `.registered` had no registration traffic of its name stored before it
                # subscribed (C16, `started_tail_not_superseded`): later subscription points are not executions of the model
                if resume == "tail" and any(own_traffic(f) for f in (hist + live)[:len(hist) + p]):
                    break
                hpart = [f for f in hist + live[:p] if f.get("ttl") != "ephemeral"]
                q = {"q": "handler", "cfg": cfg, "rules": model_rules(sp, res["ctxs"]), "env0": sp.get("env0", 0),
                     "resume": resume, "hist": [sframe(f) for f in hpart], "live": [sframe(f) for f in live[p:]]}
                m = drv.ask(q)
                want_o = [canon_out(o, known_ids) for o in m["outs"]]
                if want_o == actual:
                    ok = True
                    break
                common = 0
                for a, b in zip(want_o, actual):
                    if a != b:
                        break
                    common += 1
                score = (common, -abs(len(want_o) - len(actual)))
                if best is None or score > best[2]:
                    best = (want_o, m, score)
            if not ok and best is None:
                fnd.append({"kind": "superseded", "props": ["C16"], "epoch": e, "handler": hid[-6:], "name": st["name"],
                            "why": "a tail handler announced <name>.registered although its name had been registered again / unregistered before"})
                continue
            if not ok:
                want_o, m, _ = best
                trig = lambda l: [dict(x[2]).get("frame_id") for x in l]
                props = ["C14"] if trig(want_o) != trig(actual) else ["C15"]
                # an expected output that exists under another stamp / context was produced but mis-labelled
                exp_keys = {(x[0], dict(x[2]).get("frame_id")) for x in want_o} - {(x[0], dict(x[2]).get("frame_id")) for x in actual}
                for f in live:
                    mf = sframe(f)
                    fid = dict((k, v) for k, v in (mf.get("meta") or [])).get("frame_id")
                    if (mf["topic"], fid) in exp_keys and f not in stamped.get(hid, []) and "C15" not in props:
                        props.append("C15")
                if any(x[1] != cfg["ctx"] for x in actual):
                    props.append("C06")
                if len(actual) > len(want_o) and m["state"] == "stopped":
                    props.append("C16")
                fnd.append({"kind": "outputs", "props": props, "epoch": e, "handler": hid[-6:], "name": st["name"],
                            "why": "the instance's output differs from the model's run over what it was handed",
                            "model": [[x[0], x[2], x[3], x[4]] for x in want_o][:12],
                            "impl": [[x[0], x[2], x[3], x[4]] for x in actual][:12], "model_state": m["state"]})
    return fnd
