"""Serve-loop layer (handlers; generators and commands build on it): scenario generator, nushell
script renderer, runner against the real crate (worker `store` mode with serve_all + tap) and
the oracles that replay what every handler instance was handed on the Lean model
(XsModel/Handler.lean `run`, `subscription`; XsModel/Registry.lean `announcements`)."""
import base64, json, os, random, re, shutil, subprocess, threading, hashlib, time

from . import common as C
from . import storelayer as S

ZERO = "0" * 32
DRV = os.path.join(C.VERIF, "lean", ".lake", "build", "bin", "xsdrv")


def hx(s):
    return s.encode().hex()


def unhx(h):
    return bytes.fromhex(h).decode("utf-8", "replace")


B36 = "0123456789abcdefghijklmnopqrstuvwxyz"


def hex_to_b36(h):
    n = int(h, 16)
    out = ""
    for _ in range(25):
        out = B36[n % 36] + out
        n //= 36
    return out


def b36_to_hex(s):
    return "%032x" % int(s, 36)


def is_id_text(v):
    return isinstance(v, str) and len(v) == 25 and all(c in B36 for c in v)


# ---------------------------------------------------------------------------------------------
# behaviour tables -> nushell

# what a script sees through the unqualified store commands (C06): only its own context
NU_SCOPE_CAT = '$"cat:(.cat | get context_id | uniq | sort | str join ' + "','" + ')"'
NU_SCOPE_HEAD = '$"head:(.head tick | default {context_id: ' + "'none'" + '} | get context_id)"'
SCOPE_PROBES = [(NU_SCOPE_CAT, '"{scope:cat}"'), (NU_SCOPE_HEAD, '"{scope:head}"')]
# every generated script declares a module; `m1 f` calls into it (the `modules` option of handlers and commands)
NU_MODULES = 'modules: {m1: "export def f [] { \\"mod\\" }"}'
MODULE_CALL = ("(m1 f)", '"mod"')

RETS = [  # (nu expression, JSON text the model expects as content; {n} = the call counter)
    ('"pong"', '"pong"'), ("$env.n", "{n}"), ('{a: 1, b: [1 2]}', '{"a":1,"b":[1,2]}'), ("[1 2 3]", "[1,2,3]"),
    ("true", "true"), ("3.5", "3.5"), ('$"r($env.n)"', '"r{n}"'), (None, None), (None, None)] + SCOPE_PROBES + [MODULE_CALL, ("$frame", '"{frame}"')]

METAS = [  # (nu record, model pairs key -> JSON text)
    (None, None), (None, None), ('{k: "v"}', [["k", '"v"']]), ('{n: 1, s: "x y"}', [["n", "1"], ["s", '"x y"']]),
    ('{handler_id: "zzz"}', [["handler_id", '"zzz"']]), ('{frame_id: "me", k: true}', [["frame_id", '"me"'], ["k", "true"]])]

# a meta nested so deep that the frame carrying it cannot be read back: the store refuses to keep such a frame (C12), so the
# call that wrote it fails as a whole (C15) - unless the frame is ephemeral and never stored
DEEP_META = ('{d: (0..130 | reduce -f 0 {|it, acc| [$acc]})}', [["d", "[" * 131 + "0" + "]" * 131]])

OUT_TTLS = [None, None, None, "forever", "ephemeral", "time:600000"]


BOGUS_CTX = "0123456789abcdefghijklmno"      # a well-formed id that registers no context


def nu_str(s):
    return '"' + s.replace("\\", "\\\\").replace('"', '\\"').replace("\x00", "\\u{0}") + '"'


def render_append(a, ctx_text):
    parts = []
    if a.get("content") is not None:
        c = a["content"]
        parts.append(('$"' + c.replace("{n}", "($env.n)") + '"') if "{n}" in c else nu_str(c))
        parts.append("|")
    parts.append(".append " + a["topic"])
    if a.get("meta_nu"):
        parts.append("--meta " + a["meta_nu"])
    if a.get("ttl"):
        parts.append("--ttl " + nu_str(a["ttl"]))
    if a.get("ctx_ref") == "bogus":
        parts.append("--context " + nu_str(BOGUS_CTX))
    elif a.get("ctx_ref") is not None:
        parts.append("--context " + nu_str(ctx_text(a["ctx_ref"])))
    return " ".join(parts)


def render_rule_body(rule, ctx_text):
    lines = []
    if rule.get("slow_ms"):
        lines.append("sleep %dms" % rule["slow_ms"])
    apps = [render_append(a, ctx_text) for a in rule["appends"]]
    if rule.get("fail") and rule.get("fail_lazy"):
        # the closure fails while its result is being produced: the error arrives as (an item of) the returned value -
        # a closure error all the same: nothing of the call is emitted, the instance stops
        lines += apps
        lines.append(rule["fail_lazy"])
        return "\n      ".join(lines)
    if rule.get("fail"):
        k = min(rule.get("fail_at", 0), len(apps))
        apps = apps[:k] + ['error make {msg: "boom"}'] + apps[k:]
    lines += apps
    lines.append(rule["ret_nu"] if rule.get("ret_nu") is not None else "null")
    return "\n      ".join(lines)


def render_handler(spec, ctx_text, id_text):
    """the configuration script of `<name>.register`"""
    if spec.get("raw"):
        return spec["raw"]
    if spec.get("invalid") == "syntax":
        return "{ run: {|frame| "
    if spec.get("invalid") == "norun":
        return '{ resume_from: "tail" }'
    if spec.get("invalid") == "notclosure":
        return '{ run: 5 }'
    # options that do not parse: the registration is refused (one `<name>.unregistered` naming it), nothing is started
    if spec.get("invalid") == "badresume":
        return '{ run: {|frame| "x"}, resume_from: "nonsense" }'
    if spec.get("invalid") == "badpulse":
        return '{ run: {|frame| "x"}, pulse: "often" }'
    if spec.get("invalid") == "badttl":
        return '{ run: {|frame| "x"}, return_options: {ttl: "nonsense"} }'
    if spec.get("invalid") == "badsuffix":
        return '{ run: {|frame| "x"}, return_options: {suffix: 5} }'
    out = ["$env.n = %d" % spec.get("env0", 0), "{", "  run: {|frame|", "    $env.n = $env.n + 1"]
    out.append('    if $frame.topic == "xs.barrier" {\n      "b"\n    }')       # the runner's quiescence barrier
    first = False
    closed = False
    for r in spec["rules"]:
        body = render_rule_body(r, ctx_text)
        if r["topic"] == "":
            if first:
                out.append("    if true {\n      %s\n    }" % body)
            else:
                out[-1] += " else {\n      %s\n    }" % body
            closed = True
            break
        cond = "$frame.topic == %s" % nu_str(r["topic"])
        if first:
            out.append("    if %s {\n      %s\n    }" % (cond, body))
        else:
            out[-1] += " else if %s {\n      %s\n    }" % (cond, body)
        first = False
    if first and not closed:
        out.append("    null")
    out.append("  }")
    out.append("  " + NU_MODULES)
    res = spec.get("resume", "tail")
    if isinstance(res, dict):
        out.append("  resume_from: %s" % nu_str(id_text(res["after"])))
    elif not spec.get("resume_default"):      # left out: the default is tail
        out.append("  resume_from: %s" % nu_str(res))
    if spec.get("pulse"):
        out.append("  pulse: %d" % spec["pulse"])
    ro = []
    if spec.get("suffix"):
        ro.append("suffix: %s" % nu_str(spec["suffix"]))
    if spec.get("ttl"):
        ro.append("ttl: %s" % nu_str(spec["ttl"]))
    if ro:
        out.append("  return_options: {%s}" % ", ".join(ro))
    out.append("}")
    return "\n".join(out)


CMD_VALUES = [  # (nu expression of one value, JSON text the model expects as content)
    ('"a"', '"a"'), ("2", "2"), ('$"v($env.n)"', '"v{n}"'), ("{k: 1}", '{"k":1}'), ("true", "true")] + SCOPE_PROBES + [MODULE_CALL]


def render_command(spec, ctx_text):
    """the configuration script of `<name>.define`"""
    if spec.get("invalid"):
        return "{ run: {|frame| "
    lines = ["{", "  run: {|frame|", "    $env.n = ($env.n? | default 0) + 1"]
    for a in spec["appends"]:
        if a.get("ext"):
            # an external producer writing its output in pieces: a byte stream with short reads
            sh = "; sleep 0.03; ".join("printf %s" % x for x in a["ext"])
            lines.append("    ^sh -c %s | .append %s" % (nu_str(sh), a["topic"]))
        else:
            lines.append("    " + render_append(a, ctx_text))
    vals = [v[0] for v in spec["values_nu"]]
    if spec.get("fail") == "eager":
        lines.append('    error make {msg: "boom"}')
    if spec.get("fail") == "mid":
        k = spec.get("fail_at", 0)
        items = " ".join(vals) if vals else ""
        lines.append('    [%s] | enumerate | each {|x| if $x.index == %d { error make {msg: "boom"} } else { $x.item } }' % (items + " 0", k))
    elif spec.get("shape") == "scalar" and len(vals) == 1:
        lines.append("    " + vals[0])
    elif spec.get("shape") == "null":
        lines.append("    null")
    else:
        lines.append("    [%s]" % " ".join(vals))
    lines.append("  }")
    lines.append("  " + NU_MODULES)
    ro = []
    if spec.get("suffix"):
        ro.append("suffix: %s" % nu_str(spec["suffix"]))
    if spec.get("ttl"):
        ro.append("ttl: %s" % nu_str(spec["ttl"]))
    if ro:
        lines.append("  return_options: {%s}" % ", ".join(ro))
    lines.append("}")
    return "\n".join(lines)


def command_model(spec, ctxs):
    """the model's view of a definition's behaviour"""
    vals = [v[1] for v in spec.get("values_nu", [])]
    fail = bool(spec.get("fail"))
    if spec.get("fail") == "eager":
        vals = []
    elif spec.get("fail") == "mid":
        vals = (vals + ["0"])[:spec.get("fail_at", 0)]
    elif spec.get("shape") == "null":
        vals = []
    apps = []
    for a in spec.get("appends", []):
        apps.append({"topic": a["topic"], "meta": a.get("meta"), "ttl": a.get("ttl"),
                     "ctx": ctxs[a["ctx_ref"]] if a.get("ctx_ref") is not None else None,
                     "content": "".join(a["ext"]) if a.get("ext") else a.get("content")})
    return {"values": vals, "fail": fail, "appends": apps}


def render_generator(spec):
    k = spec["kind"]
    if k == "raw":
        return spec["expr"]
    if k == "list":
        return "[%s] | each {|x| $x}" % " ".join(nu_str(x) for x in spec["strings"])
    if k == "single":
        return nu_str(spec["strings"][0])
    if k == "duplex":
        return 'each {|x| $x}'
    if k == "duplex_first":
        return 'each {|x| $x} | first 1'
    if k == "mixed":          # values that are not strings produce nothing
        return "[1 %s 2.5 {a: 1}] | each {|x| $x}" % " ".join(nu_str(x) for x in spec["strings"])
    if k == "unparsable":
        return "[1 2"
    return "[] | each {|x| $x}"


# ---------------------------------------------------------------------------------------------
# scenario generator

TOPICS = ["ping", "a", "b.c", "tick"]


class Gen:
    def __init__(self, seed, profile="mixed"):
        self.r = random.Random(seed)
        self.profile = profile
        self.steps = []
        self.nctx = self.r.choice([0, 1, 2, 2])
        # "h" twice: same-name traffic is what replaces and unregisters; "h.x": a name that extends another one by a
        # dotted part (its `.register` starts with "h." and ends with "register")
        self.names = ["h", "h", "g.h", "k", "h.x"]
        self.n_append = 0
        self.handlers = []   # (step index, name, ctx)

    def ctx(self):
        return self.r.randint(0, self.nctx)

    def rule(self, topic, history_ok):
        r = self.r
        apps = []
        for _ in range(r.choice([0, 0, 1, 1, 2, 3])):
            m = r.choice(METAS) if r.random() > 0.05 else DEEP_META
            # now and then an output the store refuses outside the zero context (`xs.context`), and a --context naming a
            # well-formed id that is no context at all: the handler's own context is what counts
            apps.append({"topic": r.choice(["out1", "out2", "o.x"] * 6 + ["xs.context", "n\x00l"]), "meta_nu": m[0], "meta": m[1],
                         "ttl": r.choice(OUT_TTLS) if history_ok else r.choice(OUT_TTLS + ["head:1", "head:2"]),
                         "ctx_ref": r.choice([None, None, None, r.randint(0, self.nctx), "bogus"]),
                         "content": r.choice([None, "c", "c{n}", "x y"])})
        ret = r.choice(RETS + SCOPE_PROBES)
        fail = r.random() < 0.12
        lazy = r.choice([None, None, '[1 2] | each {|x| error make {msg: "boom"}}', '[1 2] | each {|x| error make {msg: "boom"}} | first'])
        return {"topic": topic, "appends": apps, "ret_nu": ret[0], "ret": ret[1], "fail": fail, "fail_lazy": lazy if fail else None,
                "fail_at": r.randint(0, 3), "slow_ms": r.choice([0, 0, 0, 20, 40])}

    def handler_spec(self, history_ok, name="h"):
        r = self.r
        if r.random() < 0.1:
            return {"invalid": r.choice(["syntax", "norun", "notclosure", "badresume", "badpulse", "badttl", "badsuffix"]), "rules": []}
        rules = [self.rule(t, history_ok) for t in r.sample(TOPICS, r.randint(1, 3))]
        # a react-to-everything rule only under the name "h": two such handlers of different names in
        # one context would answer each other for ever (that is not self-feeding, and never settles)
        if name == "h" and r.random() < 0.45:
            rules.append(self.rule("", history_ok))
        if r.random() < 0.15:
            # the handler unregisters itself: the request it appends carries its own id
            r.choice(rules)["appends"].append({"topic": name + ".unregister", "meta_nu": None, "meta": None, "ttl": None,
                                               "ctx_ref": None, "content": None})
        res = r.choice(["tail", "tail", "head"] + (["after"] if self.n_append else [])) if history_ok else "tail"
        if res == "after":
            cands = [i for i, s in enumerate(self.steps) if s["k"] == "append"]
            res = {"after": r.choice(cands)}
        return {"rules": rules, "resume": res, "resume_default": res == "tail" and r.random() < 0.3, "env0": r.choice([0, 0, 5]),
                "suffix": r.choice([None, None, ".x", ".res.y", "-r", "x"]),
                "ttl": r.choice([None, None, "forever", "time:600000"] + ([] if history_ok else ["head:1", "head:2", "ephemeral"]))}

    def step_append(self):
        r = self.r
        m = r.choice([None, None, None, {"k": 1}, {"handler_id": "zzz"}])
        self.steps.append({"k": "append", "topic": r.choice(TOPICS + ["zzz"]), "ctx": self.ctx(), "meta": m,
                           "content": r.choice([None, None, "body"]), "ttl": r.choice([None, None, None, "ephemeral"])})
        self.n_append += 1

    def step_burst(self):
        r = self.r
        ws = []
        for _ in range(r.randint(2, 4)):
            ws.append([{"topic": r.choice(TOPICS), "ctx": self.ctx(), "meta": None, "ttl": None} for _ in range(r.randint(2, 6))])
        self.steps.append({"k": "burst", "writers": ws})

    CMD_POOL = None

    def command_spec(self):
        r = self.r
        # now and then the very same definition again (byte-identical script): under the same name in another context, or
        # as a re-definition in the same one - two definitions all the same, each with its own id
        prev = [st["spec"] for st in self.steps if st["k"] == "define" and not st["spec"].get("invalid")]
        if prev and r.random() < 0.3:
            return json.loads(json.dumps(r.choice(prev)))
        if r.random() < 0.12:
            return {"invalid": True, "appends": [], "values_nu": []}
        # a small pool, so that byte-identical definitions turn up under one name in two contexts
        pool = [
            {"values_nu": [CMD_VALUES[0], CMD_VALUES[1]], "appends": []},
            {"values_nu": [CMD_VALUES[2]], "appends": [], "shape": "scalar"},
            {"values_nu": [], "appends": [], "shape": "null"},
            {"values_nu": [CMD_VALUES[0], CMD_VALUES[3], CMD_VALUES[4]], "appends": [], "fail": "mid", "fail_at": 1},
            {"values_nu": [CMD_VALUES[1]], "appends": [], "fail": "eager"},
            {"values_nu": [CMD_VALUES[2], CMD_VALUES[0]], "appends": [], "suffix": ".r", "ttl": "time:600000"},
            # the two return options are independent: a TTL without a suffix, a suffix without a TTL
            {"values_nu": [CMD_VALUES[0], CMD_VALUES[2]], "appends": [], "ttl": "time:600000"},
            {"values_nu": [CMD_VALUES[1]], "appends": [], "suffix": ".s"},
            {"values_nu": [CMD_VALUES[5], CMD_VALUES[6]], "appends": []},
            {"values_nu": [CMD_VALUES[7], CMD_VALUES[0]], "appends": []},
        ]
        sp = json.loads(json.dumps(r.choice(pool)))
        if r.random() < 0.3 and not sp.get("fail") and sp.get("shape") is None:
            sp["values_nu"] = sp["values_nu"] + [list(x) for x in SCOPE_PROBES]
        if r.random() < 0.4:
            m = r.choice([None, ('{k: "v"}', [["k", '"v"']]), ('{command_id: "zz", frame_id: "me"}', [["command_id", '"zz"'], ["frame_id", '"me"']])])
            sp["appends"].append({"topic": r.choice(["out1", "o.x"]), "meta_nu": m[0] if m else None, "meta": m[1] if m else None,
                                  "ttl": r.choice([None, "forever"]), "ctx_ref": r.choice([None, None, r.randint(0, self.nctx)]),
                                  "content": r.choice([None, "c", "c{n}"])})
        if r.random() < 0.25:
            sp["appends"].append({"topic": "ext", "ext": r.choice([["aaa", "bbb"], ["x", "y", "z"]]), "meta": None})
        return sp

    def generator_spec(self):
        r = self.r
        k = r.choice(["list", "list", "single", "empty", "duplex", "duplex", "duplex_first", "nocontent", "mixed", "unparsable"])
        n = 1 if k == "single" else r.randint(1, 3)
        return {"kind": k, "strings": [r.choice(["a", "b c", "zz"]) for _ in range(n)] if k in ("list", "single", "mixed") else [],
                "duplex_false": k in ("list", "single") and r.random() < 0.3}

    def build_services(self):
        """commands and generators (C18 / C19): defines, calls (sequential and concurrent), spawns, sends, restarts"""
        r = self.r
        cnames, gnames = ["c", "c", "d.e", "c.x"], ["g", "g", "s.t", "g.z"]
        for c in range(self.nctx + 1):
            self.steps.append({"k": "append", "topic": "tick", "ctx": c, "meta": None, "content": None, "ttl": None})
        if r.random() < 0.4:
            for _ in range(r.randint(1, 3)):
                self.steps.append({"k": "define", "name": r.choice(cnames), "ctx": self.ctx(), "spec": self.command_spec()})
            self.steps.append({"k": "call", "name": r.choice(cnames), "ctx": self.ctx()})
        self.steps.append({"k": "serve"})
        want_gen = self.profile in ("gen", "services")
        want_cmd = self.profile in ("cmd", "services")
        spawned = []
        for _ in range(r.randint(8, 18)):
            x = r.random()
            if want_cmd and x < 0.25:
                self.steps.append({"k": "define", "name": r.choice(cnames), "ctx": self.ctx(), "spec": self.command_spec()})
                if r.random() < 0.7:
                    self.steps.append({"k": "settle", "ms": 120})
            elif want_cmd and x < 0.55:
                self.steps.append({"k": "call", "name": r.choice(cnames), "ctx": self.ctx()})
            elif want_cmd and x < 0.65:
                ws = [[{"topic": r.choice(cnames) + ".call", "ctx": self.ctx(), "meta": None, "ttl": None} for _ in range(r.randint(1, 3))]
                      for _ in range(r.randint(2, 3))]
                self.steps.append({"k": "burst", "writers": ws})
            elif want_gen and x < 0.80 and len(spawned) < 4:
                name, c = r.choice(gnames), self.ctx()
                sp = self.generator_spec()
                dup = any(n == name and cc == c for n, cc, _ in spawned)
                self.steps.append({"k": "spawn", "name": name, "ctx": c, "spec": sp})
                # after a spawn for a name that is running already, wait through the next restart (a second after a stop):
                # the task that restarts must still be the accepted one
                self.steps.append({"k": "sleep", "ms": 1400} if dup else {"k": "settle", "ms": 150})
                spawned.append((name, c, sp))
            elif want_gen and x < 0.90 and spawned:
                name, c, sp = r.choice(spawned)
                self.n_send = getattr(self, "n_send", 0) + 1
                self.steps.append({"k": "send", "name": name, "ctx": r.choice([c, c, self.ctx()]), "content": "s%d;" % self.n_send})
            elif x > 0.93:
                self.steps.append({"k": "settle"})
                self.steps.append({"k": "restart"})
            else:
                self.step_append()
        if r.random() < 0.5:
            self.steps.append({"k": "settle"})
            self.steps.append({"k": "restart"})
            if want_cmd:
                for _ in range(r.randint(1, 3)):
                    self.steps.append({"k": "call", "name": r.choice(cnames), "ctx": self.ctx()})
        self.steps.append({"k": "settle", "ms": 400})
        return {"nctx": self.nctx, "steps": self.steps}

    def build(self):
        if self.profile in ("cmd", "gen", "services"):
            return self.build_services()
        r = self.r
        history_ok = self.profile != "ttl"
        for c in range(self.nctx + 1):                 # every context holds a `tick` from the start (scope probes)
            self.steps.append({"k": "append", "topic": "tick", "ctx": c, "meta": None, "content": None, "ttl": None})
            self.n_append += 1
        for _ in range(r.choice([0, 0, 2, 5])):       # a pre-existing history
            self.step_append()
        self.steps.append({"k": "serve"})
        n = r.randint(6, 16)
        for _ in range(n):
            x = r.random()
            if x < 0.22 or not self.handlers:
                name, c = r.choice(self.names), self.ctx()
                spec = self.handler_spec(history_ok, name)
                replaying = spec.get("resume") not in (None, "tail") and not spec.get("invalid") and self.n_append and r.random() < 0.6
                if replaying:
                    # a handler that resumes from history, and clients appending while its replay is still under way (every
                    # historical scan is held before its first frame): those frames have ids below its threshold marker's and
                    # are handed to it after the marker - each once, like any other
                    self.steps.append({"k": "park_hist", "ms": r.choice([120, 200])})
                self.handlers.append((len(self.steps), name, c))
                self.steps.append({"k": "register", "name": name, "ctx": c, "spec": spec})
                if replaying:
                    self.steps.append({"k": "sleep", "ms": 40})
                    for _ in range(r.randint(1, 3)):
                        self.steps.append({"k": "append", "topic": r.choice(TOPICS), "ctx": c, "meta": None, "content": None, "ttl": None})
                        self.n_append += 1
                    self.steps.append({"k": "park_hist", "ms": 0})
                    self.steps.append({"k": "settle"})
                elif r.random() < 0.12:
                    # a stop request right behind the registration, committed while the handler starts up
                    self.steps.append({"k": "unregister", "name": name, "ctx": c, "park_ms": r.choice([80, 200])})
                    self.steps.append({"k": "settle", "ms": 400})
                elif r.random() < 0.85:
                    self.steps.append({"k": "settle"})
            elif x < 0.62:
                self.step_append()
                if r.random() < 0.5:
                    self.steps.append({"k": "settle"})
            elif x < 0.72:
                self.step_burst()
            elif x < 0.80:
                _, name, c = r.choice(self.handlers)
                if self.profile == "restart" and r.random() < 0.4:
                    self.steps.append({"k": "settle"})
                    self.steps.append({"k": "unregister", "name": name, "ctx": c, "kill": True})
                else:
                    self.steps.append({"k": "unregister", "name": name, "ctx": c})
                    self.steps.append({"k": "settle"})
            elif x < 0.90 and self.profile in ("mixed", "restart"):
                self.steps.append({"k": "settle"})
                self.steps.append({"k": "restart"})
            else:
                self.step_append()
        if self.profile == "restart":
            self.steps.append({"k": "settle"})
            self.steps.append({"k": "restart"})
            for _ in range(r.randint(2, 5)):
                self.step_append()
        self.steps.append({"k": "settle"})
        return {"nctx": self.nctx, "steps": self.steps}


def gen_scenario(seed, profile="mixed"):
    sc = Gen(seed, profile).build()
    sc["name"] = "gen-%s-%d" % (profile, seed)
    sc["race_ping"] = seed % 2 == 0
    return sc


# ---------------------------------------------------------------------------------------------
# runner

SCRATCH = os.environ.get("XSV_SCRATCH", "/dev/shm/xsv-serve" if os.path.isdir("/dev/shm") else "/var/tmp/xsv-serve")


def frame_op(kind, topic, ctx_hex, meta=None, ttl=None, content=None):
    op = {"op": kind, "topic": hx(topic), "ctx": ctx_hex, "meta": json.dumps(meta) if meta is not None else None,
          "ttl": ttl, "hash": None}
    if content is not None:
        op["op"] = "append_content"
        op["content"] = content
    return op


def run_impl(sc, keep_dir=False, settle_ms=250):
    """returns {"ctxs": [hex...], "epochs": [{"stored": [...], "tap": [...], "sync": [...]}], "steps": [...per step obs],
    "scripts": {step index: text}, "crash": str|None}"""
    d = os.path.join(SCRATCH, "%d-%s-%s" % (os.getpid(), threading.get_ident(), hashlib.sha1(sc["name"].encode()).hexdigest()[:8]))
    shutil.rmtree(d, ignore_errors=True)
    os.makedirs(d)
    out = {"ctxs": [ZERO], "epochs": [], "steps": [], "scripts": {}, "crash": None}
    step_ids = {}
    w = None

    def ctx_hex(i):
        return out["ctxs"][i]

    def ctx_text(i):
        return hex_to_b36(ctx_hex(i))

    def id_text(step_i):
        return hex_to_b36(step_ids.get(step_i, ZERO))

    raw_regs = set()     # ids of `.register` frames whose script was given verbatim (no barrier rule)

    def quiesce(max_s=12.0):
        """quiescence that does not rely on silence (a handler may work for a long time without writing anything):
        a barrier frame is appended to every context and every instance that is active answers it - handlers work
        through their subscription in order, so the answer means everything before the barrier has been dealt with"""
        bar = {}
        for c in out["ctxs"]:
            o = w.call(frame_op("append", "xs.barrier", c))
            if isinstance(o.get("ok"), dict):
                bar[c] = hex_to_b36(o["ok"]["id"])
        deadline = time.time() + max_s
        while time.time() < deadline:
            frames = w.call({"op": "tap"})["ok"]["frames"]
            active, answered = {}, set()
            for f in frames:
                m = meta_of(f) or {}
                hid = m.get("handler_id")
                if not is_id_text(hid):
                    continue
                t = unhx(f["topic"])
                if t.endswith(".registered") and "tail" in m:
                    active[hid] = f["ctx"]
                elif t.endswith(".unregistered"):
                    active.pop(hid, None)
                elif m.get("frame_id") == bar.get(f["ctx"]):
                    answered.add(hid)
            waiting = [h for h, c in active.items() if h not in answered and b36_to_hex(h) not in raw_regs and c in bar]
            if not waiting:
                break
            time.sleep(0.05)
        w.call({"op": "settle", "ms": 150, "max_ms": 4000})     # commands / generators: short-lived, no barrier

    def close_epoch():
        ep = out["epochs"][-1]
        quiesce()
        t = w.call({"op": "tap"})["ok"]
        ep["tap"], ep["sync"] = t["frames"], t["sync"]

    try:
        w = S.Worker()
        w.call({"op": "open", "dir": d, "now": None, "gated": False})
        for _ in range(sc["nctx"]):
            f = w.call(frame_op("append", "xs.context", ZERO))["ok"]
            out["ctxs"].append(f["id"])
        serving = False
        for i, st in enumerate(sc["steps"]):
            k = st["k"]
            obs = None
            if k == "serve":
                stored = w.call({"op": "stream"})["ok"]
                out["epochs"].append({"stored": stored, "tap": [], "sync": [], "first_step": i})
                w.call({"op": "serve_all", "wait_ms": 150, "race_ping": bool(sc.get("race_ping"))})
                serving = True
            elif k == "append":
                obs = w.call(frame_op("append", st["topic"], ctx_hex(st["ctx"]), st.get("meta"), st.get("ttl"), st.get("content")))
                if isinstance(obs.get("ok"), dict):
                    step_ids[i] = obs["ok"]["id"]
            elif k == "burst":
                ws = [[{"topic": hx(f["topic"]), "ctx": ctx_hex(f["ctx"]), "meta": None, "ttl": f.get("ttl"), "hash": None} for f in wl]
                      for wl in st["writers"]]
                obs = w.call({"op": "burst", "writers": ws})
            elif k == "register":
                text = render_handler(st["spec"], ctx_text, id_text)
                out["scripts"][i] = text
                obs = w.call(frame_op("append", st["name"] + ".register", ctx_hex(st["ctx"]), content=text))
                if isinstance(obs.get("ok"), dict):
                    step_ids[i] = obs["ok"]["id"]
                    if st["spec"].get("raw"):
                        raw_regs.add(obs["ok"]["id"])
            elif k == "define":
                text = render_command(st["spec"], ctx_text)
                out["scripts"][i] = text
                obs = w.call(frame_op("append", st["name"] + ".define", ctx_hex(st["ctx"]), content=text))
                if isinstance(obs.get("ok"), dict):
                    step_ids[i] = obs["ok"]["id"]
            elif k == "call":
                obs = w.call(frame_op("append", st["name"] + ".call", ctx_hex(st["ctx"])))
                if isinstance(obs.get("ok"), dict):
                    step_ids[i] = obs["ok"]["id"]
            elif k == "spawn":
                sp = st["spec"]
                # `duplex: false` spelled out is the same as leaving it out
                meta = {"duplex": True} if sp["kind"] in ("duplex", "duplex_first") else ({"duplex": False} if sp.get("duplex_false") else None)
                if sp["kind"] == "nocontent":
                    obs = w.call(frame_op("append", st["name"] + ".spawn", ctx_hex(st["ctx"]), meta))
                else:
                    text = render_generator(sp)
                    out["scripts"][i] = text
                    obs = w.call(frame_op("append", st["name"] + ".spawn", ctx_hex(st["ctx"]), meta, content=text))
                if isinstance(obs.get("ok"), dict):
                    step_ids[i] = obs["ok"]["id"]
            elif k == "send":
                obs = w.call(frame_op("append", st["name"] + ".send", ctx_hex(st["ctx"]), content=st["content"]))
            elif k == "unregister" and st.get("kill"):
                # crash between the stored request and the handler's announcement: the process is killed when the
                # `.unregistered` append begins
                close_epoch()
                w.call({"op": "arm_kill", "point": "append.enter", "suffix": ".unregistered"})
                try:
                    w.call(frame_op("append", st["name"] + ".unregister", ctx_hex(st["ctx"])))
                    w.call({"op": "settle", "ms": 400, "max_ms": 3000})
                    w.call({"op": "exit", "how": "kill"})      # nobody answered the request: plain kill
                except S.WorkerDied:
                    pass
                w.close()
                w = S.Worker()
                w.call({"op": "open", "dir": d, "now": None, "gated": False})
                stored = w.call({"op": "stream"})["ok"]
                out["epochs"].append({"stored": stored, "tap": [], "sync": [], "first_step": i})
                w.call({"op": "serve_all", "wait_ms": 150, "race_ping": bool(sc.get("race_ping"))})
                w.call({"op": "settle", "ms": settle_ms, "max_ms": 8000})
            elif k == "unregister" and st.get("park_ms"):
                # the request is held inside the append lock while the handler it is aimed at starts up
                op = frame_op("append", st["name"] + ".unregister", ctx_hex(st["ctx"]))
                op["park_ms"] = st["park_ms"]
                obs = w.call(op)
            elif k == "unregister":
                obs = w.call(frame_op("append", st["name"] + ".unregister", ctx_hex(st["ctx"])))
            elif k == "park_hist":
                obs = w.call({"op": "park_hist", "ms": st.get("ms", 0)})
            elif k == "sleep":
                time.sleep(st.get("ms", 100) / 1000.0)
            elif k == "settle":
                if serving:
                    obs = w.call({"op": "settle", "ms": st.get("ms", settle_ms), "max_ms": 8000})
            elif k == "restart":
                close_epoch()
                try:
                    w.call({"op": "exit", "how": "kill"})
                except S.WorkerDied:
                    pass
                w.close()
                w = S.Worker()
                w.call({"op": "open", "dir": d, "now": None, "gated": False})
                stored = w.call({"op": "stream"})["ok"]
                out["epochs"].append({"stored": stored, "tap": [], "sync": [], "first_step": i})
                w.call({"op": "serve_all", "wait_ms": 150, "race_ping": bool(sc.get("race_ping"))})
                w.call({"op": "settle", "ms": settle_ms, "max_ms": 8000})
            out["steps"].append(obs)
        if out["epochs"]:
            close_epoch()
        out["step_ids"] = step_ids
    except S.WorkerDied as e:
        out["crash"] = str(e)[-600:]
        out["step_ids"] = step_ids
    finally:
        if w is not None:
            w.close()
        if not keep_dir:
            shutil.rmtree(d, ignore_errors=True)
    return out


# ---------------------------------------------------------------------------------------------
# model side

class Driver:
    def __init__(self):
        self.p = subprocess.Popen([DRV, "serve"], stdin=subprocess.PIPE, stdout=subprocess.PIPE, text=True, bufsize=1)
        self.lock = threading.Lock()

    def ask(self, q):
        with self.lock:
            self.p.stdin.write(json.dumps(q) + "\n")
            self.p.stdin.flush()
            line = self.p.stdout.readline()
        if not line:
            raise RuntimeError("xsdrv serve died")
        return json.loads(line)

    def close(self):
        try:
            self.p.kill(); self.p.wait(timeout=5)
        except Exception:
            pass
        for f in (self.p.stdin, self.p.stdout):
            try:
                f.close()
            except Exception:
                pass


ID_KEYS = ("handler_id", "frame_id", "source_id", "command_id")


def model_meta(meta_str):
    """the implementation's meta (JSON text of an object) as the model's pairs: key -> JSON text of the
    value; values that are id texts become the model's `id:<n>`"""
    if meta_str is None:
        return None
    try:
        m = json.loads(meta_str)
    except Exception:
        return [["<unparsed>", meta_str]]
    if not isinstance(m, dict):
        return [["<not-an-object>", json.dumps(m)]]
    out = []
    for k, v in m.items():
        if is_id_text(v):
            out.append([k, "id:%d" % int(v, 36)])
        else:
            out.append([k, json.dumps(v, separators=(",", ":"), ensure_ascii=False)])
    return out


def sframe(f):
    """tap / stream frame -> model frame"""
    return {"topic": unhx(f["topic"]), "ctx": f["ctx"], "id": f["id"], "meta": model_meta(f.get("meta")),
            "ttl": f.get("ttl"), "content": f.get("content")}


FRAMES_BY_ID = {}      # int id -> tap frame of the epoch under analysis (for `$frame` return values)


def frame_record(f):
    """what nushell sees as `$frame` (frame_to_value), as JSON"""
    rec = {"id": hex_to_b36(f["id"]), "topic": unhx(f["topic"]), "context_id": hex_to_b36(f["ctx"])}
    if f.get("hash"):
        rec["hash"] = f["hash"]
    if f.get("meta"):
        try:
            rec["meta"] = json.loads(f["meta"])
        except Exception:
            rec["meta"] = f["meta"]
    return rec


def canon_out(f, known_ids):
    """comparable form of an output frame (model or implementation side, both as model frames)"""
    meta = {}
    for k, v in (f.get("meta") or []):
        if k == "frame_id" and isinstance(v, str) and v.startswith("id:") and int(v[3:]) not in known_ids:
            v = "id:<marker>"
        if k == "error":
            v = "<error>"
        meta[k] = v
    content = f.get("content")
    if content == '"{frame}"':                         # model side: the closure returned the frame it was handed
        fid = dict((k, v) for k, v in (f.get("meta") or [])).get("frame_id", "")
        trig = FRAMES_BY_ID.get(int(fid[3:])) if fid.startswith("id:") and fid[3:].isdigit() else None
        content = json.dumps(frame_record(trig), sort_keys=True) if trig else "<frame:marker>"
    elif isinstance(content, str) and content.startswith("{") and '"context_id"' in content:
        try:
            rec = json.loads(content)
            if isinstance(rec, dict) and {"id", "topic", "context_id"} <= set(rec):
                content = "<frame:marker>" if rec["topic"] in ("xs.threshold", "xs.pulse") else json.dumps(rec, sort_keys=True)
        except Exception:
            pass
    if isinstance(content, str):
        own = hex_to_b36(f["ctx"])
        if content == '"{scope:cat}"':                 # model side: `.cat` shows the script's own context only
            content = json.dumps("cat:" + own)
        elif content == '"{scope:head}"':              # model side: `.head tick` finds the tick of its own context
            content = json.dumps("head:" + own)
    ttl = f.get("ttl") or "forever"
    if f["topic"] == "xs.context":
        ttl = "forever"            # the store keeps registrations forever whatever TTL was asked for (C07)
    return (f["topic"], f["ctx"], tuple(sorted(meta.items())), ttl, content)


# ---------------------------------------------------------------------------------------------
# oracles

def split_tap(tap):
    """(history replayed to the tap, live part) - the tap's own threshold marker separates them"""
    for i, f in enumerate(tap):
        if unhx(f["topic"]) == "xs.threshold" and f["ctx"] == ZERO and f.get("ttl") == "ephemeral":
            return tap[:i], tap[i + 1:]
    return tap, []


def meta_of(f):
    try:
        m = json.loads(f["meta"]) if f.get("meta") else None
        return m if isinstance(m, dict) else None
    except Exception:
        return None


def loop_announcements(live):
    """what the handler serve loop announced, in order: [kind, handler id hex, frame id hex | None] with kind
    registered / rejected (script error) / superseded (a tail handler replaced before it subscribed)"""
    out = []
    registered = set()
    for f in live:
        t = unhx(f["topic"])
        m = meta_of(f) or {}
        hid = m.get("handler_id")
        if not is_id_text(hid):
            continue
        h = b36_to_hex(hid)
        if t.endswith(".registered") and "tail" in m:
            out.append(["registered", h, None])
            registered.add(h)
        elif t.endswith(".unregistered") and "frame_id" not in m and "error" in m:
            out.append(["rejected", h, None])
        elif t.endswith(".unregistered") and h not in registered and is_id_text(m.get("frame_id")) and "error" not in m:
            out.append(["superseded", h, b36_to_hex(m["frame_id"])])
    return out


def announcements_ok(starts, got):
    """the model's start infos against the observed announcements; returns None or the first difference"""
    if len(starts) != len(got):
        return "count: model %d, impl %d" % (len(starts), len(got))
    for s, g in zip(starts, got):
        if s["hid"] != g[1]:
            return "order / identity: model %s, impl %s" % (s["hid"][-6:], g[1][-6:])
        if not s["valid"]:
            if g[0] != "rejected":
                return "%s: an invalid script must be rejected, impl %s" % (s["hid"][-6:], g[0])
        elif g[0] == "registered":
            pass            # whether it was superseded later is the instance check's business
        elif g[0] == "superseded":
            if s["superseded_by"] is None or s["superseded_by"] != g[2]:
                return "%s: superseded by %s, model says %s" % (s["hid"][-6:], (g[2] or "")[-6:], (s["superseded_by"] or "none")[-6:])
        else:
            return "%s: a valid script was rejected" % s["hid"][-6:]
    return None


def handler_cfg(st, reg_frame):
    sp = st["spec"]
    return {"id": reg_frame["id"], "ctx": reg_frame["ctx"], "name": st["name"], "suffix": sp.get("suffix") or ".out",
            "ttl": sp.get("ttl")}


def model_rules(sp, ctxs):
    out = [] if sp.get("raw") else [{"topic": "xs.barrier", "ret": '"b"', "fail": False, "appends": []}]
    for r in sp["rules"]:
        out.append({"topic": r["topic"], "ret": r["ret"], "fail": bool(r.get("fail")),
                    "appends": [{"topic": a["topic"], "meta": a["meta"], "ttl": a.get("ttl"),
                                 "ctx": (b36_to_hex(BOGUS_CTX) if a["ctx_ref"] == "bogus" else ctxs[a["ctx_ref"]]) if a.get("ctx_ref") is not None else None,
                                 "content": a.get("content")} for a in r["appends"]]})
    return out


def analyse(sc, res, drv):
    """findings: list of {"kind", "props", "why", ...} for one executed scenario"""
    fnd = []
    if res.get("crash") is not None:
        return [{"kind": "crash", "props": ["C14", "C15", "C16", "C17"], "why": "worker died", "detail": res["crash"][-300:]}]
    step_ids = res["step_ids"]
    reg_steps = {}      # register frame id -> step
    for i, st in enumerate(sc["steps"]):
        if st["k"] == "register" and i in step_ids:
            reg_steps[step_ids[i]] = (i, st)
    invalid = [rid for rid, (i, st) in reg_steps.items() if st["spec"].get("invalid")]
    for e, ep in enumerate(res["epochs"]):
        hist, live = split_tap(ep["tap"])
        # the tap replays exactly what is stored when the epoch starts
        if [f["id"] for f in hist] != [f["id"] for f in ep["stored"]]:
            fnd.append({"kind": "tap", "props": [], "why": "tap history differs from the stored stream", "epoch": e})
        S_all = hist + live
        known_ids = {int(f["id"], 16) for f in S_all}
        FRAMES_BY_ID.clear()
        FRAMES_BY_ID.update({int(f["id"], 16): f for f in S_all})
        # --- C10: whatever wrote it (client, handler, command, generator), a frame's hash is the sha256 of its content
        # and the content is there when a follower is handed the frame
        for f in live:
            if not f.get("hash"):
                continue
            if f.get("content_present") is False and f.get("ttl") != "ephemeral":
                fnd.append({"kind": "cas", "props": ["C10"], "epoch": e, "frame": f["id"][-6:], "topic": unhx(f["topic"]),
                            "why": "a follower was handed a frame whose content is not in the CAS"})
            elif isinstance(f.get("content"), str):
                want_h = "sha256-" + base64.b64encode(hashlib.sha256(f["content"].encode()).digest()).decode()
                if f["hash"] != want_h:
                    fnd.append({"kind": "hash", "props": ["C10"], "epoch": e, "frame": f["id"][-6:], "topic": unhx(f["topic"]),
                                "why": "the frame's hash is not the sha256 of its content", "hash": f["hash"], "want": want_h})
        # --- C16 / C17: who is started, in which order, announced how
        tails = [rid for rid, (i, st) in reg_steps.items() if not st["spec"].get("invalid") and st["spec"].get("resume", "tail") == "tail"]
        ans = drv.ask({"q": "compact", "history": [sframe(f) for f in hist], "live": [sframe(f) for f in live],
                       "invalid": invalid, "tail": tails})
        starts, nh = ans["starts"], ans["n_history"]
        got = loop_announcements(live)
        diff = announcements_ok(starts, got)
        if diff:
            props = ["C17"] if announcements_ok(starts[:nh], got[:nh]) else ["C16"]
            if e > 0 and "C17" not in props:
                props.append("C17")
            # a retained registration that was not started although its name is registered in another context as well:
            # instances are kept per (context, name), not per name (C16)
            regs_h = {f["id"]: f for f in hist if unhx(f["topic"]).endswith(".register")}
            ctxs_of = {}
            for f in regs_h.values():
                ctxs_of.setdefault(unhx(f["topic"]), set()).add(f["ctx"])
            started_now = {h for k, h, _ in got if k == "registered"}
            for x in starts[:nh]:
                f = regs_h.get(x["hid"])
                if f is not None and x["valid"] and x["hid"] not in started_now and len(ctxs_of.get(unhx(f["topic"]), ())) >= 2 \
                        and "C16" not in props:
                    props.append("C16")
            fnd.append({"kind": "announce", "props": props, "epoch": e, "why": "handlers started / announced differ from the model",
                        "diff": diff, "model": [[x["hid"][-6:], x["valid"], (x["superseded_by"] or "")[-6:]] for x in starts],
                        "impl": [[k, h[-6:], (f or "")[-6:]] for k, h, f in got]})
        # --- C16: subscribed before `.registered` becomes visible
        seen = set()
        for point, hid in ep["sync"]:
            if point == "handler.subscribed":
                seen.add(hid)
            elif point == "registered.broadcast" and hid not in seen:
                fnd.append({"kind": "order", "props": ["C16"], "epoch": e, "handler": hid[-6:],
                            "why": "<name>.registered was visible before the handler had subscribed"})
        # --- C14 / C15: every started instance, replayed on the model
        started = [h for k, h, _ in got if k == "registered"]
        stamped = {}
        for idx, f in enumerate(live):
            m = meta_of(f) or {}
            hid = m.get("handler_id")
            if is_id_text(hid) and not (unhx(f["topic"]).endswith(".registered") and "tail" in m) \
                    and not (unhx(f["topic"]).endswith(".unregistered") and "frame_id" not in m) \
                    and not ["superseded", b36_to_hex(hid), b36_to_hex(m["frame_id"]) if is_id_text(m.get("frame_id")) else None] in got:
                stamped.setdefault(b36_to_hex(hid), []).append(f)
        for hid, fs in stamped.items():
            if hid not in started and hid in reg_steps:
                fnd.append({"kind": "ghost", "props": ["C16", "C17"], "epoch": e, "handler": hid[-6:],
                            "why": "output stamped by a handler that is not active in this epoch", "n": len(fs)})
        for hid in started:
            if hid not in reg_steps:
                continue
            i, st = reg_steps[hid]
            sp = st["spec"]
            # position of this start's `.registered` in the live part
            pos_reg = next((j for j, f in enumerate(live) if unhx(f["topic"]).endswith(".registered")
                            and (meta_of(f) or {}).get("handler_id") == hex_to_b36(hid) and "tail" in (meta_of(f) or {})), None)
            reg_in_live = next((j for j, f in enumerate(live) if f["id"] == hid), None)
            lo = (reg_in_live + 1) if reg_in_live is not None else 0
            reg_frame = next(f for f in S_all if f["id"] == hid)
            cfg = handler_cfg(st, reg_frame)
            res_mode = sp.get("resume", "tail")
            resume = {"after": step_ids.get(res_mode["after"], ZERO)} if isinstance(res_mode, dict) else res_mode
            actual = [canon_out(sframe(f), known_ids) for f in stamped.get(hid, [])]
            for f in stamped.get(hid, []):
                if f.get("hash") and f.get("content_present") is False:
                    fnd.append({"kind": "cas", "props": ["C15", "C10"], "epoch": e, "handler": hid[-6:],
                                "why": "output frame delivered without its content in CAS", "frame": f["id"][-6:]})
            ok, best = False, None
            own_traffic = lambda f: f["ctx"] == cfg["ctx"] and unhx(f["topic"]) in (st["name"] + ".register", st["name"] + ".unregister") \
                and int(f["id"], 16) > int(hid, 16)
            for p in range(lo, pos_reg + 1):
                # a tail handler that announced `.registered` had no registration traffic of its name stored before it
                # subscribed (C16, `started_tail_not_superseded`): later subscription points are not executions of the model
                if resume == "tail" and any(own_traffic(f) for f in (hist + live)[:len(hist) + p]):
                    break
                hpart = [f for f in hist + live[:p] if f.get("ttl") != "ephemeral"]
                q = {"q": "handler", "cfg": cfg, "rules": model_rules(sp, res["ctxs"]), "env0": sp.get("env0", 0),
                     "resume": resume, "hist": [sframe(f) for f in hpart], "live": [sframe(f) for f in live[p:]]}
                m = drv.ask(q)
                want_o = [canon_out(o, known_ids) for o in m["outs"]]
                if want_o == actual:
                    ok = True
                    break
                common = 0
                for a, b in zip(want_o, actual):
                    if a != b:
                        break
                    common += 1
                score = (common, -abs(len(want_o) - len(actual)))
                if best is None or score > best[2]:
                    best = (want_o, m, score)
            if not ok and best is None:
                fnd.append({"kind": "superseded", "props": ["C16"], "epoch": e, "handler": hid[-6:], "name": st["name"],
                            "why": "a tail handler announced <name>.registered although its name had been registered again / unregistered before"})
                continue
            if not ok:
                want_o, m, _ = best
                def trig(l):      # the invocations that left a trace, in order
                    out = []
                    for x in l:
                        t = dict(x[2]).get("frame_id")
                        if not out or out[-1] != t:
                            out.append(t)
                    return out
                props = ["C14"] if trig(want_o) != trig(actual) else ["C15"]
                # the same outputs but for the numbers in their content: what differs is the call counter the closure keeps in
                # its environment - an invocation did not see what an earlier one had set (C14), the outputs themselves are
                # stamped, scoped and ordered as they should be
                if props == ["C15"]:
                    mask = lambda l: [(x[0], x[1], x[2], x[3], re.sub(r"\d+", "#", x[4]) if isinstance(x[4], str) else x[4]) for x in l]
                    if mask(want_o) == mask(actual):
                        props = ["C14"]
                # an expected output that exists under another stamp / context was produced but mis-labelled
                exp_keys = {(x[0], dict(x[2]).get("frame_id")) for x in want_o} - {(x[0], dict(x[2]).get("frame_id")) for x in actual}
                for f in live:
                    mf = sframe(f)
                    fid = dict((k, v) for k, v in (mf.get("meta") or [])).get("frame_id")
                    if (mf["topic"], fid) in exp_keys and f not in stamped.get(hid, []) and "C15" not in props:
                        props.append("C15")
                if any(x[1] != cfg["ctx"] for x in actual):
                    props.append("C06")
                # a scope probe (`.cat` / `.head` inside the script) that saw another context
                probe = lambda l: [x[4] for x in l if isinstance(x[4], str) and x[4].startswith(('"cat:', '"head:'))]
                if probe(want_o) != probe(actual) and "C06" not in props:
                    props.append("C06")
                if len(actual) > len(want_o) and m["state"] == "stopped":
                    props.append("C16")
                # after a restart: invoked for frames that were stored before it came up, which the model's instance (tail, or
                # after an id) is not handed - historical triggers re-executed (C17)
                if e > 0:
                    hist_ids = {int(f["id"], 16) for f in hist}
                    extra = set(trig(actual)) - set(trig(want_o))
                    if any(isinstance(t, str) and t.startswith("id:") and t[3:].isdigit() and int(t[3:]) in hist_ids for t in extra) \
                            and "C17" not in props:
                        props.append("C17")
                # a call the model fails as a whole (its only output for that trigger is the stop announcement with the error)
                # and for which the implementation emitted frames: the call was not all-or-nothing (C15)
                failed = {dict(x[2]).get("frame_id") for x in want_o if x[0] == st["name"] + ".unregistered" and "error" in dict(x[2])}
                if any(dict(x[2]).get("frame_id") in failed and x[0] != st["name"] + ".unregistered" for x in actual) and "C15" not in props:
                    props.append("C15")
                # the stop announcements themselves differ: an instance stopped that had no reason to (or did not stop,
                # or announced it differently) - that is the lifecycle (C16), whatever it did to the invocations
                un = st["name"] + ".unregistered"
                if [(x[0], x[2]) for x in want_o if x[0] == un] != [(x[0], x[2]) for x in actual if x[0] == un] and "C16" not in props:
                    props.append("C16")
                fnd.append({"kind": "outputs", "props": props, "epoch": e, "handler": hid[-6:], "name": st["name"],
                            "why": "the instance's output differs from the model's run over what it was handed",
                            "model": [[x[0], x[2], x[3], x[4]] for x in want_o][:12],
                            "impl": [[x[0], x[2], x[3], x[4]] for x in actual][:12], "model_state": m["state"]})
        fnd += analyse_commands(sc, res, drv, e, hist, live, known_ids)
        fnd += analyse_generators(sc, res, drv, e, hist, live, known_ids)
    return fnd


def analyse_commands(sc, res, drv, e, hist, live, known_ids):
    step_ids = res["step_ids"]
    defs = []
    for i, st in enumerate(sc["steps"]):
        if st["k"] == "define" and i in step_ids:
            sp = st["spec"]
            d = {"id": step_ids[i], "name": st["name"], "valid": not sp.get("invalid"), "suffix": sp.get("suffix") or ".recv",
                 "ttl": sp.get("ttl")}
            d.update(command_model(sp, res["ctxs"]))
            defs.append(d)
    if not defs and not any(st["k"] == "call" for st in sc["steps"]):
        return []
    fnd = []
    ans = drv.ask({"q": "command", "defs": defs, "history": [sframe(f) for f in hist], "live": [sframe(f) for f in live]})
    want = {x["frame"]: [canon_out(o, known_ids) for o in x["outs"]] for x in ans["outs"]}
    # what the implementation produced, per causing frame: a call (frame_id) or a rejected definition (command_id alone)
    got = {}
    for f in live:
        m = meta_of(f) or {}
        if not is_id_text(m.get("command_id")) and "command_id" not in m:
            continue
        if is_id_text(m.get("frame_id")):
            cause = b36_to_hex(m["frame_id"])
        elif is_id_text(m.get("command_id")):
            cause = b36_to_hex(m["command_id"])
        else:
            continue
        got.setdefault(cause, []).append(f)
    all_ids = {f["id"]: f for f in hist + live}
    for cause in sorted(set(want) | set(got)):
        w = want.get(cause, [])
        g = [canon_out(sframe(f), known_ids) for f in got.get(cause, [])]
        if sorted(map(repr, w)) == sorted(map(repr, g)) and [x for x in w if x[0].endswith((".recv", ".complete", ".error", ".r"))] == \
                [x for x in g if x[0].endswith((".recv", ".complete", ".error", ".r"))]:
            # explicit appends are written while the closure runs and may interleave with nothing else of this call;
            # results and the terminal event must be in order
            if w == g:
                continue
        if w == g:
            continue
        cf = all_ids.get(cause)
        props = ["C19"]
        if cf is not None and any(x[1] != cf["ctx"] for x in g if x[0].endswith((".recv", ".complete", ".error"))):
            props.append("C06")
        probe = lambda l: [x[4] for x in l if isinstance(x[4], str) and x[4].startswith(('"cat:', '"head:'))]
        if probe(w) != probe(g) and "C06" not in props:
            props.append("C06")
        if cf is not None and cf in hist and g and not w:
            why = "a call stored before the restart was executed again"
        elif not w and g:
            why = "output for a call that must not run (undefined in the caller's context)"
            props.append("C06")
        else:
            why = "the call's output differs from the model"
        if e > 0:
            props.append("C17")
        for f in got.get(cause, []):
            if f.get("hash") and f.get("content_present") is False:
                props.append("C10")
        if any(a[4] != b[4] for a, b in zip(w, g)) and "C10" not in props and \
                any(a[0] == b[0] == "ext" and a[4] != b[4] for a, b in zip(w, g)):
            props.append("C10")
        fnd.append({"kind": "command", "props": props, "epoch": e, "why": why, "cause": cause[-6:],
                    "cause_topic": unhx(cf["topic"]) if cf else None,
                    "model": [[x[0], x[1][-6:], x[2], x[3], x[4]] for x in w][:10],
                    "impl": [[x[0], x[1][-6:], x[2], x[3], x[4]] for x in g][:10]})
    return fnd


def analyse_generators(sc, res, drv, e, hist, live, known_ids):
    step_ids = res["step_ids"]
    specs = {}
    for i, st in enumerate(sc["steps"]):
        if st["k"] == "spawn" and i in step_ids:
            specs[step_ids[i]] = st
    if not specs:
        return []
    fnd = []
    dup = [sid for sid, st in specs.items() if st["spec"]["kind"] in ("duplex", "duplex_first")]
    bad = [sid for sid, st in specs.items() if st["spec"]["kind"] == "unparsable" or st["spec"].get("parse_fail")]
    ans = drv.ask({"q": "generator", "history": [sframe(f) for f in hist], "live": [sframe(f) for f in live], "duplex": dup,
                   "unparsable": bad})
    acts = ans["startup"] + ans["live"]
    tasks = {}
    want_rej = []
    for a in acts:
        if "start" in a:
            tasks.setdefault(a["start"], a)
        else:
            want_rej.append(canon_out(a["reject"], known_ids))
    props_restart = ["C18", "C17"] if e > 0 else ["C18"]
    # rejections: exactly one `.spawn.error` naming each spawn that cannot be honoured
    got_rej = []
    by_src = {}
    for f in live:
        m = meta_of(f) or {}
        if not is_id_text(m.get("source_id")):
            continue
        if unhx(f["topic"]).endswith(".spawn.error"):
            got_rej.append(canon_out(sframe(f), known_ids))
        else:
            by_src.setdefault(b36_to_hex(m["source_id"]), []).append(f)
    strip = lambda l: sorted((x[0], x[1], tuple((k, v) for k, v in x[2] if k != "reason")) for x in l)
    if strip(want_rej) != strip(got_rej):
        fnd.append({"kind": "spawn-error", "props": props_restart, "epoch": e, "why": "spawn rejections differ from the model",
                    "model": [[x[0], x[1][-6:], x[2]] for x in want_rej], "impl": [[x[0], x[1][-6:], x[2]] for x in got_rej]})
    for sid, fs in by_src.items():
        if sid not in tasks:
            fnd.append({"kind": "generator-ghost", "props": props_restart + ["C06"], "epoch": e, "source": sid[-6:],
                        "why": "frames stamped with a spawn that is not running in this epoch",
                        "impl": [unhx(f["topic"]) for f in fs][:8]})
    for sid, a in tasks.items():
        st = specs.get(sid)
        if st is None:
            continue
        sp = st["spec"]
        obs = by_src.get(sid, [])
        got = [canon_out(sframe(f), known_ids) for f in obs]
        task = {"id": sid, "ctx": a["ctx"], "name": a["name"], "duplex": a["duplex"]}
        for f in obs:
            if f.get("hash") and f.get("content_present") is False:
                fnd.append({"kind": "cas", "props": ["C18", "C10"], "epoch": e, "why": "generator output delivered without its content"})
        if not obs:
            fnd.append({"kind": "generator", "props": props_restart, "epoch": e, "source": sid[-6:], "name": a["name"],
                        "why": "an accepted / restored spawn never started"})
            continue
        if a["duplex"] and sp["kind"] == "duplex_first":
            # a duplex pipeline that ends after its first value: every lifecycle is start, one recv, stop; what an
            # instance is fed are the sends stored after *its own* start (C18), nothing of an earlier lifecycle
            stream_m = [sframe(f) for f in hist + live]
            i = 0
            while i < len(obs):
                topic = unhx(obs[i]["topic"])
                if not topic.endswith(".start"):
                    fnd.append({"kind": "generator", "props": props_restart, "epoch": e, "source": sid[-6:], "name": a["name"],
                                "why": "duplex lifecycle does not begin with start", "impl": [unhx(f["topic"]) for f in obs][:10]})
                    break
                m = drv.ask({"q": "lifecycle", "task": task, "stream": stream_m, "start_id": obs[i]["id"], "prefix": ""})
                fed = m["input"]
                if i + 1 < len(obs) and unhx(obs[i + 1]["topic"]).endswith(".recv"):
                    c = obs[i + 1].get("content") or ""
                    joins = ["".join(fed[:k]) for k in range(1, len(fed) + 1)]
                    if c not in joins:
                        fnd.append({"kind": "generator", "props": props_restart, "epoch": e, "source": sid[-6:], "name": a["name"],
                                    "why": "duplex instance was fed something other than the sends stored after its own start",
                                    "model": fed, "impl": c})
                        break
                    if i + 2 < len(obs) and not unhx(obs[i + 2]["topic"]).endswith(".stop"):
                        fnd.append({"kind": "generator", "props": props_restart, "epoch": e, "source": sid[-6:], "name": a["name"],
                                    "why": "lifecycle differs from start, recv, stop", "impl": [unhx(f["topic"]) for f in obs][:10]})
                        break
                    i += 3
                else:
                    if i + 1 < len(obs):
                        fnd.append({"kind": "generator", "props": props_restart, "epoch": e, "source": sid[-6:], "name": a["name"],
                                    "why": "lifecycle differs from start, recv, stop", "impl": [unhx(f["topic"]) for f in obs][:10]})
                    break
        elif a["duplex"]:
            start = obs[0]
            m = drv.ask({"q": "lifecycle", "task": task, "stream": [sframe(f) for f in hist + live], "start_id": start["id"], "prefix": ""})
            # nushell decides how the byte stream is cut into values (chunks are merged, the last one may be held back):
            # the bytes fed must be the sends' contents, each once, in order
            fed = m["input"]
            want_all, want_min = "".join(fed), "".join(fed[:-1])
            shape_ok = got[:1] == [canon_out(m["frames"][0], known_ids)] and all(x[0] == a["name"] + ".recv" for x in got[1:]) \
                and all(x[1] == a["ctx"] for x in got)
            got_bytes = "".join(x[4] or "" for x in got[1:])
            if not shape_ok or not want_all.startswith(got_bytes) or not got_bytes.startswith(want_min):
                props = list(props_restart)
                if any(True for f in live if unhx(f["topic"]) == a["name"] + ".send" and f["ctx"] != a["ctx"]):
                    props.append("C06")
                fnd.append({"kind": "generator", "props": props, "epoch": e, "source": sid[-6:], "name": a["name"],
                            "why": "duplex instance: what it emitted is not the content of the sends of its context, each once, in order",
                            "model": fed, "impl": [[x[0], x[4]] for x in got][:10]})
        else:
            m = drv.ask({"q": "lifecycle", "task": task, "strings": sp["strings"] if sp["kind"] in ("list", "single", "mixed") else []})
            one = [canon_out(o, known_ids) for o in m["frames"]]
            k = len(got) // len(one)
            want = one * k + one[:len(got) - k * len(one)]
            # a stop arriving restarts it a second later: what was observed must be whole lifecycles plus a started one
            if want != got or k < 1:
                fnd.append({"kind": "generator", "props": props_restart, "epoch": e, "source": sid[-6:], "name": a["name"],
                            "why": "lifecycle differs from start, one recv per string in order, stop" if want != got else "no complete lifecycle",
                            "model": [[x[0], x[4]] for x in one], "impl": [[x[0], x[4]] for x in got][:12]})
    return fnd
