"""C12: wire formats. Differential execution of the real parsers / printers against the Lean
model of them, plus a store-level pass: whatever is accepted must read back."""
import collections, json, os, random, re, subprocess, time

from . import common as C
from . import storelayer as S

ZERO = "0" * 32
B36 = "0123456789abcdefghijklmnopqrstuvwxyz"


def b36(n, w=25):
    s = ""
    for _ in range(w):
        s = B36[n % 36] + s
        n //= 36
    return s


NUMS = ["0", "1", "9", "10", "007", "+5", "-1", "4294967295", "4294967296", "18446744073709551615",
        "18446744073709551616", "99999999999999999999999", "", "1e3", "1.0", " 1", "1 ", "0x10", "٣"]
TTL_ALPHABET = "0123456789+-: timeheadforeverephemeral xX%&="


def gen_ttl_string(r):
    k = r.random()
    if k < 0.15:
        s = r.choice(["forever", "ephemeral", "Forever", "forever ", "", "never", "time", "head", "time:", "head:"])
    elif k < 0.55:
        s = r.choice(["time:", "head:"]) + r.choice(NUMS + [str(r.randrange(2 ** 70)), str(r.randrange(100))])
    else:
        s = r.choice(["time:", "head:"]) + str(r.randrange(1, 10 ** r.randint(1, 12)))
    if r.random() < 0.3 and s:
        i = r.randrange(len(s) + 1)
        m = r.random()
        if m < 0.4:
            s = s[:i] + r.choice(TTL_ALPHABET) + s[i:]
        elif m < 0.7 and i < len(s):
            s = s[:i] + s[i + 1:]
        elif i < len(s):
            s = s[:i] + r.choice(TTL_ALPHABET) + s[i + 1:]
    return s


def enc(s, r):
    """urlencode, sometimes over-encoding"""
    out = ""
    for ch in s:
        if ch == " " and r.random() < 0.7:
            out += "+"
        elif ch.isalnum() or ch in "-._*" or (ch == ":" and r.random() < 0.5):
            out += ch if r.random() > 0.03 else "%%%02X" % ord(ch)
        else:
            out += "".join("%%%02X" % b for b in ch.encode())
    return out


def gen_id_text(r):
    k = r.random()
    n = r.randrange(2 ** 128)
    if k < 0.5:
        return b36(n)
    if k < 0.6:
        return b36(n).upper()
    if k < 0.7:
        return b36(n)[1:]
    if k < 0.8:
        return b36(n) + "0"
    if k < 0.9:
        return r.choice(["z" * 25, "f5lxx1zz5pnorynqglhzmsp33", "f5lxx1zz5pnorynqglhzmsp34", "0" * 25, "-" + b36(n)[1:], b36(n)[:10] + "_" + b36(n)[11:]])
    return r.choice(["", "abc", "é" * 25])


def gen_opts_query(r):
    parts = []
    for _ in range(r.randint(0, 5)):
        key = r.choice(["follow", "tail", "last-id", "limit", "context-id", "context", "x", "Follow", "last_id"])
        if key in ("follow", "Follow"):
            val = r.choice(["", "yes", "true", "false", "no", "True", "maybe", "on"] + NUMS)
        elif key == "tail":
            val = r.choice(["true", "false", "no", "0", "1", "x", "", "False"])
        elif key in ("last-id", "context-id", "last_id"):
            val = gen_id_text(r)
        elif key == "limit":
            val = r.choice(NUMS)
        else:
            val = r.choice(["1", "", "a b"])
        if r.random() < 0.1:
            parts.append(enc(key, r))
        else:
            parts.append(enc(key, r) + "=" + enc(val, r))
    sep = "&"
    q = sep.join(parts)
    if r.random() < 0.1:
        q = "&" + q + "&&"
    return q


def gen_opts(r):
    return {"follow": r.choice(["off", "on", r.choice([0, 1, 1500, 2 ** 64 - 1, r.randrange(2 ** 40)])]),
            "tail": r.random() < 0.5,
            "last": ("%032x" % r.randrange(2 ** 128)) if r.random() < 0.5 else None,
            "limit": r.choice([None, 0, 1, 2 ** 63, 2 ** 64 - 1, r.randrange(10 ** 6)]),
            "ctx": ("%032x" % r.choice([0, 2 ** 128 - 1, r.randrange(2 ** 128)])) if r.random() < 0.5 else None}


def gen_json_value(r, depth):
    k = r.random()
    if depth <= 0 or k < 0.35:
        return r.choice([None, True, False, 0, 1, -1, 2 ** 53, 2 ** 63, 2 ** 64 - 1, 1.5, "s", "", "é\n\"\\\u0001", "\U0001F600"])
    if k < 0.65:
        return [gen_json_value(r, depth - 1) for _ in range(r.randint(0, 3))]
    return {r.choice(["a", "b", "handler_id", "é", ""]): gen_json_value(r, depth - 1) for _ in range(r.randint(0, 3))}


def nested(n, leaf=1):
    v = leaf
    for _ in range(n):
        v = [v]
    return v


HASH_OK = "sha256-47DEQpj8HBSa+/TImW+5JCeuQeRkm5NMpJWZG3hSuFU="


def gen_frame_json(r):
    f = {}
    k = r.random()
    f["topic"] = r.choice(["t", "", "a.b", "é", "x\u0000y", "\U0001F600", 5, None]) if r.random() < 0.95 else None
    f["context_id"] = gen_id_text(r) if r.random() < 0.9 else r.choice([None, 5])
    f["id"] = gen_id_text(r) if r.random() < 0.9 else r.choice([None, 5])
    hk = r.random()
    if hk < 0.3:
        f["hash"] = HASH_OK
    elif hk < 0.5:
        f["hash"] = None
    elif hk < 0.6:
        f["hash"] = r.choice(["", "sha256-", "md5-abcd", "nonsense", 5])
    mk = r.random()
    if mk < 0.4:
        f["meta"] = gen_json_value(r, 3)
    elif mk < 0.55:
        f["meta"] = nested(r.choice([1, 100, 124, 125, 126, 127, 128, 130]))
    elif mk < 0.65:
        f["meta"] = None
    tk = r.random()
    if tk < 0.5:
        f["ttl"] = gen_ttl_string(r)
    elif tk < 0.6:
        f["ttl"] = r.choice([None, 5, ["forever"]])
    for key in list(f):
        if r.random() < 0.04 and key in ("topic", "context_id", "id"):
            del f[key]
    if r.random() < 0.1:
        f["extra"] = gen_json_value(r, 2)
    return json.dumps(f, ensure_ascii=r.random() < 0.5)


def gen_inputs(seed, n):
    r = random.Random(seed)
    out = []
    for i in range(n):
        k = i % 8
        if k == 0:
            out.append({"kind": "ttl", "s": gen_ttl_string(r)})
        elif k == 1:
            s = gen_ttl_string(r)
            parts = ["ttl=" + enc(s, r)]
            if r.random() < 0.3:
                parts.insert(r.randrange(2), r.choice(["context=abc", "ttl=" + enc(gen_ttl_string(r), r), "x", "ttl"]))
            out.append({"kind": "ttl_query", "s": "&".join(parts)})
        elif k == 2:
            out.append({"kind": "opts_query", "s": gen_opts_query(r)})
        elif k == 3:
            out.append({"kind": "opts_print", "opts": gen_opts(r)})
        elif k == 4:
            out.append({"kind": "id", "s": gen_id_text(r)})
        elif k == 5:
            out.append({"kind": "ttl_json", "s": json.dumps(gen_ttl_string(r)) if r.random() < 0.9 else r.choice(["5", "null", "[]", "\"forever"])})
        else:
            out.append({"kind": "frame_json", "s": gen_frame_json(r)})
    return out


def run_lines(cmd, inputs):
    p = subprocess.run(cmd, input="\n".join(json.dumps(x) for x in inputs) + "\n", stdout=subprocess.PIPE,
                       stderr=subprocess.PIPE, text=True)
    lines = [json.loads(l) for l in p.stdout.splitlines() if l.strip()]
    return lines, p.returncode, p.stderr[-1000:]


def canon_meta(m):
    if isinstance(m, str):
        try:
            return json.loads(m)
        except Exception:
            return m
    return m


def has_dup_keys(text):
    dup = []

    def hook(pairs):
        ks = [k for k, _ in pairs]
        if len(ks) != len(set(ks)):
            dup.append(1)
        return dict(pairs)
    try:
        json.loads(text, object_pairs_hook=hook)
    except Exception:
        return False
    return bool(dup)


def ttl_malformed(t):
    """the spellings the property names as malformed, stated without the model: `head:0`, negative or overflowing
    numbers, unknown keywords (None = not judged here)"""
    if not isinstance(t, str):
        return None
    if t in ("forever", "ephemeral"):
        return False
    for kw, bound, low in (("time:", 1 << 64, 0), ("head:", 1 << 32, 1)):
        if t.startswith(kw):
            n = t[len(kw):]
            if re.fullmatch(r"-\d+", n):
                return True                      # negative
            if re.fullmatch(r"\d+", n):
                return not (low <= int(n) < bound)   # head:0, overflow
            return None                          # signs, spaces, junk: the model's business
    if re.fullmatch(r"[a-z]+(:.*)?", t):
        return True                              # unknown keyword
    return None


def compare(inp, impl, model):
    """returns list of findings: ('corr', ...) model/impl disagreement, ('prop', ...) the
    implementation itself violates a round-trip statement"""
    out = []
    kind = inp["kind"]
    if impl.get("panic"):
        return [("prop", "parser panicked")]
    if kind == "ttl_json":
        # JSON text layer is not modelled: model = parse_ttl of the decoded string
        try:
            v = json.loads(inp["s"])
            exp_ok = isinstance(v, str)
        except Exception:
            v, exp_ok = None, False
        if not exp_ok:
            if "ok" in impl:
                out.append(("corr", "non-string JSON accepted as a TTL"))
            return out
    if kind == "frame_json" and has_dup_keys(inp["s"]):
        return out
    # the property's own words: a malformed TTL is rejected at the boundary
    t = None
    if kind == "ttl":
        t = inp["s"]
    elif kind == "ttl_json":
        t = v
    elif kind == "frame_json":
        try:
            fj = json.loads(inp["s"])
            t = fj.get("ttl") if isinstance(fj, dict) else None
        except Exception:
            t = None
    if "ok" in impl and ttl_malformed(t):
        out.append(("prop", "a malformed TTL (%r) was accepted" % t))
        return out
    iok, mok = "ok" in impl, "ok" in model
    if iok != mok:
        out.append(("corr", "accept/reject differs: impl %s model %s" % (json.dumps(impl)[:120], json.dumps(model)[:120])))
        return out
    if not iok:
        return out
    if kind == "frame_json":
        a, b = dict(impl["ok"]), dict(model["ok"])
        a["meta"], b["meta"] = canon_meta(a.get("meta")), canon_meta(b.get("meta"))
        if a != b:
            out.append(("corr", "decoded frame differs: impl %s model %s" % (json.dumps(a)[:200], json.dumps(b)[:200])))
        if not impl.get("back_ok"):
            out.append(("prop", "an accepted frame serialises to JSON that does not parse back"))
        elif not impl.get("same") and a.get("meta") is not None:
            out.append(("prop", "an accepted frame does not survive serialise → parse"))
    elif kind == "opts_print":
        if impl["ok"] != model["ok"]:
            out.append(("corr", "query text differs: impl %r model %r" % (impl["ok"], model["ok"])))
        if not impl.get("same"):
            out.append(("prop", "ReadOptions do not survive to_query_string → from_query: %r" % (impl,)))
    else:
        if impl["ok"] != model["ok"]:
            out.append(("corr", "parsed value differs: impl %r model %r" % (impl["ok"], model["ok"])))
        if kind in ("ttl_query", "ttl_json") and "again" in impl:
            pass
    return out


def deep_meta_cases():
    """store level: metas around serde_json's nesting limit; whatever is accepted must read back"""
    cases = []
    for d in (120, 125, 126, 127):
        meta = json.dumps(nested(d))
        ops = [{"op": "open", "now": {"t0": True, "plus": 0}},
               {"op": "append", "topic": "74", "ctx": ZERO, "ttl": None, "meta": meta, "hash": None},
               {"op": "append", "topic": "74", "ctx": ZERO, "ttl": "ephemeral", "meta": meta, "hash": None},
               {"op": "get", "id": {"ref": 1}},
               {"op": "read_sync", "ctx": None, "last": None, "limit": None},
               {"op": "head", "topic": "74", "ctx": ZERO},
               {"op": "import", "frame": {"id": {"t0": True, "plus": 7}, "topic": "75", "ctx": ZERO, "ttl": None, "meta": meta, "hash": None}},
               {"op": "read", "ctx": ZERO, "last": None, "limit": None},
               {"op": "reopen", "how": "kill"},
               {"op": "read_sync", "ctx": None, "last": None, "limit": None}]
        cases.append({"name": "deep-meta-%d" % d, "ops": ops})
    return cases


def run(prop, tier, seed, replay=None):
    t_start = time.time()
    ok, out, dt = C.build_harness()
    if not ok:
        print("harness build against /repo failed:\n" + out[-3000:])
        return 2
    aud = C.audit(prop)
    theorem_broken = [f["theorem"] for f in aud["failures"]]
    if replay:
        rp = json.load(open(replay))
        inputs = rp["case"]["inputs"]
        store_cases = rp["case"].get("store_cases", [])
    else:
        n = 8000 if tier == "quick" else 200000
        inputs = gen_inputs(seed, n)
        store_cases = deep_meta_cases() + [S.gen_case(seed * 77 + k, "general") for k in range(40)]
    impl, rc1, err1 = run_lines([C.XSW, "wire"], inputs)
    # hash validity is ssri's: tell the model what the implementation decided
    for x, y in zip(inputs, impl):
        if x["kind"] == "frame_json":
            x["hash_valid"] = "integrity" not in (y.get("detail") or "").lower()
    minputs = []
    for x in inputs:
        if x["kind"] == "ttl_json":
            # the JSON text layer is serde_json's: the model sees the decoded string
            try:
                v = json.loads(x["s"])
            except Exception:
                v = None
            minputs.append({"kind": "ttl", "s": v} if isinstance(v, str) else {"kind": "none"})
        else:
            minputs.append(x)
    model, rc2, err2 = run_lines([C.XSDRV, "wire"], minputs)
    findings = []
    if len(impl) != len(inputs) or len(model) != len(inputs):
        findings.append((0, ("corr", "worker or driver stopped early: %d/%d/%d %s %s" % (len(impl), len(model), len(inputs), err1, err2))))
    hist = collections.Counter()
    accept = collections.Counter()
    for i, (x, a, b) in enumerate(zip(inputs, impl, model)):
        hist[x["kind"]] += 1
        accept[(x["kind"], "ok" in a)] += 1
        for f in compare(x, a, b):
            findings.append((i, f))
    # store level
    sres = S.run_cases(store_cases)
    sfind = []
    for r in sres:
        for it in r["api"] + r["diffs"]:
            if it.get("kind") == "crash" or "C12" in it.get("props", []) or it.get("kind") == "obs":
                sfind.append((r, it))
        # a poisoned store shows as a crash of a later read
    rc, lines = 0, []
    prop_f = [(i, f) for i, f in findings if f[0] == "prop"]
    corr_f = [(i, f) for i, f in findings if f[0] == "corr"]
    known_hit = []

    def sig_of(kind, why):
        return {"layer": "wire", "kind": kind, "why": why}
    real_prop = []
    for i, f in prop_f:
        kf = C.finding_for(prop, sig_of(inputs[i]["kind"], f[1]))
        if kf:
            known_hit.append(kf)
        else:
            real_prop.append((i, f))
    for kf in {k["id"]: k for k in known_hit}.values():
        lines.append(f"KNOWN-FINDING: property={prop} {kf['what']}")
    if real_prop or sfind:
        if real_prop:
            i, f = real_prop[0]
            payload = {"property": prop, "layer": "wire", "case": {"inputs": [inputs[i]], "store_cases": []},
                       "impl": impl[i], "model": model[i], "finding": f[1]}
        else:
            r, it = sfind[0]
            payload = {"property": prop, "layer": "wire/store", "case": {"inputs": [], "store_cases": [r["case"]]},
                       "impl_trace": [{"op": e["op"], "obs": e["obs"]} for e in r["trace"]], "finding": it}
        path = C.write_replay(prop, payload)
        lines.append(f"VIOLATION property={prop} replay={path}")
        rc = 1
    elif corr_f or theorem_broken:
        if corr_f:
            i, f = corr_f[0]
            payload = {"property": prop, "layer": "wire", "case": {"inputs": [inputs[i]], "store_cases": []},
                       "impl": impl[i], "model": model[i], "broken": "correspondence:wire/" + inputs[i]["kind"], "finding": f[1],
                       "n_disagreements": len(corr_f)}
        else:
            payload = {"property": prop, "case": None, "broken": "theorem:" + theorem_broken[0], "findings": aud["failures"][:3]}
        path = C.write_replay(prop, payload)
        lines.append(f"VIOLATION property={prop} replay={path} no-failing-input-found")
        rc = 1
    distinct = len({json.dumps(x, sort_keys=True) for x in inputs})
    cov = {
        "obligations": aud["obligations"], "discharged": aud["discharged"],
        "checker_cmd": f"cd /verif/lean && lake build {aud['module']} && lake env lean .lake/audit_{prop}.lean",
        "trusted_base": C.TRUSTED_BASE + [
            "serde_json's tokenizer/printer, serde_urlencoded / form_urlencoded, base64 and ssri text layers (exercised by the differential run, not modelled below the value tree / pair list)"],
        "theorems": aud["theorems"], "axioms": aud["axioms"], "theorem_failures": aud["failures"],
        "traces_validated_against_impl": len(inputs) + len(sres),
        "evaluations": len(inputs), "distinct_nontrivial": distinct,
        "rule": "grammar-directed + mutated TTL strings, TTL queries, ReadOptions queries (valid and invalid values per key, duplicates, "
                "unknown keys, percent-encodings), random ReadOptions printed by the real client code and parsed back, id texts, and Frame JSON "
                "(missing/ill-typed fields, metas nested 1..130 deep, numeric edges, unicode) run through the real parsers and through the Lean model; "
                "distinct = distinct input lines; plus store-level histories with metas nested 120..128 deep read back through every path",
        "samples": inputs[:6],
        "input_histogram": dict(hist),
        "accept_reject": {"%s:%s" % (k, "accepted" if v else "rejected"): c for (k, v), c in sorted(accept.items())},
        "disagreements_checked": len(corr_f), "property_failures": len(real_prop) + len(sfind),
        "store_cases": len(sres), "known_findings_hit": [k["id"] for k in known_hit],
    }
    if tier == "thorough":
        okc, outc = C.leanchecker(aud["module"])
        cov["leanchecker"] = "ok" if okc else outc
    C.write_evidence(prop, tier, seed, cov, time.time() - t_start, len(real_prop) + len(sfind),
                     ["JSON text ↔ value tree, percent-decoding below the modelled subset, and ssri hash validity are the libraries'"])
    for l in lines:
        print(l)
    print(f"{prop}: {'FAIL' if rc else 'ok'}  theorems {aud['discharged']}/{aud['obligations']}  inputs {len(inputs)}  "
          f"store cases {len(sres)}  disagreements {len(corr_f)}  {time.time() - t_start:.1f}s")
    return rc
