"""C20 over HTTP: export a store (GET / + GET /cas/<hash>, what `.export` does), import everything into an empty store
(POST /cas, POST /import, what `.import` does) in a random order - frames before their content, frames before the
registration of their context, duplicates - and compare what the two servers answer to the same questions: the whole
stream, every context, every head, every piece of content, which contexts accept appends.  The import side is also
compared request by request with the Lean Route model (status, stored state)."""
import base64, json, random

from . import httpcheck as H
from . import storelayer as S

TOPICS = ["a", "ab", "a.b", "t", "log"]
BODIES = [b"", b"", b"hello", b"hello", b"shared", b"\xff\xfe\x00bin", b"x" * 9000]
ZERO36 = "0" * 25


def gen_source(seed):
    r = random.Random(seed)
    ops = [{"op": "open"}, {"op": "serve"}]
    ctxs, frames, bodies = [], [], []
    for _ in range(r.choice([0, 1, 2, 2])):
        ops.append({"op": "http", "method": "POST", "target": "/xs.context", "body": b"", "meta": None})
        ctxs.append(len(ops) - 1); frames.append(len(ops) - 1)
    for _ in range(r.randint(5, 18)):
        k = r.random()
        if k < 0.8 or not frames:
            q = []
            t = r.choice([None, None, "forever", "time:3600000", "head:1", "head:2", "head:3"])
            if t:
                q.append("ttl=" + t)
            if ctxs and r.random() < 0.55:
                q.append("context=@{%d}" % r.choice(ctxs))
            body = r.choice(BODIES)
            meta = r.choice([None, None, base64.b64encode(r.choice(H.METAS))])
            ops.append({"op": "http", "method": "POST", "target": "/" + r.choice(TOPICS) + ("?" + "&".join(q) if q else ""),
                        "body": body, "meta": meta, "read_ms": 4000})
            frames.append(len(ops) - 1)
            if body and body not in bodies:
                bodies.append(body)
        elif k < 0.92:
            ops.append({"op": "http", "method": "DELETE", "target": "/@{%d}" % r.choice(frames)})
        else:
            # a late registration: frames of the other contexts precede it in the export
            ops.append({"op": "http", "method": "POST", "target": "/xs.context", "body": b"", "meta": None})
            ctxs.append(len(ops) - 1); frames.append(len(ops) - 1)
    ops.append({"op": "drain"})
    n_setup = len(ops)
    ops += observation_ops(["@{%d}" % c for c in ctxs], [H.ssri(b) for b in bodies])
    return {"name": "export-%d" % seed, "ops": ops, "ctxs": ctxs, "bodies": bodies, "n_setup": n_setup, "seed": seed}


def observation_ops(ctx_tokens, hashes):
    ops = [{"op": "http", "method": "GET", "target": "/"}, {"op": "http", "method": "GET", "target": "/?context-id=" + ZERO36}]
    for c in ctx_tokens:
        ops.append({"op": "http", "method": "GET", "target": "/?context-id=" + c})
    for c in [None] + ctx_tokens:
        for t in TOPICS + ["xs.context"]:
            ops.append({"op": "http", "method": "GET", "target": "/head/" + t + ("?context=" + c if c else "")})
    for h in hashes:
        ops.append({"op": "http", "method": "GET", "target": "/cas/" + h, "read_ms": 4000})
    # which contexts accept appends (an ephemeral probe leaves nothing behind)
    for c in ctx_tokens + [H.b36(0xdead << 100)]:
        ops.append({"op": "http", "method": "POST", "target": "/probe?ttl=ephemeral&context=" + c, "body": b"", "meta": None, "probe": True})
    return ops


def gen_target(src, src_trace):
    """the import case, from what the source answered"""
    r = random.Random(src["seed"] * 7 + 1)
    exported = bytes.fromhex(src_trace[src["n_setup"]]["obs"].get("body_hex", ""))      # GET /
    lines = [l for l in exported.decode("utf-8", "replace").split("\n") if l.strip()]
    ctx_ids = []
    for c in src["ctxs"]:
        try:
            ctx_ids.append(json.loads(bytes.fromhex(src_trace[c]["obs"]["body_hex"]))["id"])
        except Exception:
            ctx_ids.append(H.b36(5))
    items = [("frame", l) for l in lines] + [("cas", b) for b in src["bodies"]]
    items += [r.choice(items) for _ in range(len(items) // 4)] if items else []       # the same thing again changes nothing
    r.shuffle(items)
    ops = [{"op": "open"}, {"op": "serve"}]
    for kind, v in items:
        if kind == "cas":
            ops.append({"op": "http", "method": "POST", "target": "/cas", "body": v, "read_ms": 4000})
        else:
            ops.append({"op": "http", "method": "POST", "target": "/import", "body": json.dumps(json.loads(v)).encode()})
    ops.append({"op": "drain"})
    n_setup = len(ops)
    ops += observation_ops(ctx_ids, [H.ssri(b) for b in src["bodies"]])
    return {"name": "import-%d" % src["seed"], "ops": ops, "n_setup": n_setup,
            "n_frames": len(lines), "n_items": len(items)}


def run_pair(seed):
    """-> dict(findings, stats, source case, target case)"""
    src = gen_source(seed)
    st = H.run_case(src)
    if any("crash" in e["obs"] for e in st) or len(st) != len(src["ops"]):
        return {"seed": seed, "findings": [{"why": "source server died", "observable": True}], "src": src, "tgt": None, "stats": {}}
    tgt = gen_target(src, st)
    tt = H.run_case(tgt)
    fnd = []
    if any("crash" in e["obs"] for e in tt) or len(tt) != len(tgt["ops"]):
        fnd.append({"why": "the importing server died", "observable": True})
        return {"seed": seed, "findings": fnd, "src": src, "tgt": tgt, "stats": {}}
    # every import request answered 2xx: everything offered came out of a store
    for i in range(2, tgt["n_setup"] - 1):
        o = tt[i]["obs"]
        if o.get("status") not in (200, 204):
            fnd.append({"why": "an exported item was refused on import", "observable": True, "i": i, "target": tt[i]["op"].get("target"),
                        "status": o.get("status"), "conn": o.get("conn"),
                        "body": bytes.fromhex(tt[i]["op"].get("body_hex", ""))[:200].decode("utf-8", "replace")})
            break
    # the importing server wrote one frame of its own when it came up (`xs.start`): not part of what was imported
    own = (tt[1]["obs"].get("ok") or {}).get("id") if isinstance(tt[1]["obs"], dict) else None
    own36 = H.hex_to_b36(own) if own else None

    def answer(e):
        body = bytes.fromhex(e["obs"].get("body_hex", "") or "")
        if e["op"].get("method") == "GET" and e["op"]["target"].split("?")[0] == "/":
            try:
                return [x for x in (json.loads(l) for l in body.decode().split("\n") if l.strip()) if x.get("id") != own36]
            except Exception:
                return body
        return body
    # same questions, same answers
    so, to = st[src["n_setup"]:], tt[tgt["n_setup"]:]
    for j, (a, b) in enumerate(zip(so, to)):
        same = a["obs"].get("status") == b["obs"].get("status")
        if same and not src["ops"][src["n_setup"] + j].get("probe"):
            same = answer(a) == answer(b)
        if not same:
            fnd.append({"why": "the imported store answers differently from the original", "observable": True,
                        "question": b["op"].get("method") + " " + b["op"].get("target"), "source_question": a["op"].get("target"),
                        "original": {"status": a["obs"].get("status"), "body": bytes.fromhex(a["obs"].get("body_hex", "") or "")[:600].decode("utf-8", "replace")},
                        "imported": {"status": b["obs"].get("status"), "body": bytes.fromhex(b["obs"].get("body_hex", "") or "")[:600].decode("utf-8", "replace")}})
            break
    # stored state: same partitions (the context registry included)
    da, db = S.canon_dump(st[src["n_setup"] - 1].get("dump")), S.canon_dump(tt[tgt["n_setup"] - 1].get("dump"))
    if db is not None and own:
        db = {"stream": [kv for kv in db["stream"] if not kv[0].endswith(own)], "idx_topic": [k for k in db["idx_topic"] if not k.endswith(own)],
              "idx_context": [k for k in db["idx_context"] if not k.endswith(own)], "contexts": db["contexts"]}
    if da is not None and db is not None and da != db and not fnd:
        comps = [c for c in ("stream", "idx_topic", "idx_context", "contexts") if da[c] != db[c]]
        fnd.append({"why": "stored state of the imported store differs from the original", "observable": "stream" in comps, "comps": comps})
    return {"seed": seed, "findings": fnd, "src": src, "tgt": tgt, "target_trace": tt,
            "stats": {"frames": tgt["n_frames"], "items": tgt["n_items"], "contexts": len(src["ctxs"]), "contents": len(src["bodies"])}}


def model_findings(pairs):
    """the import side against the Lean Route model, request by request"""
    named = [(p["tgt"]["name"], p["target_trace"]) for p in pairs if p.get("target_trace")]
    if not named:
        return {}
    models = H.run_model(named)
    out = {}
    for name, tr in named:
        fs = [f for f in H.compare(tr, models.get(name, []))]
        if fs:
            out[name] = fs
    return out
