"""C08: the sequential store histories (storecheck) + explicit removals racing the head:N collector (gcrace)."""
import json, os
from concurrent.futures import ThreadPoolExecutor
from . import common as C
from . import storecheck
from . import gcrace as G


def run(prop, tier, seed, replay=None):
    rc1 = 0
    if replay:
        pl = json.load(open(replay))
        if pl.get("layer") != "gc-race":
            return storecheck.run(prop, tier, seed, replay)
        specs = [pl["case"]]
    else:
        rc1 = storecheck.run(prop, tier, seed)
        if rc1 == 2:
            return 2
        specs = [G.scenario(seed * 131 + k, tier) for k in range(6 if tier == "quick" else 20)]
    with ThreadPoolExecutor(max_workers=4) as ex:
        ress = list(ex.map(G.run_scenario, specs))
    bad = [(sp, fs) for sp, (fs, _) in zip(specs, ress) if fs]
    rounds = sum(len(st) for _, st in ress)
    rc2 = 0
    if bad:
        sp, fs = bad[0]
        path = C.write_replay(prop, {"property": prop, "tier": tier, "seed": seed, "layer": "gc-race", "case": sp, "findings": fs})
        print(f"VIOLATION property={prop} replay={path}")
        rc2 = 1
    print(f"{prop}: {'FAIL' if rc2 else 'ok'}  removals racing the head:N collector: scenarios {len(specs)} rounds {rounds}")
    if replay:
        return rc2
    p = os.path.join(C.VERIF, "evidence", prop + ".json")
    ev = json.load(open(p))
    cov = ev["coverage"]
    cov["traces_validated_against_impl"] += rounds
    cov["evaluations"] += rounds
    cov["rule"] += (" || concurrency: one thread removes the old frames of a topic explicitly while another appends a head:K frame to it "
                    "(collector not gated); final read and stored state compared with the model run over appends; head:K append; collector; removals")
    cov["gc_race"] = {"scenarios": len(specs), "rounds": rounds, "failures": len(bad),
                      "old_frames": sorted({sp["old"] for sp in specs}), "keep": sorted({sp["keep"] for sp in specs})}
    ev["violations"] = ev.get("violations", 0) + len(bad)
    json.dump(ev, open(p, "w"), indent=1, sort_keys=True)
    return 1 if (rc1 or rc2) else 0
