"""Layer A (store core): case generator, executor against the real crate,
model run, per-step comparison and classification of differences."""
import json, os, random, shutil, subprocess, threading, time, hashlib
from concurrent.futures import ThreadPoolExecutor

from .common import XSW, XSDRV, SCRATCH, log

ZERO = "0" * 32
NEVER = "0000dead" + "0" * 24          # a context / id nothing ever registers
ABSENT_ID = "0" * 31 + "7"
MAXID = "f" * 32

TOPICS = ["", "a", "ab", "abc", "a\x01", "aÿ", "é", "b", "ab.c", "a\U0001F600"]
NUL_TOPICS = ["a\x00b", "\x00", "ab\x00"]
XSCTX = "xs.context"
METAS = [None, None, '{"a":1}', '{"k":"v","n":[1,2,{"x":null}]}', '"s"', '[]', '{"handler_id":"h"}']
HASHES = [None, None, "sha256-47DEQpj8HBSa+/TImW+5JCeuQeRkm5NMpJWZG3hSuFU=",
          "sha256-LCa0a2j/xo/5m0U8HTBBNBNCLXBkg7+g+YpeiGJm564="]


def hx(s):
    return s.encode("utf-8").hex()


# --------------------------------------------------------------------------
# symbolic cases
# --------------------------------------------------------------------------

class Gen:
    """One random history. Ids and clocks that depend on what the
    implementation assigned are symbolic ({"ref": k, "plus": d} / {"ts": k, "plus": d})."""

    def __init__(self, rng, profile):
        self.r = rng
        self.p = profile
        self.ops = []
        self.ctx_regs = []      # op indices of accepted xs.context appends / imports
        self.frames = []        # op indices that produced a stored frame (append / import)
        self.time_frames = []   # (op index, N) of time:N frames
        self.topics_used = set()

    def add(self, op):
        self.ops.append(op)
        return len(self.ops) - 1

    def ctx_choice(self, for_append=True):
        r = self.r.random()
        if r < 0.35 or not self.ctx_regs:
            return ZERO if self.r.random() < 0.9 or not for_append else NEVER
        if r < 0.93:
            return {"ref": self.r.choice(self.ctx_regs)}
        return NEVER

    def topic_choice(self):
        r = self.r.random()
        if r < self.p.get("p_nul", 0.03):
            return self.r.choice(NUL_TOPICS)
        if r < 0.08:
            return XSCTX
        if r < 0.11:
            # topics that merely start with the registration topic are ordinary topics
            return self.r.choice([XSCTX + ".note", XSCTX + "ual", XSCTX[:-1]])
        t = self.r.choice(TOPICS[: self.p.get("ntopics", len(TOPICS))])
        self.topics_used.add(t)
        return t

    def ttl_choice(self):
        r = self.r.random()
        w = self.p.get("ttl_w", (0.35, 0.1, 0.1, 0.2, 0.25))  # none forever ephemeral time head
        acc = 0
        for k, wk in zip(("none", "forever", "ephemeral", "time", "head"), w):
            acc += wk
            if r < acc:
                break
        if k == "none":
            return None
        if k == "time":
            return "time:%d" % self.r.choice([1, 5, 50, 1000, 3600000, 2 ** 63, 2 ** 64 - 1])
        if k == "head":
            return "head:%d" % self.r.choice([1, 1, 2, 2, 3, 7])
        return k

    def some_frame(self):
        return self.r.choice(self.frames) if self.frames else None

    def id_choice(self):
        """an id for get / remove / last-id: mostly existing, sometimes near or absent"""
        k = self.some_frame()
        r = self.r.random()
        if k is None or r < 0.1:
            return ABSENT_ID
        if r < 0.8:
            return {"ref": k}
        return {"ref": k, "plus": self.r.choice([-1, 1])}

    def op_append(self):
        topic = self.topic_choice()
        ctx = self.ctx_choice()
        ttl = self.ttl_choice()
        i = self.add({"op": "append", "topic": hx(topic), "ctx": ctx, "ttl": ttl,
                      "meta": self.r.choice(METAS), "hash": self.r.choice(HASHES)})
        if "\x00" not in topic and ttl != "ephemeral" and ctx != NEVER:
            if topic == XSCTX:
                if ctx == ZERO:
                    self.ctx_regs.append(i); self.frames.append(i)
            else:
                self.frames.append(i)
                if ttl and ttl.startswith("time:"):
                    self.time_frames.append((i, int(ttl[5:])))

    def op_register(self):
        i = self.add({"op": "append", "topic": hx(XSCTX), "ctx": ZERO,
                      "ttl": self.r.choice([None, None, "ephemeral", "head:1", "time:1"]),
                      "meta": None, "hash": None})
        self.ctx_regs.append(i); self.frames.append(i)

    def op_import(self):
        r = self.r.random()
        topic = self.topic_choice()
        ctx = self.ctx_choice(for_append=False)
        ttl = self.r.choice([None, "forever", "time:50", "time:3600000", "head:1", "head:2"])
        k = self.some_frame()
        if k is not None and r < 0.3:
            # the same id again: identical re-import, or colliding content (other topic and/or context)
            fid = {"ref": k}
            rr = self.r.random()
            if rr < 0.45:
                frame = {"same_as": k}
            elif rr < 0.7:
                frame = {"same_as": k, "ctx": ctx}            # same topic, other context
            elif rr < 0.85:
                frame = {"same_as": k, "topic": hx(topic)}    # other topic, same context
            else:
                frame = None
        elif k is not None and r < 0.55:
            fid = {"ref": k, "plus": self.r.choice([-1, 1, -2 ** 40, 2 ** 40, -2 ** 81, 2 ** 81])}
            frame = None
        else:
            fid = {"t0": True, "plus": self.r.randrange(-10 ** 6, 10 ** 6) * 2 ** 80 + self.r.randrange(2 ** 80)}
            frame = None
        if frame is None:
            frame = {"id": fid, "topic": hx(topic), "ctx": ctx, "ttl": ttl,
                     "meta": self.r.choice(METAS), "hash": self.r.choice(HASHES)}
        i = self.add({"op": "import", "frame": frame})
        if (frame.get("same_as") is not None and "topic" not in frame) or "\x00" not in topic:
            self.frames.append(i)
            if "same_as" not in frame and topic == XSCTX and ctx == ZERO:
                self.ctx_regs.append(i)

    def op_move_head(self):
        """a stored frame is imported again under another context (same id, same topic), then a head:K frame is appended to
        the (context, topic) it used to be in and the collector runs: the moved frame is no business of that collection"""
        cands = [k for k in self.frames if self.ops[k].get("op") == "append" and self.ops[k].get("ctx") != NEVER
                 and self.ops[k].get("topic") != hx(XSCTX)]
        if not cands or not self.ctx_regs:
            return self.op_append()
        k = self.r.choice(cands)
        src = self.ops[k]
        others = [c for c in [ZERO] + [{"ref": c} for c in self.ctx_regs] if c != src["ctx"]]
        i = self.add({"op": "import", "frame": {"same_as": k, "ctx": self.r.choice(others)}})
        self.frames.append(i)
        j = self.add({"op": "append", "topic": src["topic"], "ctx": src["ctx"], "ttl": self.r.choice(["head:1", "head:1", "head:2"]),
                      "meta": None, "hash": None})
        self.frames.append(j)
        self.add({"op": self.r.choice(["drain", "gc"])})

    def op_clock(self):
        if self.time_frames and self.r.random() < 0.8:
            k, n = self.r.choice(self.time_frames)
            n = min(n, 2 ** 62)
            self.add({"op": "clock", "now": {"ts": k, "plus": n + self.r.choice([-1, 0, 1, 5])}})
        else:
            self.add({"op": "clock", "now": {"t0": True, "plus": self.r.choice([0, 10, 1000, 10 ** 7])}})

    def op_read(self):
        kind = self.r.choice(["read_sync", "read_sync", "read"])
        ctx = self.r.choice([None, ZERO, "reg", "reg", NEVER])
        if ctx == "reg":
            ctx = {"ref": self.r.choice(self.ctx_regs)} if self.ctx_regs else ZERO
        last = self.id_choice() if self.r.random() < 0.4 else None
        limit = self.r.choice([None, None, 0, 1, 2, 3, 100])
        self.add({"op": kind, "ctx": ctx, "last": last, "limit": limit})

    def op_get(self):
        self.add({"op": "get", "id": self.id_choice()})

    def op_head(self):
        t = self.r.choice(sorted(self.topics_used) or ["a"]) if self.r.random() < 0.8 else self.r.choice(TOPICS)
        self.add({"op": "head", "topic": hx(t), "ctx": self.ctx_choice(False)})

    def op_remove(self):
        self.add({"op": "remove", "id": self.id_choice()})

    def op_gc(self):
        self.add({"op": "gc", "n": self.r.choice([1, 1, 2, 3])})

    def op_drain(self):
        self.add({"op": "drain"})

    def op_reopen(self):
        self.add({"op": "reopen", "how": self.r.choice(["kill", "clean"])})

    def sweep(self):
        """final observation of everything through every access path"""
        self.add({"op": "drain"})
        ctxs = [None, ZERO, NEVER] + [{"ref": k} for k in self.ctx_regs[:4]]
        for c in ctxs:
            self.add({"op": "read_sync", "ctx": c, "last": None, "limit": None})
        self.add({"op": "read", "ctx": None, "last": None, "limit": None})
        for t in sorted(self.topics_used)[:6] + [XSCTX]:
            for c in ctxs[1:2] + ctxs[3:5]:
                self.add({"op": "head", "topic": hx(t), "ctx": c})
        for k in self.frames[:12]:
            self.add({"op": "get", "id": {"ref": k}})

    def build(self):
        p = self.p
        self.add({"op": "open", "now": {"t0": True, "plus": 0}})
        for _ in range(self.r.choice(p.get("nctx", [1, 2, 2, 3]))):
            self.op_register()
        table = p["ops"]
        names = list(table)
        weights = [table[n] for n in names]
        for _ in range(self.r.randint(*p.get("len", (5, 30)))):
            getattr(self, "op_" + self.r.choices(names, weights)[0])()
        if p.get("sweep", True):
            self.sweep()
        return self.ops


PROFILES = {
    # general histories: everything mixed
    "general": {"ops": {"append": 30, "import": 8, "remove": 8, "clock": 6, "read": 12, "get": 5,
                        "head": 8, "gc": 5, "drain": 4, "reopen": 3, "register": 2}, "len": (5, 35)},
    # TTL / GC heavy, few topics so head:N bites
    "ttl": {"ops": {"append": 40, "remove": 5, "clock": 12, "read": 14, "gc": 10, "drain": 6, "head": 4,
                    "reopen": 1, "import": 2},
            "ntopics": 4, "ttl_w": (0.15, 0.05, 0.1, 0.3, 0.4), "len": (8, 40), "p_nul": 0.0},
    # contexts: registration, removal of registrations, reopen
    "contexts": {"ops": {"append": 30, "register": 8, "remove": 10, "import": 8, "reopen": 8, "read": 8,
                         "head": 4, "drain": 2}, "nctx": [2, 3, 4], "len": (6, 25)},
    # imports over existing ids (another context, another topic) followed by head:N appends and the collector: what the
    # collector takes must be frames of exactly that context and topic (C08)
    "import_gc": {"ops": {"append": 30, "import": 20, "move_head": 8, "remove": 3, "read": 6, "head": 4, "gc": 8, "drain": 8, "reopen": 1},
                  "ntopics": 3, "ttl_w": (0.2, 0.1, 0.0, 0.1, 0.6), "len": (8, 30), "p_nul": 0.0},
    # import / export
    "import": {"ops": {"append": 10, "import": 40, "remove": 6, "read": 10, "head": 8, "get": 6, "reopen": 3,
                       "gc": 2, "drain": 2}, "len": (6, 30)},
}


def gen_case(seed, profile):
    rng = random.Random(seed)
    g = Gen(rng, PROFILES[profile])
    return {"name": f"{profile}-{seed}", "profile": profile, "ops": g.build()}


# --------------------------------------------------------------------------
# execution against the implementation
# --------------------------------------------------------------------------

class WorkerDied(Exception):
    pass


class Worker:
    def __init__(self, mode="store"):
        self.p = subprocess.Popen([XSW, mode], stdin=subprocess.PIPE, stdout=subprocess.PIPE,
                                  stderr=subprocess.PIPE, text=True, bufsize=1)
        self.timer = None

    def call(self, op, timeout=30):
        t = threading.Timer(timeout, self.p.kill)
        t.start()
        try:
            self.p.stdin.write(json.dumps(op) + "\n")
            self.p.stdin.flush()
            line = self.p.stdout.readline()
        except BrokenPipeError:
            line = ""
        finally:
            t.cancel()
        if not line:
            err = ""
            try:
                self.p.wait(timeout=5)
                err = self.p.stderr.read()[-1500:]
            except Exception:
                pass
            raise WorkerDied(err)
        return json.loads(line)

    def close(self):
        try:
            self.p.kill()
        except Exception:
            pass
        try:
            self.p.wait(timeout=5)
        except Exception:
            pass
        for f in (self.p.stdin, self.p.stdout, self.p.stderr):
            try:
                f.close()
            except Exception:
                pass


def add_hex(idhex, d):
    return "%032x" % max(0, min(2 ** 128 - 1, int(idhex, 16) + d))


class Resolver:
    def __init__(self, t0):
        self.t0 = t0
        self.ids = {}
        self.frames = {}

    def id(self, v):
        if isinstance(v, dict):
            if "ref" in v:
                base = self.ids.get(v["ref"], ABSENT_ID)
            else:
                base = "%032x" % (self.t0 << 80)
            return add_hex(base, v.get("plus", 0))
        return v

    def now(self, v):
        if isinstance(v, dict):
            if "ts" in v:
                base = int(self.ids.get(v["ts"], "%032x" % (self.t0 << 80)), 16) >> 80
            else:
                base = self.t0
            return max(1, min(2 ** 64 - 1, base + v.get("plus", 0)))
        return v

    def op(self, i, sym):
        op = dict(sym)
        k = op["op"]
        for key in ("ctx", "last", "id"):
            if key in op and op[key] is not None:
                op[key] = self.id(op[key])
        if "now" in op and op["now"] is not None:
            op["now"] = self.now(op["now"])
        if k == "import":
            fr = op["frame"]
            if "same_as" in fr:
                base = dict(self.frames.get(fr["same_as"]) or
                            {"id": ABSENT_ID, "topic": "61", "ctx": ZERO, "ttl": None, "meta": None, "hash": None})
                if "ctx" in fr:
                    base["ctx"] = self.id(fr["ctx"])
                if "topic" in fr:
                    base["topic"] = fr["topic"]
                fr = base
            else:
                fr = dict(fr)
                fr["id"] = self.id(fr["id"])
                fr["ctx"] = self.id(fr["ctx"])
            op["frame"] = fr
        return op

    def learn(self, i, op, obs):
        if op["op"] == "append" and isinstance(obs.get("ok"), dict):
            self.ids[i] = obs["ok"]["id"]
            self.frames[i] = obs["ok"]
        if op["op"] == "import" and "ok" in obs:
            self.ids[i] = op["frame"]["id"]
            self.frames[i] = op["frame"]


def run_impl(case, gated=True, keep_dir=False):
    """Execute a symbolic case on the real crate. Returns the concrete trace:
    list of {"op","obs","dump"}."""
    d = os.path.join(SCRATCH, "%d-%s-%s" % (os.getpid(), threading.get_ident(), hashlib.sha1(case["name"].encode()).hexdigest()[:8]))
    shutil.rmtree(d, ignore_errors=True)
    os.makedirs(d)
    t0 = int(time.time() * 1000)
    res = Resolver(t0)
    trace = []
    w = None
    clock = t0
    try:
        for i, sym in enumerate(case["ops"]):
            op = res.op(i, sym)
            k = op["op"]
            if k in ("open", "reopen"):
                if w is not None:
                    try:
                        w.call({"op": "exit", "how": op.get("how", "kill")})
                    except WorkerDied:
                        pass
                    w.close()
                if k == "open" and op.get("now") is not None:
                    clock = op["now"]
                w = Worker()
                cop = {"op": "open", "dir": d, "now": clock, "gated": gated}
                try:
                    obs = w.call(cop)
                    dump = w.call({"op": "dump"}).get("ok")
                except WorkerDied as e:
                    trace.append({"op": {"op": "open", "now": clock, "how": op.get("how")}, "obs": {"crash": str(e)[-400:]}})
                    break
                trace.append({"op": {"op": "open", "now": clock, "how": op.get("how")}, "obs": obs, "dump": dump})
                continue
            if k == "clock":
                clock = op["now"]
            try:
                obs = w.call(op)
                dump = w.call({"op": "dump"}).get("ok")
            except WorkerDied as e:
                trace.append({"op": op, "obs": {"crash": str(e)[-400:]}})
                break
            res.learn(i, op, obs)
            trace.append({"op": op, "obs": obs, "dump": dump})
    finally:
        if w is not None:
            w.close()
        if not keep_dir:
            shutil.rmtree(d, ignore_errors=True)
    return trace


def run_model(named_traces):
    """Run xsdrv on all traces at once. Returns {name: [ {model, post} ... ]}."""
    lines = []
    for name, tr in named_traces:
        lines.append(json.dumps({"case": name}))
        for e in tr:
            lines.append(json.dumps(e))
    p = subprocess.run([XSDRV, "store"], input="\n".join(lines) + "\n", stdout=subprocess.PIPE,
                       stderr=subprocess.PIPE, text=True)
    if p.returncode != 0:
        raise RuntimeError("xsdrv failed: " + p.stderr[-2000:])
    out, cur = {}, None
    for line in p.stdout.splitlines():
        j = json.loads(line)
        if "case" in j:
            cur = out.setdefault(j["case"], [])
        else:
            cur.append(j)
    return out


# --------------------------------------------------------------------------
# comparison
# --------------------------------------------------------------------------

def canon_frame(f):
    if not isinstance(f, dict):
        return f
    g = dict(f)
    if isinstance(g.get("meta"), str):
        try:
            g["meta"] = json.loads(g["meta"])
        except Exception:
            pass
    return g


def canon_obs(o):
    if not isinstance(o, dict):
        return o
    if "ok" in o:
        v = o["ok"]
        if isinstance(v, list):
            return {"ok": [canon_frame(x) for x in v]}
        if isinstance(v, dict) and "stream" not in v:
            return {"ok": canon_frame(v)}
        return {"ok": v}
    return o


def canon_dump(d):
    if d is None:
        return None
    return {"stream": [[k, canon_frame(f)] for k, f in d.get("stream", [])],
            "idx_topic": list(d.get("idx_topic", [])), "idx_context": list(d.get("idx_context", [])),
            "contexts": sorted(d.get("contexts", []))}


def compare(trace, model):
    """Per-step differences between implementation and model."""
    diffs = []
    for i, e in enumerate(trace):
        if i >= len(model):
            diffs.append({"i": i, "kind": "model-missing"})
            break
        m = model[i]
        op = e["op"]
        if "crash" in e["obs"]:
            diffs.append({"i": i, "kind": "crash", "op": op["op"], "detail": e["obs"]["crash"]})
            break
        if op["op"] != "dump" and canon_obs(e["obs"]) != canon_obs(m["model"]):
            diffs.append({"i": i, "kind": "obs", "op": op["op"], "impl": e["obs"], "model": m["model"]})
        di, dm = canon_dump(e.get("dump")), canon_dump(m.get("post"))
        if di is not None and dm is not None:
            comps = [c for c in ("stream", "idx_topic", "idx_context", "contexts") if di[c] != dm[c]]
            if comps:
                d = {"i": i, "kind": "state", "op": op["op"], "comps": comps}
                if "stream" in comps:
                    ki = {k for k, _ in di["stream"]}; km = {k for k, _ in dm["stream"]}
                    d["missing_in_impl"] = sorted(km - ki); d["extra_in_impl"] = sorted(ki - km)
                    d["value_diff"] = sorted(k for k, f in di["stream"] if k in km and dict(dm["stream"])[k] != f) if not (km ^ ki) else []
                for c in ("idx_topic", "idx_context", "contexts"):
                    if c in comps:
                        d[c] = {"missing_in_impl": sorted(set(dm[c]) - set(di[c])), "extra_in_impl": sorted(set(di[c]) - set(dm[c]))}
                diffs.append(d)
    return diffs


# --------------------------------------------------------------------------
# independent API-level specification (python), judged against the dumped stream
# --------------------------------------------------------------------------

def ttl_expired(f, now):
    t = f.get("ttl")
    if t and t.startswith("time:"):
        ts = int(f["id"], 16) >> 80
        return min(ts + int(t[5:]), 2 ** 64 - 1) <= now
    return False


def spec_read(stream_frames, ctx, last, limit, now):
    out = [f for f in stream_frames
           if (ctx is None or f["ctx"] == ctx)
           and (last is None or int(f["id"], 16) > int(last, 16))
           and not ttl_expired(f, now)]
    out.sort(key=lambda f: int(f["id"], 16))
    return out if limit is None else out[:limit]


def spec_head(stream_frames, topic_hex, ctx):
    c = [f for f in stream_frames if f["ctx"] == ctx and f["topic"] == topic_hex]
    return max(c, key=lambda f: int(f["id"], 16)) if c else None


def api_oracle(trace):
    """Property statements evaluated directly on the implementation's trace,
    without the Lean model: reads / get / head judged against the physically
    stored frames (the dump before the op). Returns list of failures."""
    fails = []
    now = 0
    prev = None
    last_assigned = None
    imported = set()     # ids that came in by import so far: a wrong answer about one of them speaks about C20 too
    head_tasks, expired_seen = {}, set()

    def c20(props, *frames_or_ids):
        ids = {(x.get("id") if isinstance(x, dict) else x) for x in frames_or_ids if x is not None}
        return props + ["C20"] if ids & imported else props
    for i, e in enumerate(trace):
        op, obs = e["op"], e["obs"]
        k = op["op"]
        if k in ("open", "clock") and op.get("now") is not None:
            now = op["now"]
        if i and trace[i - 1]["op"].get("op") == "import" and isinstance(trace[i - 1]["op"].get("frame"), dict):
            imported.add(trace[i - 1]["op"]["frame"].get("id"))
        if "crash" in obs:
            fails.append({"i": i, "why": "crash", "props": ["C12", "C01"]}); break
        pre = prev
        prev = e.get("dump")
        if k == "open":
            last_assigned = None
        if k == "append" and isinstance(obs.get("ok"), dict):
            a = int(obs["ok"]["id"], 16)
            if last_assigned is not None and a <= last_assigned:
                fails.append({"i": i, "why": "append ids not strictly increasing", "props": ["C01", "C02"]})
            last_assigned = a
        if k == "open":
            head_tasks, expired_seen = {}, set()     # the collector's queue is in memory: a restart empties it
        if pre is None:
            continue
        frames = [canon_frame(f) for _, f in pre["stream"]]
        if any("undecodable" in f for f in frames):
            continue
        # C08, on the stored frames alone: whatever the collector takes away was asked for - a head:K append to exactly that
        # context and topic that leaves the frame outside the K newest, or a read that came across the frame with its time:N elapsed
        if k == "append" and isinstance(obs.get("ok"), dict) and str(obs["ok"].get("ttl") or "").startswith("head:"):
            key = (obs["ok"]["ctx"], obs["ok"]["topic"])
            kk = int(obs["ok"]["ttl"][5:])
            head_tasks[key] = min(kk, head_tasks.get(key, kk))
        if k in ("read", "read_sync"):
            expired_seen |= {f["id"] for f in frames if isinstance(f, dict) and ttl_expired(f, now)}
        if k in ("gc", "drain") and e.get("dump") is not None:
            after = {f["id"] for _, f in e["dump"]["stream"] if isinstance(f, dict) and "id" in f}
            for f in frames:
                if not isinstance(f, dict) or "id" not in f or f["id"] in after or f["id"] in expired_seen:
                    continue
                kk = head_tasks.get((f["ctx"], f["topic"]))
                newer = sum(1 for g in frames if isinstance(g, dict) and g.get("ctx") == f["ctx"] and g.get("topic") == f["topic"]
                            and int(g["id"], 16) > int(f["id"], 16))
                if kk is None or newer < kk:
                    props = ["C08"] + (["C06"] if kk is None and any(c == f["ctx"] or t == f["topic"] for c, t in head_tasks) else [])
                    fails.append({"i": i, "why": "the collector removed a frame nothing had asked it to remove", "frame": f,
                                  "head_tasks": [[c[-6:], t, n] for (c, t), n in head_tasks.items()], "props": c20(props, f)})
        if k == "append" and ("ok" in obs or obs.get("err") in ("invalid-context", "ctx-frame-not-zero", "nul-in-topic")):
            tb = bytes.fromhex(op["topic"])
            registered = op["ctx"] == ZERO or any(
                f["id"] == op["ctx"] and f["ctx"] == ZERO and f["topic"] == hx(XSCTX) for f in frames)
            if tb == XSCTX.encode():
                want_ok = op["ctx"] == ZERO
            else:
                want_ok = registered and b"\x00" not in tb
            if want_ok != ("ok" in obs):
                # a registration that arrived through import speaks about C20's "same usable contexts" too
                via_import = any(x["op"].get("op") == "import" and isinstance(x["op"].get("frame"), dict)
                                 and x["op"]["frame"].get("id") == op["ctx"] for x in trace[:i])
                fails.append({"i": i, "why": "append %s but context registered=%s (by the stored frames)" % (
                    "accepted" if "ok" in obs else "rejected:" + obs.get("err", ""), registered),
                    "props": ["C07", "C20"] if via_import else ["C07"]})
            if "ok" in obs and tb == XSCTX.encode() and obs["ok"].get("ttl") != "forever":
                fails.append({"i": i, "why": "xs.context frame not kept forever", "props": ["C07"]})
            if "err" in obs and e.get("dump") is not None and canon_dump(e["dump"]) != canon_dump(pre):
                fails.append({"i": i, "why": "rejected append left a trace", "props": ["C07", "C05"]})
        if k in ("read_sync", "read") and "ok" in obs:
            lim = op.get("limit")
            want = spec_read(frames, op.get("ctx"), op.get("last"), lim, now)
            got = [canon_frame(f) for f in obs["ok"]]
            if want != got:
                props = ["C01"]
                if op.get("ctx") is not None and any(f["ctx"] != op["ctx"] for f in got):
                    props.append("C06")
                if any(ttl_expired(f, now) for f in got):
                    props.append("C09")
                if op.get("ctx") is not None and any(f not in got for f in want) and lim is None:
                    props.append("C05")
                props = c20(props, *[f for f in want if f not in got], *[f for f in got if f not in want])
                fails.append({"i": i, "why": "read differs from the live history", "want": want, "got": got, "props": props})
        if k == "get" and "ok" in obs:
            want = next((f for f in frames if f["id"] == op["id"]), None)
            if want != canon_frame(obs["ok"]):
                fails.append({"i": i, "why": "get differs from the stored frame", "props": c20(["C01", "C05"], op["id"])})
        if k == "head" and "ok" in obs and "00" not in [op["topic"][j:j+2] for j in range(0, len(op["topic"]), 2)]:
            want = spec_head(frames, op["topic"], op["ctx"])
            got = canon_frame(obs["ok"])
            if want != got:
                props = ["C05"]
                if got is not None and got["ctx"] != op["ctx"]:
                    props.append("C06")
                fails.append({"i": i, "why": "head is not the newest frame of exactly that topic", "want": want, "got": got,
                              "props": c20(props, want, got)})
    return fails


def deep_probe_case(case, trace):
    """extend a case by an exhaustive look through every access path at every (context, topic,
    id) the trace ever mentioned, after every pending gc task has run - used to turn an
    internal (index / registry) difference into an API-visible failing input"""
    ctxs, topics, ids = {ZERO}, set(), set()
    for e in trace:
        op = e["op"]
        for key in ("ctx",):
            if isinstance(op.get(key), str):
                ctxs.add(op[key])
        fr = op.get("frame") if op.get("op") == "import" else (op if op.get("op") == "append" else None)
        if fr:
            if isinstance(fr.get("ctx"), str): ctxs.add(fr["ctx"])
            if isinstance(fr.get("topic"), str): topics.add(fr["topic"])
            if isinstance(fr.get("id"), str): ids.add(fr["id"])
        if op.get("op") == "append" and isinstance(e["obs"].get("ok"), dict):
            ids.add(e["obs"]["ok"]["id"])
        d = e.get("dump") or {}
        for c in d.get("contexts", []):          # whatever the implementation's registry holds is tried as a context
            if isinstance(c, str):
                ctxs.add(c)
        for _, f in d.get("stream", []):
            if isinstance(f, dict) and "ctx" in f:
                ctxs.add(f["ctx"]); topics.add(f["topic"]); ids.add(f["id"])
    # the case is executed again from scratch and every id will be a different one: refer to contexts and frames by
    # the op that produced them ({"ref": i}), as the cases themselves do
    sym = {ZERO: ZERO}
    for i, e in enumerate(trace):
        op = e["op"]
        if op.get("op") == "append" and isinstance(e["obs"].get("ok"), dict):
            sym.setdefault(e["obs"]["ok"]["id"], {"ref": i})
        if op.get("op") == "import" and "ok" in e["obs"] and isinstance(op.get("frame"), dict):
            sym.setdefault(op["frame"].get("id"), {"ref": i})

    def symbolic(vals):
        out, seen = [], set()
        for v in sorted(vals):
            sv = sym.get(v)
            k = json.dumps(sv, sort_keys=True)
            if sv is not None and k not in seen:
                seen.add(k); out.append(sv)
        return out
    ctxs, ids = symbolic(ctxs), symbolic(ids)
    ops = list(case["ops"])
    def sweep():
        for c in ctxs:
            ops.append({"op": "read_sync", "ctx": c, "last": None, "limit": None})
            ops.append({"op": "append", "topic": "70726f6265", "ctx": c, "ttl": "ephemeral", "meta": None, "hash": None})
            for t in sorted(topics):
                if "00" not in [t[j:j + 2] for j in range(0, len(t), 2)]:
                    ops.append({"op": "head", "topic": t, "ctx": c})
        ops.append({"op": "read_sync", "ctx": None, "last": None, "limit": None})
        for i in ids:
            ops.append({"op": "get", "id": i})
    sweep()
    # let head:1 collection count what the index holds, then look again
    for c in ctxs:
        for t in sorted(topics):
            if "00" not in [t[j:j + 2] for j in range(0, len(t), 2)] and t != hx(XSCTX):
                ops.append({"op": "append", "topic": t, "ctx": c, "ttl": "head:1", "meta": None, "hash": None})
    ops.append({"op": "drain"})
    sweep()
    ops.append({"op": "reopen", "how": "kill"})
    sweep()
    return {"name": case["name"] + "-probe", "ops": ops}


def run_cases(cases, jobs=16, gated=True):
    """Execute cases on the implementation (parallel) and on the model."""
    with ThreadPoolExecutor(max_workers=jobs) as ex:
        traces = list(ex.map(lambda c: run_impl(c, gated=gated), cases))
    models = run_model([(c["name"], t) for c, t in zip(cases, traces)])
    out = []
    for c, t in zip(cases, traces):
        m = models.get(c["name"], [])
        out.append({"case": c, "trace": t, "model": m, "diffs": compare(t, m), "api": api_oracle(t)})
    return out
