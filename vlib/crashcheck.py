"""C04: crash durability. Histories are run against the real store in a child process that is
SIGKILLed after an acknowledged operation or in the middle of one; the directory (and torn-tail
variants of it: synced bytes kept, a prefix of the unsynced journal bytes added) is reopened in a
fresh process and compared with the model's state before / after the operation in flight."""
import collections, hashlib, json, os, random, shutil, signal, subprocess, threading, time
from concurrent.futures import ThreadPoolExecutor

from . import common as C
from . import storelayer as S
from . import httpcheck as H

ZERO = "0" * 32


def hx(s):
    return s.encode().hex()


def gen_case(seed):
    r = random.Random(seed)
    ops = [{"op": "open"}]
    use_http = r.random() < 0.5
    if use_http:
        ops.append({"op": "serve"})
    frames = []
    nctx = 0
    if use_http and r.random() < 0.3:
        # two frames with byte-identical content (one blob), then one of them goes - removed, or evicted by head:1
        ttl = r.choice(["", "?ttl=head:1"])
        for _ in range(2):
            ops.append({"op": "http", "method": "POST", "target": "/c" + ttl, "body": b"shared-content", "meta": None})
            frames.append(len(ops) - 1)
        ops.append({"op": "remove", "id": {"ref": frames[0]}} if not ttl else {"op": "drain"})
    for i in range(r.randint(3, 14)):
        k = r.random()
        if k < 0.1:
            ops.append({"op": "append", "topic": hx("xs.context"), "ctx": ZERO, "ttl": None, "meta": None, "hash": None})
            frames.append(len(ops) - 1); nctx += 1
        elif k < 0.55:
            meta = None
            if r.random() < 0.3:
                meta = json.dumps({"pad": "x" * r.choice([10, 5000, 9000, 20000])})   # > 8 KiB frames
            ops.append({"op": "append", "topic": hx(r.choice(["a", "ab", "t"])), "ctx": ZERO,
                        "ttl": r.choice([None, "head:1", "head:2", "forever", "time:3600000"]), "meta": meta, "hash": None})
            frames.append(len(ops) - 1)
        elif k < 0.65 and use_http:
            # now and then the same bytes twice: frames that share one blob; a removal or eviction of one of them must
            # leave the other's content where it is
            body = r.choice([b"shared-content", b"shared-content", bytes(r.randrange(256) for _ in range(r.choice([1, 50, 9000])))])
            ops.append({"op": "http", "method": "POST", "target": "/c" + r.choice(["", "", "?ttl=head:1"]), "body": body, "meta": None})
            frames.append(len(ops) - 1)
        elif k < 0.78 and frames:
            ops.append({"op": "remove", "id": {"ref": r.choice(frames)}})
        elif k < 0.88:
            ops.append({"op": "import", "frame": {"id": {"t0": True, "plus": r.randrange(1, 10 ** 6) * 2 ** 60}, "topic": hx(r.choice(["a", "imp"])),
                                                  "ctx": ZERO, "ttl": None, "meta": None, "hash": None}})
            frames.append(len(ops) - 1)
        else:
            ops.append({"op": r.choice(["drain", "gc"])} if r.random() < 0.8 else {"op": "read_sync", "ctx": None, "last": None, "limit": None})
    writes = [i for i, o in enumerate(ops) if o["op"] in ("append", "import", "remove", "http")]
    kill_at = r.choice(writes) if writes else len(ops) - 1
    mode = r.choice(["after-ack", "mid-op", "mid-op", "mid-op"])
    return {"name": "crash-%d" % seed, "ops": ops, "kill_at": kill_at, "mode": mode, "delay_us": r.choice([0, 20, 60, 120, 250, 500, 1000, 3000])}


def hook_kill_case(seed):
    """an HTTP append with content, the process dying at a sync point inside `Store::append` (the frame's batch committed,
    or just broadcast): the frame is visible in the image, so its content must be too"""
    r = random.Random(seed)
    ops = [{"op": "open"}, {"op": "serve"}]
    for _ in range(r.randint(0, 2)):
        ops.append({"op": "http", "method": "POST", "target": "/c", "body": bytes(r.randrange(256) for _ in range(r.choice([3, 200]))), "meta": None})
    ops.append({"op": "arm_kill", "point": r.choice(["append.commit", "append.broadcast"]), "suffix": "c"})
    ops.append({"op": "http", "method": "POST", "target": "/c" + r.choice(["", "?ttl=head:1"]),
                "body": bytes(r.randrange(256) for _ in range(r.choice([1, 50, 9000]))), "meta": None})
    return {"name": "hook-kill-%d" % seed, "ops": ops, "kill_at": len(ops) - 1, "mode": "hook-kill", "delay_us": 0}


def copy_store(src, dst):
    shutil.rmtree(dst, ignore_errors=True)
    shutil.copytree(src, dst, ignore=shutil.ignore_patterns("sock"))


def reopen_and_look(d, clock, known_ids, hashes):
    """fresh process on the image: must open without error; full look through every path"""
    w = S.Worker()
    out = {"trace": []}
    try:
        obs = w.call({"op": "open", "dir": d, "now": clock, "gated": True}, timeout=60)
        dump = w.call({"op": "dump"}).get("ok")
        out["dump"] = dump
        tr = [{"op": {"op": "open", "now": clock}, "obs": obs, "dump": dump}]
        ctxs = sorted({f["ctx"] for _, f in dump["stream"] if isinstance(f, dict) and "ctx" in f} | {ZERO})
        topics = sorted({f["topic"] for _, f in dump["stream"] if isinstance(f, dict) and "topic" in f})
        look = [{"op": "read_sync", "ctx": None, "last": None, "limit": None}]
        for c in ctxs:
            look.append({"op": "read_sync", "ctx": c, "last": None, "limit": None})
            for t in topics:
                look.append({"op": "head", "topic": t, "ctx": c})
        for i in sorted(known_ids | {k for k, _ in dump["stream"]}):
            look.append({"op": "get", "id": i})
        for op in look:
            o = w.call(op)
            tr.append({"op": op, "obs": o, "dump": dump})
        out["trace"] = tr
        # content of every visible frame with a hash (frames that came through HTTP)
        missing = []
        for _, f in dump["stream"]:
            if isinstance(f, dict) and f.get("hash") in hashes:
                r = w.call({"op": "cas_has", "hash": f["hash"]})
                if r.get("ok") is None or bytes.fromhex(r["ok"]) != hashes[f["hash"]]:
                    missing.append(f["id"])
        out["content_missing"] = missing
    except S.WorkerDied as e:
        out["reopen_failed"] = str(e)[-600:]
    finally:
        w.close()
    return out


ACKED = threading.local()      # the acknowledged trace of the case being judged (op, obs, dump per step)


def model_after(pre_dump, inflight, clock):
    """model state after applying the in-flight op to the acknowledged state, and its reopen. When the acknowledged
    trace is known the model runs through it, so that what it cannot see in a dump - the collector's queue - is there"""
    lines = [json.dumps({"case": "x"}),
             json.dumps({"op": {"op": "open", "now": clock}, "obs": {"ok": None}, "dump": pre_dump})]
    tr = getattr(ACKED, "trace", None)
    if tr:
        lines = [json.dumps({"case": "x"})] + [json.dumps(e) for e in tr]
    if inflight is not None:
        lines.append(json.dumps({"op": inflight["op"], "obs": inflight["obs"]}))
    lines.append(json.dumps({"op": {"op": "open", "now": clock}, "obs": {"ok": None}}))
    p = subprocess.run([C.XSDRV, "http"], input="\n".join(lines) + "\n", stdout=subprocess.PIPE, stderr=subprocess.PIPE, text=True)
    outs = [json.loads(l) for l in p.stdout.splitlines()][1:]
    return outs[-1]["post"]


def same_parts(a, b, with_ctx=True):
    ca, cb = S.canon_dump(a), S.canon_dump(b)
    keys = ["stream", "idx_topic", "idx_context"] + (["contexts"] if with_ctx else [])
    return all(ca[k] == cb[k] for k in keys)


def judge(case, pre_dump, inflight_sym, image_look, clock, frames_by_op):
    """is the recovered image the acknowledged state, or that state plus the whole in-flight op?"""
    if "reopen_failed" in image_look:
        return {"why": "store did not reopen", "detail": image_look["reopen_failed"]}
    D = image_look["dump"]
    if same_parts(D, model_after(pre_dump, None, clock)):
        verdict = None
    else:
        verdict = {"why": "recovered state is neither before nor after the operation in flight"}
        if inflight_sym is not None:
            op = dict(inflight_sym)
            obs = {"ok": None}
            pre_ids = {k for k, _ in pre_dump["stream"]}
            new = [f for k, f in D["stream"] if k not in pre_ids]
            if op["op"] in ("append", "http", "serve") and len(new) == 1:      # (`serve` appends one frame: xs.start)
                obs = {"ok": new[0]}
                if op["op"] == "http":
                    op.setdefault("hx", {})["new_id"] = new[0]["id"]
            elif op["op"] in ("append", "http") and not new:
                obs = {"err": "x"}
            cand = model_after(pre_dump, {"op": op, "obs": obs}, clock)
            if same_parts(D, cand):
                verdict = None
    if verdict is not None and inflight_sym is not None and inflight_sym.get("op") in ("drain", "gc"):
        # the collector removes frame by frame, each removal one atomic batch: a kill in between leaves the acknowledged
        # state minus some of the frames the collector was about to remove - every one of them gone from all partitions
        post = model_after(pre_dump, {"op": dict(inflight_sym), "obs": {"ok": None}}, clock)
        pre_ids = {k for k, _ in pre_dump["stream"]}
        post_ids = {k for k, _ in post["stream"]}
        img_ids = {k for k, _ in D["stream"]}
        if post_ids <= img_ids <= pre_ids:
            gone = pre_ids - img_ids
            partial = dict(pre_dump)
            partial["stream"] = [kv for kv in pre_dump["stream"] if kv[0] not in gone]
            partial["idx_topic"] = [k for k in pre_dump["idx_topic"] if k[-32:] not in gone]
            partial["idx_context"] = [k for k in pre_dump["idx_context"] if k[-32:] not in gone]
            if same_parts(D, partial, with_ctx=False):
                verdict = None
    api = S.api_oracle(image_look["trace"])
    if verdict is None and api:
        verdict = {"why": "lookups disagree on the recovered image: " + api[0]["why"]}
    if verdict is None and image_look.get("content_missing"):
        verdict = {"why": "a visible frame's content is missing from the CAS after a process kill", "frames": image_look["content_missing"]}
    return verdict


def journal_files(d):
    out = []
    for dp, _, fns in os.walk(os.path.join(d, "fjall")):
        for fn in fns:
            p = os.path.join(dp, fn)
            out.append(os.path.relpath(p, d))
    return out


def torn_images(img_acked, img_killed, base, maxn=6):
    """power-loss images: everything synced (the acknowledged image) plus a prefix of the bytes
    the killed process had written since"""
    out = []
    for rel in journal_files(img_killed):
        a, b = os.path.join(img_acked, rel), os.path.join(img_killed, rel)
        if not os.path.exists(a) or "journal" not in rel:
            continue
        da, db = open(a, "rb").read(), open(b, "rb").read()
        if da == db or len(da) != len(db):
            continue
        lo = next(i for i in range(len(da)) if da[i] != db[i])
        hi = max(i for i in range(len(da)) if da[i] != db[i]) + 1
        cuts = sorted({lo + 1, lo + (hi - lo) // 4, lo + (hi - lo) // 2, hi - 9, hi - 1, hi})[:maxn]
        for c in cuts:
            if c <= lo:
                continue
            d = base + "-torn-%d" % c
            copy_store(img_acked, d)
            buf = bytearray(da)
            buf[lo:c] = db[lo:c]
            open(os.path.join(d, rel), "wb").write(bytes(buf))
            out.append((d, c - lo, hi - lo))
    return out


def run_case(case, torn=False):
    base = os.path.join(C.SCRATCH, "c%d-%s-%s" % (os.getpid(), threading.get_ident(), hashlib.sha1(case["name"].encode()).hexdigest()[:8]))
    d = base + "-live"
    shutil.rmtree(d, ignore_errors=True); os.makedirs(d)
    t0 = int(time.time() * 1000)
    res = S.Resolver(t0)
    w = S.Worker()
    acked = []       # concrete trace of acknowledged ops
    known_ids, hashes = set(), {}
    pre_dump = None
    result = {"case": case, "findings": [], "images": 0}
    try:
        inflight = None
        for i, sym in enumerate(case["ops"]):
            op = dict(sym)
            if op["op"] == "open":
                obs = w.call({"op": "open", "dir": d, "now": t0, "gated": True})
                pre_dump = w.call({"op": "dump"}).get("ok")
                continue
            if op["op"] == "http":
                body = op.pop("body", b"")
                op["headers"] = []; op["body_hex"] = body.hex()
                op["hx"] = {"meta_class": "absent", "sse": False, "body_hash": H.ssri(body) if body else ""}
                op.pop("meta", None)
                if body:
                    hashes[H.ssri(body)] = body
            else:
                op = res.op(i, op)
            if i == case["kill_at"] and case["mode"] == "hook-kill":
                # the process kills itself at a sync point inside this operation (armed by the op before): a crash instant
                # between the frame's journal write and whatever the operation does afterwards
                try:
                    w.call(op, timeout=20)
                except S.WorkerDied:
                    pass
                inflight = op
                break
            if i == case["kill_at"] and case["mode"] == "mid-op":
                if torn:
                    copy_store(d, base + "-acked")
                # send the operation and kill the process while it is (probably) in flight
                w.p.stdin.write(json.dumps(op) + "\n"); w.p.stdin.flush()
                time.sleep(case["delay_us"] / 1e6)
                w.p.send_signal(signal.SIGKILL)
                inflight = op
                break
            obs = w.call(op, timeout=60)
            pre_dump = w.call({"op": "dump"}).get("ok")
            res.learn(i, op, obs)
            if op["op"] == "append" and isinstance(obs.get("ok"), dict):
                known_ids.add(obs["ok"]["id"])
            if op["op"] == "http" and op.get("method") == "POST" and obs.get("status") == 200:
                try:     # a frame appended over HTTP can be removed by a later op of the case
                    fr = H.parse_frame_json(json.loads(bytes.fromhex(obs["body_hex"])))
                    res.ids[i] = fr["id"]; res.frames[i] = fr; known_ids.add(fr["id"])
                except Exception:
                    pass
            acked.append({"op": op, "obs": obs})
            if i == case["kill_at"]:
                w.p.send_signal(signal.SIGKILL)
                break
        else:
            w.p.send_signal(signal.SIGKILL)
        w.p.wait(timeout=10)
    except S.WorkerDied as e:
        result["findings"].append({"why": "worker died before the kill", "detail": str(e)[-300:]})
        w.close(); shutil.rmtree(d, ignore_errors=True)
        return result
    finally:
        w.close()
    result["acked"] = len(acked)
    result["inflight"] = {k: v for k, v in inflight.items() if k != "body_hex"} if inflight else None
    images = [(d, "kill")]
    if torn and inflight is not None and os.path.exists(base + "-acked"):
        copy_store(d, base + "-killed")
        for (td, k, n) in torn_images(base + "-acked", base + "-killed", base):
            images.append((td, "torn %d/%d" % (k, n)))
    for img, label in images:
        look = reopen_and_look(img, t0, known_ids, hashes if label == "kill" else {})
        v = judge(case, pre_dump, inflight, look, t0, None)
        result["images"] += 1
        if v:
            v["image"] = label
            result["findings"].append(v)
    for p in [d, base + "-acked", base + "-killed"] + [x for x, _ in images]:
        shutil.rmtree(p, ignore_errors=True)
    return result


class StraceWorker(S.Worker):
    """the worker under strace, SIGKILLed on entry to the n-th write(2) of a thread (any file: journal, partitions,
    stdout) - a crash instant at system-call granularity"""
    def __init__(self, n, calls="write"):
        # (other system calls for the content store: its blobs arrive by rename, and durability points are fsyncs)
        self.p = subprocess.Popen(["strace", "-f", "-qq", "-o", "/dev/null", "-e", "trace=" + calls,
                                   "-e", "inject=%s:signal=SIGKILL:when=%d" % (calls, n), S.XSW, "store"],
                                  stdin=subprocess.PIPE, stdout=subprocess.PIPE, stderr=subprocess.PIPE, text=True, bufsize=1)
        self.timer = None

    def call(self, op, timeout=30):
        try:
            return super().call(op, timeout)
        except json.JSONDecodeError:
            raise S.WorkerDied("killed while writing its answer")     # a torn answer line


def sweep_case(seed):
    """a short history whose writes touch several keys at once: overwriting imports that change topic and context,
    head:1 evictions, removes"""
    r = random.Random(seed)
    ops = [{"op": "open"},
           {"op": "append", "topic": hx("xs.context"), "ctx": ZERO, "ttl": None, "meta": None, "hash": None},
           {"op": "append", "topic": hx("a"), "ctx": ZERO, "ttl": None, "meta": None, "hash": None},
           {"op": "append", "topic": hx("a"), "ctx": {"ref": 1}, "ttl": r.choice([None, "head:1"]), "meta": None, "hash": None}]
    tail = [{"op": "import", "frame": {"same_as": 2, "topic": hx(r.choice(["imp", "a"])), "ctx": {"ref": 1}}},
            {"op": "append", "topic": hx("a"), "ctx": {"ref": 1}, "ttl": "head:1", "meta": None, "hash": None},
            {"op": "drain"},
            {"op": "remove", "id": {"ref": 3}},
            {"op": "import", "frame": {"same_as": 3, "topic": hx("b"), "ctx": ZERO}}]
    r.shuffle(tail)
    return {"name": "sweep-%d" % seed, "ops": ops + tail, "mode": "syscall", "kill_at": None}


def sweep_http_case(seed):
    """appends with content over HTTP: the frame's journal write and the content's arrival in the CAS are separate system
    calls - whichever instant the process dies at, a frame that is visible afterwards has its content"""
    r = random.Random(seed)
    body = lambda: r.choice([b"shared-content", bytes(r.randrange(256) for _ in range(r.choice([5, 300])))])
    ops = [{"op": "open"}, {"op": "serve"}]
    for _ in range(3):
        ops.append({"op": "http", "method": "POST", "target": "/c" + r.choice(["", "?ttl=head:1"]), "body": body(), "meta": None})
    return {"name": "sweep-http-%d" % seed, "ops": ops, "mode": "syscall", "kill_at": None}


def run_case_at_write(case, n):
    """run `case`; the process dies on entry to its n-th write. Returns (result | None when it survived)"""
    base = os.path.join(C.SCRATCH, "s%d-%s-%s-%d" % (os.getpid(), threading.get_ident(), hashlib.sha1(case["name"].encode()).hexdigest()[:8], n))
    d = base + "-live"
    shutil.rmtree(d, ignore_errors=True); os.makedirs(d)
    t0 = int(time.time() * 1000)
    res = S.Resolver(t0)
    w = StraceWorker(n, case.get("calls", "write"))
    known_ids = set()
    hashes = {}
    pre_dump, inflight, died = None, None, False
    acked = 0
    trace = []
    try:
        for i, sym in enumerate(case["ops"]):
            op = dict(sym)
            try:
                if op["op"] == "open":
                    o0 = w.call({"op": "open", "dir": d, "now": t0, "gated": True})
                    pre_dump = w.call({"op": "dump"}).get("ok")
                    trace.append({"op": {"op": "open", "now": t0}, "obs": o0, "dump": pre_dump})
                    continue
                if op["op"] == "http":
                    body = op.pop("body", b"")
                    op["headers"] = []; op["body_hex"] = body.hex()
                    op["hx"] = {"meta_class": "absent", "sse": False, "body_hash": H.ssri(body) if body else ""}
                    op.pop("meta", None)
                    if body:
                        hashes[H.ssri(body)] = body
                else:
                    op = res.op(i, op)
                obs = w.call(op, timeout=60)
                # the op is acknowledged; if the process dies while the state is being dumped the image may only be
                # the state after this op: judged as "previous state + this op as a whole"
                inflight = op
                dump = w.call({"op": "dump"}).get("ok")
                pre_dump, inflight = dump, None
                trace.append({"op": op, "obs": obs, "dump": dump})
                res.learn(i, op, obs)
                if op["op"] == "append" and isinstance(obs.get("ok"), dict):
                    known_ids.add(obs["ok"]["id"])
                acked += 1
            except S.WorkerDied:
                died = True
                if inflight is None:
                    inflight = op if op["op"] != "open" else None
                break
        if not died:
            return None
    finally:
        w.close()
    result = {"case": dict(case, kill_at=n), "findings": [], "images": 1, "acked": acked,
              "inflight": {k: v for k, v in inflight.items() if k != "body_hex"} if inflight else None}
    if pre_dump is None:
        shutil.rmtree(d, ignore_errors=True)
        return result               # died before the store was open: nothing to judge
    look = reopen_and_look(d, t0, known_ids, hashes)
    ACKED.trace = trace
    try:
        v = judge(case, pre_dump, inflight, look, t0, None)
    finally:
        ACKED.trace = None
    if v:
        v["image"] = "killed on entry to %s #%d" % (case.get("calls", "write"), n)
        result["findings"].append(v)
    shutil.rmtree(d, ignore_errors=True)
    return result


def syscall_sweep(seed, max_n, http=False, calls="write"):
    """every crash instant of a case at write(2) granularity, until the case runs to its end"""
    case = dict(sweep_http_case(seed) if http else sweep_case(seed), calls=calls)
    out = []
    with ThreadPoolExecutor(max_workers=12) as ex:
        for chunk_start in range(1, max_n + 1, 24):
            rs = list(ex.map(lambda n: run_case_at_write(case, n), range(chunk_start, min(chunk_start + 24, max_n + 1))))
            out += [r for r in rs if r is not None]
            if any(r is None for r in rs):
                break
    return out


def sync_discipline(seed, n_ops=12):
    """power-loss half of C04 at system-call level: run a history under strace and check that
    whenever the worker acknowledges an operation (write to stdout) every byte written to a
    journal file so far has been followed by fsync/fdatasync on that file"""
    import re
    r = random.Random(seed)
    d = os.path.join(C.SCRATCH, "s%d-%d" % (os.getpid(), seed))
    shutil.rmtree(d, ignore_errors=True); os.makedirs(d)
    t0 = int(time.time() * 1000)
    ops = [{"op": "open", "dir": d, "gated": True, "now": t0}]
    ids = []
    for k in range(n_ops):
        c = r.random()
        if c < 0.5:
            ops.append({"op": "append", "topic": hx(r.choice(["a", "b"])), "ctx": ZERO, "ttl": r.choice([None, "head:1"]),
                        "meta": json.dumps({"pad": "x" * r.choice([1, 9000])}) if r.random() < 0.3 else None, "hash": None})
        elif c < 0.75:
            i = "%032x" % ((t0 << 80) + r.randrange(2 ** 70))
            ids.append(i)
            ops.append({"op": "import", "frame": {"id": i, "topic": hx("imp"), "ctx": ZERO, "ttl": None, "meta": None, "hash": None}})
        elif ids:
            ops.append({"op": "remove", "id": r.choice(ids)})
        else:
            ops.append({"op": "drain"})
    ops.append({"op": "drain"})
    ops.append({"op": "exit", "how": "kill"})
    log = d + ".strace"
    p = subprocess.run(["strace", "-f", "-e", "trace=write,pwrite64,writev,fsync,fdatasync,openat,close", "-o", log, C.XSW, "store"],
                       input="\n".join(json.dumps(o) for o in ops) + "\n", stdout=subprocess.PIPE, stderr=subprocess.PIPE, text=True)
    fds, dirty, pending = {}, {}, {}
    problems, acks = [], 0
    try:
        for line in open(log, errors="replace"):
            m = re.match(r"(\d+) +(.*)", line)
            if not m:
                continue
            pid, rest = m.group(1), m.group(2)
            mo = re.match(r'openat\(.*?"([^"]*)".*\) = (\d+)', rest)
            if mo and "/fjall/journals/" in mo.group(1):
                fds[mo.group(2)] = mo.group(1); continue
            mc = re.match(r"close\((\d+)\)", rest)
            if mc and mc.group(1) in fds:
                fds.pop(mc.group(1), None); dirty.pop(mc.group(1), None); continue
            mw = re.match(r"(write|pwrite64|writev)\((\d+),", rest)
            if mw:
                fd = mw.group(2)
                if fd in fds:
                    dirty[fd] = True
                elif fd == "1" and mw.group(1) == "write":
                    acks += 1
                    bad = [fds[f] for f, v in dirty.items() if v]
                    if bad:
                        problems.append({"ack": acks, "unsynced_journal": bad})
                continue
            ms = re.match(r"(fsync|fdatasync)\((\d+)", rest)
            if ms:
                if "unfinished" in rest:
                    pending[pid] = ms.group(2)
                else:
                    dirty[ms.group(2)] = False
                continue
            mr = re.match(r"<\.\.\. (fsync|fdatasync) resumed>", rest)
            if mr and pid in pending:
                dirty[pending.pop(pid)] = False
    finally:
        shutil.rmtree(d, ignore_errors=True)
        try:
            os.remove(log)
        except OSError:
            pass
    return {"ops": len(ops), "acks": acks, "problems": problems[:3], "journal_files": sorted(set(fds.values()))}


def run(prop, tier, seed, replay=None):
    t_start = time.time()
    ok, out, dt = C.build_harness()
    if not ok:
        print("harness build against /repo failed:\n" + out[-3000:])
        return 2
    aud = C.audit(prop)
    theorem_broken = [f["theorem"] for f in aud["failures"]]
    if replay:
        cases = [json.load(open(replay))["case"]]
        for c in cases:
            for o in c["ops"]:
                if isinstance(o.get("body"), str):
                    o["body"] = bytes.fromhex(o["body"])
    else:
        n = 48 if tier == "quick" else 1200
        cases = [gen_case(seed * 9973 + k) for k in range(n)]
        cases += [hook_kill_case(seed * 67 + k) for k in range(6 if tier == "quick" else 60)]
    ntorn = 10 if tier == "quick" else 300
    with ThreadPoolExecutor(max_workers=12) as ex:
        results = list(ex.map(lambda ci: run_case(ci[1], torn=ci[0] < ntorn), enumerate(cases)))
    sync_runs = [sync_discipline(seed * 31 + k) for k in range(3 if tier == "quick" else 40)]
    sweeps = []
    if not replay:
        for k in range(2 if tier == "quick" else 12):
            sweeps += syscall_sweep(seed * 53 + k, 160 if tier == "quick" else 400)
        for k in range(1 if tier == "quick" else 6):
            sweeps += syscall_sweep(seed * 59 + k, 200 if tier == "quick" else 400, http=True)
    results = results + sweeps
    findings = [(r, f) for r in results for f in r["findings"]]
    for k, sr in enumerate(sync_runs):
        if sr["problems"]:
            findings.append(({"case": {"name": "sync-discipline-%d" % k, "ops": [], "mode": "strace", "kill_at": None}, "acked": sr["acks"], "inflight": None, "images": 0},
                             {"why": "an operation was acknowledged while journal bytes were not yet fsynced (power loss would drop an acknowledged write)", "detail": sr["problems"]}))
    modes = collections.Counter((r["case"]["mode"], (r.get("inflight") or {}).get("op")) for r in results)
    n_images = sum(r["images"] for r in results)
    rc, lines = 0, []
    if findings:
        r, f = findings[0]
        c = dict(r["case"]); c["ops"] = [dict(o, body=o["body"].hex()) if isinstance(o.get("body"), bytes) else o for o in c["ops"]]
        path = C.write_replay(prop, {"property": prop, "tier": tier, "seed": seed, "layer": "crash", "case": c, "finding": f,
                                     "acked_ops": r.get("acked"), "inflight": r.get("inflight")})
        lines.append(f"VIOLATION property={prop} replay={path}")
        rc = 1
    elif theorem_broken:
        path = C.write_replay(prop, {"property": prop, "case": None, "broken": "theorem:" + theorem_broken[0], "findings": aud["failures"][:3]})
        lines.append(f"VIOLATION property={prop} replay={path} no-failing-input-found")
        rc = 1
    cov = {
        "obligations": aud["obligations"], "discharged": aud["discharged"],
        "checker_cmd": f"cd /verif/lean && lake build {aud['module']} && lake env lean .lake/audit_{prop}.lean",
        "trusted_base": C.TRUSTED_BASE + [
            "fjall journal: a batch is recovered iff it is completely on disk; persist(SyncAll) returns after the bytes are durable (assumed by the theorems; exercised on real kill and torn-tail images)",
            "the OS keeps completed writes of a killed process; a power-loss image = synced bytes + a prefix of unsynced ones (simulated on the journal file)"],
        "theorems": aud["theorems"], "axioms": aud["axioms"], "theorem_failures": aud["failures"],
        "traces_validated_against_impl": len(results), "evaluations": n_images,
        "distinct_nontrivial": len({(r["case"]["name"]) for r in results if r.get("acked", 0) >= 2}),
        "rule": "seeded histories (appends incl. > 8 KiB frames and head/time TTLs, HTTP appends with content, imports, removes, gc) run in a child "
                "process that is SIGKILLed right after an acknowledged write or a random 0–3000 µs into the next one; the image (and, for a subset, torn-tail "
                "variants: acknowledged image + a prefix of the journal bytes written since) is reopened in a fresh process, dumped and read through every path; "
                "it must equal the acknowledged state or that state plus the whole in-flight operation (model-computed), lookups must agree, content of visible "
                "hashed frames must be present; plus syscall-granular sweeps: short histories with multi-key writes (overwriting imports that change topic and context, "
                "head:1 evictions, removes) run under strace with SIGKILL injected on entry to the n-th write(2), for every n until the history completes; "
                "non-trivial = at least two acknowledged operations before the kill",
        "samples": [{"name": r["case"]["name"], "mode": r["case"]["mode"], "kill_at": r["case"]["kill_at"], "acked": r.get("acked"),
                     "inflight": (r.get("inflight") or {}).get("op"), "images": r["images"]} for r in results[:4]],
        "kill_modes": {"%s/%s" % k: v for k, v in modes.items()},
        "images_reopened": n_images, "syscall_sweep_images": len(sweeps),
        "sync_discipline_runs": [{k: v for k, v in sr.items() if k != "journal_files"} for sr in sync_runs],
    }
    if tier == "thorough":
        okc, outc = C.leanchecker(aud["module"])
        cov["leanchecker"] = "ok" if okc else outc
    C.write_evidence(prop, tier, seed, cov, time.time() - t_start, len(findings), ["fjall's journal contract", "tmpfs-backed store directory (fsync is a no-op there: kill images are exact, power loss is simulated)"])
    for l in lines:
        print(l)
    print(f"{prop}: {'FAIL' if rc else 'ok'}  theorems {aud['discharged']}/{aud['obligations']}  cases {len(results)}  images {n_images}  {time.time() - t_start:.1f}s")
    return rc
