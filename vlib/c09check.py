"""C09: the sequential store histories (storecheck) + the streaming read path with the clock moving while a history
scan is under way (schedule controller, followlayer.expiry_scan_scenario)."""
import json, os
from concurrent.futures import ThreadPoolExecutor
from . import common as C
from . import storecheck
from . import followlayer as F


def run(prop, tier, seed, replay=None):
    if replay:
        pl = json.load(open(replay))
        if pl.get("layer") != "expiry-scan":
            return storecheck.run(prop, tier, seed, replay)
        specs = [pl["case"]]
    else:
        rc1 = storecheck.run(prop, tier, seed)
        specs = [F.expiry_scan_scenario(seed * 101 + k) for k in range(12 if tier == "quick" else 150)]
    with ThreadPoolExecutor(max_workers=8) as ex:
        ress = list(ex.map(F.run_impl, specs))
    bad = []
    for sp, res in zip(specs, ress):
        fs = F.expiry_scan_oracle(sp, res)
        if fs:
            bad.append((sp, res, fs))
    rc2 = 0
    if bad:
        sp, res, fs = bad[0]
        path = C.write_replay(prop, {"property": prop, "tier": tier, "seed": seed, "layer": "expiry-scan", "case": sp, "findings": fs,
                                     "impl": {"history": res.get("history"), "out": (res.get("readers") or {}).get("r1"), "steps": res.get("steps")}})
        print(f"VIOLATION property={prop} replay={path}")
        rc2 = 1
    print(f"{prop}: {'FAIL' if rc2 else 'ok'}  expiry-during-scan scenarios {len(specs)}")
    if replay:
        return rc2
    p = os.path.join(C.VERIF, "evidence", prop + ".json")
    ev = json.load(open(p))
    cov = ev["coverage"]
    cov["traces_validated_against_impl"] += len(specs)
    cov["evaluations"] += len(specs)
    cov["rule"] += (" || streaming read path: a reader parked (sync point hist.send) before its first delivery, the clock moved past the expiry of "
                    "time:N frames further on in the history, the scan released: none of those frames may be delivered, every other frame must be")
    cov["expiry_during_scan"] = {"scenarios": len(specs), "failures": len(bad)}
    ev["violations"] = ev.get("violations", 0) + len(bad)
    json.dump(ev, open(p, "w"), indent=1, sort_keys=True)
    return 1 if (rc1 or rc2) else 0
