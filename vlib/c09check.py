"""C09: the sequential store histories (storecheck) + the streaming read path with the clock moving while a history
scan is under way (schedule controller, followlayer.expiry_scan_scenario)."""
import json, os
from concurrent.futures import ThreadPoolExecutor
from . import common as C
from . import storecheck
from . import followlayer as F


def run(prop, tier, seed, replay=None):
    if replay:
        pl = json.load(open(replay))
        if pl.get("layer") != "expiry-scan":
            return storecheck.run(prop, tier, seed, replay)
        specs = [pl["case"]]
    else:
        rc1 = storecheck.run(prop, tier, seed)
        specs = [F.expiry_scan_scenario(seed * 101 + k) for k in range(12 if tier == "quick" else 150)]
    with ThreadPoolExecutor(max_workers=8) as ex:
        ress = list(ex.map(F.run_impl, specs))
    bad = []
    for sp, res in zip(specs, ress):
        fs = F.expiry_scan_oracle(sp, res)
        if fs:
            bad.append((sp, res, fs))
    rc2 = 0
    if bad:
        sp, res, fs = bad[0]
        path = C.write_replay(prop, {"property": prop, "tier": tier, "seed": seed, "layer": "expiry-scan", "case": sp, "findings": fs,
                                     "impl": {"history": res.get("history"), "out": (res.get("readers") or {}).get("r1"), "steps": res.get("steps")}})
        print(f"VIOLATION property={prop} replay={path}")
        rc2 = 1
    print(f"{prop}: {'FAIL' if rc2 else 'ok'}  expiry-during-scan scenarios {len(specs)}")
    if replay:
        return rc2
    # ephemeral frames: never stored, yet handed to every follower subscribed when they are broadcast - the controlled
    # schedules of the follow layer (writers with ephemeral appends racing a reader's subscription), judged by the follow
    # LTS and its oracles; a finding that names an ephemeral frame of the scenario speaks about C09
    from . import followcheck as K
    fspecs = [F.gen_scenario(seed * 7919 + k) for k in range(60 if tier == "quick" else 600)]
    fres = F.run_all(fspecs)
    eph_bad = []
    for r in fres:
        res = r["res"]
        eph = {x["ok"]["id"] for rs in res.get("writers", {}).values() for x in rs if "ok" in x and x["ok"].get("ttl") == "ephemeral"}
        eph |= {x["ok"]["id"] for x in res.get("main_appends", []) if "ok" in x and x["ok"].get("ttl") == "ephemeral"}
        for it in r["fails"] + r["diffs"]:
            if K.relevant(it) & {"C02", "C03"} and any(i in json.dumps(it) for i in eph):
                eph_bad.append((r, it))
                break
    if len({r["spec"]["name"] for r, _ in eph_bad}) == 1:           # a lone finding is confirmed by re-execution (see followcheck)
        r0, _ = eph_bad[0]
        again = False
        for _ in range(4):
            rr = F.run_all([r0["spec"]], jobs=1)[0]
            if any(K.relevant(it) & {"C02", "C03"} for it in rr["fails"] + rr["diffs"]):
                again = True
                break
        if not again:
            eph_bad = []
    rc3 = 0
    if eph_bad:
        r0, it0 = eph_bad[0]
        path = C.write_replay(prop, {"property": prop, "tier": tier, "seed": seed, "layer": "follow", "case": r0["spec"], "findings": [it0],
                                     "impl": {"log": r0["res"].get("log"), "readers": r0["res"].get("readers")}})
        print(f"VIOLATION property={prop} replay={path}")
        rc3 = 1
    print(f"{prop}: {'FAIL' if rc3 else 'ok'}  ephemeral frames under controlled schedules: scenarios {len(fspecs)}")
    rc2 = rc2 or rc3
    p = os.path.join(C.VERIF, "evidence", prop + ".json")
    ev = json.load(open(p))
    cov = ev["coverage"]
    cov["traces_validated_against_impl"] += len(specs)
    cov["evaluations"] += len(specs)
    cov["rule"] += (" || streaming read path: a reader parked (sync point hist.send) before its first delivery, the clock moved past the expiry of "
                    "time:N frames further on in the history, the scan released: none of those frames may be delivered, every other frame must be")
    cov["expiry_during_scan"] = {"scenarios": len(specs), "failures": len(bad)}
    cov["ephemeral_follow"] = {"scenarios": len(fspecs), "failures": len(eph_bad)}
    cov["traces_validated_against_impl"] += len(fspecs)
    cov["rule"] += (" || ephemeral frames: controlled follow schedules (followlayer) with ephemeral appends racing the reader's subscription; "
                    "findings of the follow LTS / oracles that name an ephemeral frame")
    ev["violations"] = ev.get("violations", 0) + len(bad) + len(eph_bad)
    json.dump(ev, open(p, "w"), indent=1, sort_keys=True)
    return 1 if (rc1 or rc2) else 0
