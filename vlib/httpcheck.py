"""C13 / C10 / C06(front end): request sequences against the real HTTP server (raw bytes over
its unix socket) and against the Lean Route model."""
import base64, collections, hashlib, json, os, random, re, shutil, subprocess, threading, time
from concurrent.futures import ThreadPoolExecutor

from . import common as C
from . import storelayer as S

ZERO = "0" * 32
B36 = "0123456789abcdefghijklmnopqrstuvwxyz"


def b36(n, w=25):
    s = ""
    for _ in range(w):
        s = B36[n % 36] + s
        n //= 36
    return s


def hex_to_b36(h):
    return b36(int(h, 16))


def b36_to_hex(t):
    return "%032x" % int(t, 36)


def ssri(body):
    return "sha256-" + base64.b64encode(hashlib.sha256(body).digest()).decode()


METAS = [b'{"a":1}', b'{"k":"v","n":[1,2,{"x":null}]}', b'"s"', b'[]', b'null', b'{"handler_id":"h","frame_id":"f"}', b'12', b'{"e":"\xc3\xa9"}']


def classify_meta(raw):
    """what decoding an xs-meta header value gives (mirrors api.rs: to_str, base64 STANDARD, utf8, json)"""
    if raw is None:
        return {"meta_class": "absent"}
    if any(b < 32 and b != 9 or b > 126 for b in raw):
        return {"meta_class": "notAscii"}
    try:
        dec = base64.b64decode(raw, validate=True)
        if base64.b64encode(dec) != raw:
            return {"meta_class": "badBase64"}
    except Exception:
        return {"meta_class": "badBase64"}
    try:
        txt = dec.decode("utf-8")
    except Exception:
        return {"meta_class": "badUtf8"}

    def bad_const(x):
        raise ValueError(x)
    try:
        v = json.loads(txt, parse_constant=bad_const)
    except Exception:
        return {"meta_class": "badJson"}
    return {"meta_class": "value", "meta_text": json.dumps(v), "meta_null": v is None}


class Gen:
    def __init__(self, rng):
        self.r = rng
        self.ops = []
        self.frames = []   # op indices whose response is a stored frame
        self.ctxs = []     # op indices of context registrations
        self.hashes = []   # bodies posted
        self.topics = ["a", "ab", "t", "x.y", "head", "cas", "a/b"]

    def add(self, op):
        self.ops.append(op)
        return len(self.ops) - 1

    def ctx_q(self):
        k = self.r.random()
        if k < 0.45 or not self.ctxs:
            return None
        if k < 0.85:
            return "@{%d}" % self.r.choice(self.ctxs)
        return self.r.choice([b36(0xdead << 100), "nonsense", "", b36(5)[:24]])

    def body(self):
        k = self.r.random()
        if k < 0.3:
            return b""
        if k < 0.6:
            return self.r.choice([b"hello", b"x", b"\xff\xfe\x00bin", b"{}"])
        if k < 0.9:
            return bytes(self.r.randrange(256) for _ in range(self.r.choice([2, 17, 300])))
        return bytes([self.r.randrange(256)]) * self.r.choice([8191, 8192, 8193, 70000])

    def meta_raw(self):
        k = self.r.random()
        if k < 0.5:
            return None
        if k < 0.8:
            return base64.b64encode(self.r.choice(METAS))
        # (bytes that are not UTF-8 on their own, and inside a string of otherwise valid JSON: both refused, not repaired)
        return self.r.choice([b"!!!notbase64", base64.b64encode(b"\xff\xfe"), base64.b64encode(b'{"k":"a\xffb"}'), base64.b64encode(b"{bad json"),
                              b"caf\xc3\xa9", b"e30", base64.b64encode(b'{"a":1}')[:-1], b"\xe9"])

    def op_register(self):
        i = self.add({"op": "http", "method": "POST", "target": "/xs.context", "body": b"", "meta": None})
        self.ctxs.append(i); self.frames.append(i)

    def op_append(self):
        topic = self.r.choice(self.topics + ["xs.context", "", "é".encode().decode("latin1") if False else "e"])
        q = []
        t = self.r.choice([None, None, "forever", "ephemeral", "time:1000", "head:2", "head:0", "time:-1", "bogus", "time%3A5"])
        if t is not None:
            q.append("ttl=" + t)
        c = self.ctx_q()
        if c is not None:
            q.append("context=" + c)
        if self.r.random() < 0.1:
            q.append("x=1")
        target = "/" + topic + ("?" + "&".join(q) if q else "")
        body = self.body()
        i = self.add({"op": "http", "method": "POST", "target": target, "body": body, "meta": self.meta_raw(),
                      # an empty body too may come with chunked framing (just the terminating chunk: what a streaming client sends
                      # when it had nothing to send) - still "without a body": no hash
                      "chunked": (self.r.choice([None, None, 1, 7, 4096]) if len(body) <= 400 else self.r.choice([None, 4096, 1000])),
                      "read_ms": 4000})
        self.frames.append(i)
        if body:
            self.hashes.append(body)

    def id_t(self):
        k = self.r.random()
        if k < 0.6 and self.frames:
            return "@{%d}" % self.r.choice(self.frames)
        if k < 0.8:
            return b36(self.r.randrange(2 ** 128))
        return self.r.choice(["abc", "z" * 25, "0" * 24, "head", "cas", "import", "version/", "%41" * 25, ""])

    def op_remove(self):
        """DELETE a frame that exists: its content may be shared with other frames and must stay retrievable (C10)"""
        if not self.frames:
            return self.op_append()
        self.add({"op": "http", "method": "DELETE", "target": "/@{%d}" % self.r.choice(self.frames)})

    def op_get(self):
        self.add({"op": "http", "method": self.r.choice(["GET", "GET", "DELETE"]), "target": "/" + self.id_t()})

    def op_cat(self):
        q = []
        if self.r.random() < 0.5:
            c = self.ctx_q()
            if c is not None:
                q.append("context-id=" + c)
        if self.r.random() < 0.4:
            q.append("last-id=" + self.id_t())
        if self.r.random() < 0.4:
            q.append("limit=" + self.r.choice(["0", "1", "2", "100", "-1", "x", "+3"]))
        if self.r.random() < 0.25:
            q.append("tail" + self.r.choice(["", "=true", "=false", "=no"]))
        follow = self.r.random() < 0.25
        if follow:
            q.append("follow" + self.r.choice(["=true", "", "=yes", "=maybe", "=50"]))
        if self.r.random() < 0.05:
            q.append("limit=1")   # duplicate key
        target = "/" + ("?" + "&".join(q) if q else self.r.choice(["", "?"]))
        op = {"op": "http", "method": "GET", "target": target, "sse": self.r.random() < 0.3, "read_ms": 350 if follow else 1500}
        if self.r.random() < 0.2:
            op["accept_raw"] = self.r.choice([b"text/caf\xe9", b"*/*", b"text/event-stream; q=1", b"TEXT/EVENT-STREAM", b"\xff\xfe",
                                              b"application/x-ndjson", b"text/event-stream"])
        self.add(op)

    def op_head(self):
        t = self.r.choice(self.topics + ["nope", "xs.context", ""])
        q = []
        c = self.ctx_q()
        if c is not None:
            q.append("context=" + c)
        self.add({"op": "http", "method": "GET", "target": "/head/" + t + ("?" + "&".join(q) if q else "")})

    def op_head_follow(self):
        """a head --follow stream open across appends to the same topic in two contexts"""
        if not self.ctxs:
            return self.op_head()
        t = self.r.choice(["t", "a"])
        ca = "@{%d}" % self.r.choice(self.ctxs)
        name = "bg%d" % len(self.ops)
        # the follower's own context: a registered one, or the default (zero) context - spelled out or left out; the
        # default context is a context like any other: nothing of another one comes through
        fc = self.r.choice([ca, ca, None, "0" * 25])
        self.add({"op": "http_bg", "name": name, "method": "GET",
                  "target": "/head/%s?follow=true" % t + ("&context=" + fc if fc else "")})
        for _ in range(self.r.randint(1, 3)):
            c = self.r.choice([None, ca, ca])
            tt = self.r.choice([t, t, "other", t + "x", t + ".y", t[:-1] or "z"])   # prefix-related topics must not leak in
            i = self.add({"op": "http", "method": "POST", "target": "/" + tt + ("?context=" + c if c else ""), "body": b"", "meta": None})
            self.frames.append(i)
        self.add({"op": "http_collect", "name": name})

    def op_cat_follow_bg(self):
        c = self.ctx_q() if self.ctxs else None
        name = "bg%d" % len(self.ops)
        self.add({"op": "http_bg", "name": name, "method": "GET",
                  "target": "/?follow=true" + ("&context-id=" + c if c and c.startswith("@") else ""), "sse": self.r.random() < 0.3})
        for _ in range(self.r.randint(1, 3)):
            cc = self.r.choice([None] + ["@{%d}" % k for k in self.ctxs])
            i = self.add({"op": "http", "method": "POST", "target": "/t" + ("?context=" + cc if cc else "") +
                          self.r.choice(["", "&ttl=ephemeral" if cc else "?ttl=ephemeral"]), "body": b"", "meta": None})
            self.frames.append(i)
        self.add({"op": "http_collect", "name": name})

    def op_cat_follow_pulse(self):
        """GET /?follow=<ms>&limit=N held open over heartbeats: pulses are markers, they never use up the limit"""
        k = self.r.randint(1, 3)
        name = "bg%d" % len(self.ops)
        # the limit is beyond what the history holds, so the live phase has to supply the rest
        n = len(self.frames) + len(self.ctxs) + k
        self.add({"op": "http_bg", "name": name, "method": "GET", "target": "/?follow=40&limit=%d" % n, "sse": self.r.random() < 0.3})
        self.add({"op": "http_collect", "name": "no-such-connection", "settle_ms": 130})   # a few heartbeats pass
        for _ in range(k + self.r.randint(0, 2)):
            i = self.add({"op": "http", "method": "POST", "target": "/t", "body": b"", "meta": None})
            self.frames.append(i)
        self.add({"op": "http_collect", "name": name})

    def op_cas(self):
        k = self.r.random()
        if k < 0.4:
            body = self.body()
            # tiny chunks only for small bodies: tens of thousands of 3-byte chunks take longer than the read timeout on a
            # loaded machine and would be mistaken for a hung connection
            ch = (self.r.choice([None, 3]) if len(body) <= 2000 else self.r.choice([None, 4096, 1000]))
            self.add({"op": "http", "method": "POST", "target": "/cas", "body": body, "chunked": ch,
                      "read_ms": 4000 if len(body) > 2000 else 1500})
            if body:
                self.hashes.append(body)
        elif k < 0.75 and self.hashes:
            self.add({"op": "http", "method": "GET", "target": "/cas/" + ssri(self.r.choice(self.hashes))})
        else:
            self.add({"op": "http", "method": "GET", "target": "/cas/" + self.r.choice(
                [ssri(b"never written"), "sha256-", "nonsense", "sha256-!!!!", "", "md5-1B2M2Y8AsgTpgAmY7PhCfg=="])})

    def op_import(self):
        k = self.r.random()
        if k < 0.5:
            fr = {"topic": self.r.choice(["imp", "a", "xs.context", "a\u0000b"]),
                  "context_id": self.r.choice(["0" * 25, "0" * 25, b36(self.r.randrange(2 ** 100))]),
                  "id": b36((int(time.time() * 1000) << 80) + self.r.randrange(2 ** 80)),
                  "hash": self.r.choice([None, ssri(b"hello")]), "meta": self.r.choice([None, {"a": 1}, [[1]]]),
                  "ttl": self.r.choice([None, "forever", "head:1", "time:5"])}
            body = json.dumps(fr).encode()
        elif k < 0.7 and self.frames:
            body = ("@frame{%d}" % self.r.choice(self.frames)).encode()
        else:
            body = self.r.choice([b"{", b"[]", b'{"topic":"t"}', b'{"topic":"t","context_id":"x","id":"y"}', b"",
                                  json.dumps({"topic": "t", "context_id": "0" * 25, "id": "0" * 25, "ttl": "head:0"}).encode()])
        i = self.add({"op": "http", "method": "POST", "target": "/import", "body": body})
        self.frames.append(i)

    def op_bad_body(self):
        """a body that cannot be read to its end: broken chunk framing, or fewer bytes than Content-Length announces and
        then the client stops sending - a client error, answered 4xx, nothing stored (no frame, no content)"""
        target = self.r.choice(["/t", "/t?ttl=forever", "/cas", "/import", "/a?context=" + (self.ctx_q() or "0" * 25)])
        if self.r.random() < 0.5:
            tail = self.r.choice([b"5\r\nhello\r\nZZ\r\n", b"3\r\nabc\r\n-1\r\n", b"5\r\nhel", b"g\r\n"])
            # the client stops sending afterwards: a body that merely has not arrived yet is not an error, the server waits
            op = {"op": "http", "method": "POST", "target": target, "raw_tail_hex": tail.hex(), "te_chunked": True,
                  "half_close": True}
        else:
            part = self.r.choice([b"0123456789", b"{\"topic\":", b""])
            op = {"op": "http", "method": "POST", "target": target, "raw_tail_hex": part.hex(), "content_length": len(part) + self.r.choice([1, 90]),
                  "half_close": True}
        op["read_ms"] = 2500
        self.add(op)

    def op_misc(self):
        self.add(self.r.choice([
            {"op": "http", "method": "GET", "target": "/version"},
            {"op": "http", "method": "GET", "target": "/version", "accept_raw": b"text/caf\xe9"},
            {"op": "http", "method": "GET", "target": "/head/t", "accept_raw": b"\xe9"},
            {"op": "http", "method": "POST", "target": "/t", "body": b"", "meta": None, "accept_raw": b"caf\xe9"},
            {"op": "http", "method": "GET", "target": "/version?x=1"},
            {"op": "http", "method": "PUT", "target": "/a", "body": b"x"},
            {"op": "http", "method": "PATCH", "target": "/"},
            {"op": "http", "method": "GET", "target": "//"},
            {"op": "http", "method": "POST", "target": "//a//b", "body": b"", "meta": None},
            {"op": "http", "method": "GET", "target": "/head"},
            {"op": "http", "method": "GET", "target": "/cas"},
            {"op": "http", "method": "DELETE", "target": "/"},
            {"op": "drain"},
        ]))

    def build(self, n, weights):
        self.add({"op": "open"})
        self.add({"op": "serve"})
        for _ in range(self.r.choice([1, 2, 2])):
            self.op_register()
        names = list(weights)
        for _ in range(n):
            getattr(self, "op_" + self.r.choices(names, [weights[k] for k in names])[0])()
        self.add({"op": "drain"})
        self.add({"op": "http", "method": "GET", "target": "/"})
        for k in self.ctxs:
            self.add({"op": "http", "method": "GET", "target": "/?context-id=@{%d}" % k})
        # content written once stays retrievable whatever was removed, evicted or expired since (C10)
        seen = []
        for b in self.hashes:
            if b not in seen:
                seen.append(b)
        for b in seen[:8]:
            self.add({"op": "http", "method": "GET", "target": "/cas/" + ssri(b), "read_ms": 4000})
        return self.ops


WEIGHTS = {
    "C13": {"append": 30, "get": 14, "cat": 14, "head": 8, "cas": 8, "import": 8, "misc": 8, "head_follow": 3, "cat_follow_bg": 3, "cat_follow_pulse": 2, "register": 2, "bad_body": 4, "remove": 3},
    "C10": {"append": 40, "cas": 30, "get": 5, "remove": 10, "cat": 8, "head": 4, "import": 3, "misc": 3, "cat_follow_bg": 5, "bad_body": 5},
    "C06": {"append": 35, "cat": 15, "head": 12, "head_follow": 12, "cat_follow_bg": 10, "register": 6, "get": 4, "import": 4},
}


def gen_case(seed, prop):
    r = random.Random(seed)
    g = Gen(r)
    return {"name": "http-%s-%d" % (prop, seed), "ops": g.build(r.randint(8, 30), WEIGHTS[prop])}


# ---------------------------------------------------------------------------

def parse_frame_json(obj):
    """HTTP frame JSON -> protocol frame"""
    return {"id": b36_to_hex(obj["id"]), "ctx": b36_to_hex(obj["context_id"]), "topic": obj["topic"].encode().hex(),
            "hash": obj.get("hash"), "meta": obj.get("meta"), "ttl": obj.get("ttl"), "meta_is_value": True}


def frame_to_http_json(f):
    meta = f.get("meta")
    if isinstance(meta, str) and not f.get("meta_is_value"):
        meta = json.loads(meta)         # a worker frame carries its meta as JSON text
    return {"topic": bytes.fromhex(f["topic"]).decode(), "context_id": hex_to_b36(f["ctx"]), "id": hex_to_b36(f["id"]),
            "hash": f.get("hash"), "meta": meta, "ttl": f.get("ttl")}


def body_frames(resp, sse):
    body = bytes.fromhex(resp.get("body_hex", ""))
    out = []
    try:
        if sse:
            for block in body.decode().split("\n\n"):
                for line in block.split("\n"):
                    if line.startswith("data: "):
                        out.append(parse_frame_json(json.loads(line[6:])))
        else:
            for line in body.decode().split("\n"):
                if line.strip():
                    out.append(parse_frame_json(json.loads(line)))
    except Exception as e:
        return None
    return out


def run_case(case):
    d = os.path.join(C.SCRATCH, "h%d-%s-%s" % (os.getpid(), threading.get_ident(), hashlib.sha1(case["name"].encode()).hexdigest()[:8]))
    shutil.rmtree(d, ignore_errors=True)
    os.makedirs(d)
    w = S.Worker()
    frames = {}   # op index -> protocol frame (from responses)
    trace = []
    t0 = int(time.time() * 1000)
    try:
        for i, sym in enumerate(case["ops"]):
            op = dict(sym)
            k = op["op"]
            if k == "open":
                cop = {"op": "open", "dir": d, "now": t0, "gated": True}
                obs = w.call(cop)
                trace.append({"op": {"op": "open", "now": t0}, "obs": obs, "dump": w.call({"op": "dump"}).get("ok")})
                continue
            if k in ("http", "http_bg"):
                def sub(m):
                    f = frames.get(int(m.group(1)))
                    return hex_to_b36(f["id"]) if f else b36(7)
                op["target"] = re.sub(r"@\{(\d+)\}", sub, op["target"])
                body = op.pop("body", b"") or b""
                m = re.match(rb"@frame\{(\d+)\}", body)
                if m:
                    f = frames.get(int(m.group(1)))
                    body = json.dumps(frame_to_http_json(f)).encode() if f else b"{}"
                meta = op.pop("meta", None)
                sse = op.pop("sse", False)
                headers = []
                if meta is not None:
                    headers.append(["xs-meta", meta.hex()])
                acc = op.pop("accept_raw", None)
                if acc is not None:
                    # any other Accept value - other media types, parameters, case, non-ASCII bytes - means NDJSON
                    headers.append(["Accept", acc.hex()])
                    sse = acc == b"text/event-stream"
                elif sse:
                    headers.append(["Accept", b"text/event-stream".hex()])
                op["headers"] = headers
                op["body_hex"] = body.hex()
                if not op.get("chunked"):
                    op.pop("chunked", None)
                hx = classify_meta(meta)
                hx["sse"] = sse
                hx["body_hash"] = ssri(body) if body else ""
                if op["target"].split("?")[0] == "/import":
                    try:
                        hx["import_text"] = body.decode("utf-8")
                    except Exception:
                        hx["import_text"] = "\x00not-utf8"
                if op.get("raw_tail_hex") is not None:
                    hx["body_broken"] = True        # the body section cannot be read to its end
                op["hx"] = hx
            try:
                obs = w.call(op, timeout=60)
                dump = w.call({"op": "dump"}).get("ok")
            except S.WorkerDied as e:
                trace.append({"op": op, "obs": {"crash": str(e)[-400:]}})
                break
            if k == "http":
                path = op["target"].split("?")[0]
                # nondeterministic inputs of the model, taken from the implementation's answer
                if op["method"] == "POST" and obs.get("status") == 200 and path not in ("/cas", "/import"):
                    try:
                        fr = parse_frame_json(json.loads(bytes.fromhex(obs["body_hex"])))
                        frames[i] = fr
                        op["hx"]["new_id"] = fr["id"]
                    except Exception:
                        pass
                if path == "/import" and obs.get("status") == 200:
                    try:
                        frames[i] = parse_frame_json(json.loads(bytes.fromhex(obs["body_hex"])))
                    except Exception:
                        pass
                if path == "/import":
                    detail = bytes.fromhex(obs.get("body_hex", "") or "").decode("utf-8", "replace").lower()
                    op["hx"]["hash_valid"] = "integrity" not in detail
                if path.startswith("/cas/") and op["method"] == "GET":
                    op["hx"]["cas_hash"] = None if obs.get("status") == 400 else path[5:]
            trace.append({"op": op, "obs": obs, "dump": dump})
    finally:
        w.close()
        shutil.rmtree(d, ignore_errors=True)
    return trace


def run_model(named):
    lines = []
    for name, tr in named:
        lines.append(json.dumps({"case": name}))
        for e in tr:
            lines.append(json.dumps(e))
    p = subprocess.run([C.XSDRV, "http"], input="\n".join(lines) + "\n", stdout=subprocess.PIPE, stderr=subprocess.PIPE, text=True)
    if p.returncode != 0:
        raise RuntimeError("xsdrv http failed: " + p.stderr[-2000:])
    out, cur = {}, None
    for line in p.stdout.splitlines():
        j = json.loads(line)
        if "case" in j:
            cur = out.setdefault(j["case"], [])
        else:
            cur.append(j)
    return out


def cf(f):
    return S.canon_frame({k: v for k, v in f.items() if k != "meta_is_value"})


def compare(trace, model):
    """findings: dicts with kind in {dropped, status, body, state, crash, follow} and the properties they speak about"""
    out = []
    bg = {}
    for i, e in enumerate(trace):
        op, obs = e["op"], e["obs"]
        if "crash" in obs:
            out.append({"i": i, "kind": "crash", "props": ["C13", "C10", "C06"], "observable": True})
            break
        if i >= len(model):
            break
        m = model[i]["model"]
        k = op["op"]
        if k == "http":
            if obs.get("conn") != "responded":
                out.append({"i": i, "kind": "dropped", "props": ["C13"], "observable": True, "conn": obs.get("conn"), "target": op["target"]})
                continue
            if obs.get("status") != m.get("status"):
                props = ["C13"]
                if op["target"].startswith("/cas") or (m.get("status") == 200 and m.get("kind") == "hash"):
                    props.append("C10")
                out.append({"i": i, "kind": "status", "props": props, "observable": True, "impl": obs.get("status"), "model": m.get("status"),
                            "target": op["target"], "method": op["method"]})
                continue
            kind = m.get("kind")
            if kind == "frame":
                try:
                    got = cf(parse_frame_json(json.loads(bytes.fromhex(obs["body_hex"]))))
                except Exception:
                    got = None
                if got != cf(m["frame"]):
                    props = ["C13"]
                    if got and got.get("hash") != m["frame"].get("hash"):
                        props.append("C10")
                    if got and got.get("ctx") != m["frame"].get("ctx"):
                        props.append("C06")
                    out.append({"i": i, "kind": "body", "props": props, "observable": True, "impl": got, "model": m["frame"], "target": op["target"]})
            elif kind == "frames":
                got = body_frames(obs, m.get("sse"))
                want = [cf(f) for f in m["frames"]]
                if got is None or [cf(f) for f in got] != want or not obs.get("complete", True):
                    props = ["C13"]
                    cq = re.search(r"context-id=([0-9a-z]{25})", op["target"])
                    if got and cq and any(f["ctx"] != b36_to_hex(cq.group(1)) for f in got):
                        props.append("C06")
                    out.append({"i": i, "kind": "body", "props": props, "observable": True, "target": op["target"],
                                "impl_ids": [f["id"] for f in got or []], "model_ids": [f["id"] for f in want]})
                ct = obs.get("ctype") or ""
                if (m.get("sse") and "event-stream" not in ct) or (not m.get("sse") and "ndjson" not in ct):
                    out.append({"i": i, "kind": "body", "props": ["C13"], "observable": True, "why": "content type", "ctype": ct})
            elif kind == "following":
                got = body_frames(obs, m.get("sse")) or []
                real = [cf(f) for f in got if bytes.fromhex(f["topic"]) not in (b"xs.threshold", b"xs.pulse")]
                want = [cf(f) for f in m["frames"]]
                if real[:len(want)] != want:
                    out.append({"i": i, "kind": "follow", "props": ["C13"], "observable": True, "target": op["target"],
                                "impl_ids": [f["id"] for f in real], "model_ids": [f["id"] for f in want]})
                nthr = sum(1 for f in got if bytes.fromhex(f["topic"]) == b"xs.threshold")
                if nthr != (1 if m.get("threshold") else 0):
                    out.append({"i": i, "kind": "follow", "props": ["C13", "C03"], "observable": True, "why": "threshold count", "target": op["target"]})
            elif kind == "content":
                if obs.get("body_hex") != m.get("body_hex"):
                    out.append({"i": i, "kind": "body", "props": ["C10", "C13"], "observable": True, "why": "content differs", "target": op["target"]})
            elif kind == "hash":
                if bytes.fromhex(obs.get("body_hex", "")).decode("utf-8", "replace") != m.get("hash"):
                    out.append({"i": i, "kind": "body", "props": ["C10", "C13"], "observable": True, "why": "hash is not sha256 of the bytes",
                                "impl": bytes.fromhex(obs.get("body_hex", "")).decode("utf-8", "replace"), "model": m.get("hash")})
        elif k == "http_bg":
            bg[op["name"]] = (i, m, len(trace))
        elif k == "http_collect":
            start, m0, _ = bg.get(op["name"], (None, None, None))
            if m0 is None or m0.get("kind") != "following":
                continue
            got = body_frames(obs, m0.get("sse")) or []
            real = [cf(f) for f in got if bytes.fromhex(f["topic"]) not in (b"xs.threshold", b"xs.pulse")]
            # expected: the certain beginning, then every frame appended meanwhile that passes the
            # subscription's context and topic filter (C06: nothing of another context)
            want = [cf(f) for f in m0["frames"]]
            for j in range(start + 1, i):
                mj = model[j]["model"] if j < len(model) else {}
                if trace[j]["op"].get("op") == "http" and trace[j]["op"].get("method") == "POST" and mj.get("kind") == "frame":
                    f = mj["frame"]
                    if m0.get("sub_ctx") is not None and f["ctx"] != m0["sub_ctx"]:
                        continue
                    if m0.get("topic_filter") is not None and f["topic"] != m0["topic_filter"]:
                        continue
                    want.append(cf(f))
            lim = re.search(r"[?&]limit=(\d+)(&|$)", trace[start]["op"]["target"])
            if lim:
                want = want[:int(lim.group(1))]
            if real != want:
                props = ["C06", "C13"] if any(m0.get("sub_ctx") and f["ctx"] != m0["sub_ctx"] for f in real) else ["C13", "C03"]
                out.append({"i": i, "kind": "follow", "props": props, "observable": True, "target": trace[start]["op"]["target"],
                            "impl": [(bytes.fromhex(f["topic"]).decode(), f["ctx"][-6:], f["id"][-6:]) for f in real],
                            "model": [(bytes.fromhex(f["topic"]).decode(), f["ctx"][-6:], f["id"][-6:]) for f in want]})
        else:
            if S.canon_obs(obs) != S.canon_obs(m):
                out.append({"i": i, "kind": "obs", "props": ["C13"], "observable": True, "op": k})
        di, dm = S.canon_dump(e.get("dump")), S.canon_dump(model[i].get("post"))
        if di is not None and dm is not None and di != dm:
            comps = [c for c in ("stream", "idx_topic", "idx_context", "contexts") if di[c] != dm[c]]
            st = obs.get("status") if isinstance(obs, dict) else None
            props = ["C13"]
            out.append({"i": i, "kind": "state", "props": props, "observable": "stream" in comps, "comps": comps,
                        "target": op.get("target"), "status": st})
    return out


def content_monitor(trace):
    """C10 on the implementation's own answers: same bytes ⇒ same hash (across entry points and
    requests), and a frame's hash resolves to exactly the posted bytes"""
    fails = []
    seen = {}
    for i, e in enumerate(trace):
        op, obs = e["op"], e["obs"]
        if op.get("op") != "http" or obs.get("status") != 200 or op.get("method") != "POST":
            continue
        body = bytes.fromhex(op.get("body_hex", ""))
        path = op["target"].split("?")[0]
        h = None
        if path == "/cas":
            h = bytes.fromhex(obs["body_hex"]).decode("utf-8", "replace")
        elif path != "/import":
            try:
                h = json.loads(bytes.fromhex(obs["body_hex"])).get("hash")
            except Exception:
                h = None
            if not body and h is not None:
                fails.append({"i": i, "kind": "body", "props": ["C10"], "observable": True, "why": "append without a body produced a hash"})
            if body and h is None:
                fails.append({"i": i, "kind": "body", "props": ["C10"], "observable": True, "why": "append with a body produced no hash"})
        if body and h:
            if seen.setdefault(body, h) != h:
                fails.append({"i": i, "kind": "body", "props": ["C10"], "observable": True, "why": "same bytes, different hash"})
    return fails


def run(prop, tier, seed, replay=None):
    t_start = time.time()
    ok, out, dt = C.build_harness()
    if not ok:
        print("harness build against /repo failed:\n" + out[-3000:])
        return 2
    aud = C.audit(prop)
    theorem_broken = [f["theorem"] for f in aud["failures"]]
    if replay:
        cases = [json.load(open(replay))["case"]]
        for c in cases:
            for o in c["ops"]:
                for key in ("body", "meta", "accept_raw"):
                    if isinstance(o.get(key), str):
                        o[key] = bytes.fromhex(o[key])
    else:
        n = 60 if tier == "quick" else 1500
        cases = [gen_case(seed * 10007 + k, prop) for k in range(n)]
    with ThreadPoolExecutor(max_workers=12) as ex:
        traces = list(ex.map(run_case, cases))
    models = run_model([(c["name"], t) for c, t in zip(cases, traces)])
    violations, internal, known_hit = [], [], []
    hist = collections.Counter(); statuses = collections.Counter()
    nreq = 0
    for c, t in zip(cases, traces):
        m = models.get(c["name"], [])
        fs = compare(t, m) + content_monitor(t)
        for e in t:
            if e["op"].get("op") == "http":
                nreq += 1
                hist[e["op"]["method"] + " " + ("/" + e["op"]["target"].split("?")[0].split("/")[1][:6])] += 1
                statuses[str(e["obs"].get("status"))] += 1
        for f in fs:
            if prop not in f["props"]:
                continue
            sig = {"layer": "http", "kind": f["kind"], "target": f.get("target")}
            kf = C.finding_for(prop, sig)
            if kf:
                known_hit.append(kf)
            elif f.get("observable"):
                violations.append((c, t, m, f))
            else:
                internal.append((c, t, m, f))

    def ser_case(c):
        cc = {"name": c["name"], "ops": []}
        for o in c["ops"]:
            o2 = dict(o)
            for key in ("body", "meta", "accept_raw"):
                if isinstance(o2.get(key), bytes):
                    o2[key] = o2[key].hex()
            cc["ops"].append(o2)
        return cc

    rc, lines = 0, []
    for kf in {k["id"]: k for k in known_hit}.values():
        lines.append(f"KNOWN-FINDING: property={prop} {kf['what']}")
    if violations or internal or theorem_broken:
        if violations or internal:
            c, t, m, f = (violations or internal)[0]
            payload = {"property": prop, "tier": tier, "seed": seed, "layer": "http", "case": ser_case(c),
                       "impl_trace": [{"op": {k: v for k, v in e["op"].items() if k != "hx"}, "obs": e["obs"]} for e in t][: f["i"] + 1],
                       "model_at_failure": (m[f["i"]]["model"] if f["i"] < len(m) else None), "finding": f,
                       "broken": None if violations else "correspondence:http/" + f["kind"]}
        else:
            payload = {"property": prop, "case": None, "broken": "theorem:" + theorem_broken[0], "findings": aud["failures"][:3]}
        path = C.write_replay(prop, payload)
        lines.append(f"VIOLATION property={prop} replay={path}" + ("" if violations else " no-failing-input-found"))
        rc = 1
    cov = {
        "obligations": aud["obligations"], "discharged": aud["discharged"],
        "checker_cmd": f"cd /verif/lean && lake build {aud['module']} && lake env lean .lake/audit_{prop}.lean",
        "trusted_base": C.TRUSTED_BASE + ["hyper's HTTP/1.1 parsing and body framing; base64 / UTF-8 / JSON text decoding; sha256 (recomputed independently with hashlib); cacache read/write"],
        "theorems": aud["theorems"], "axioms": aud["axioms"], "theorem_failures": aud["failures"],
        "traces_validated_against_impl": len(cases), "evaluations": nreq,
        "distinct_nontrivial": len({json.dumps([(e["op"].get("method"), e["op"].get("target"), e["obs"].get("status")) for e in t if e["op"].get("op") == "http"]) for t in traces}),
        "rule": "seeded request sequences over every route (valid and malformed ids, contexts, TTLs, read options, xs-meta payloads incl. bad base64 / "
                "UTF-8 / JSON / non-ASCII bytes, bodies none / small / binary / around 8 KiB / chunked, both Accept values, follow streams held open across "
                "appends in two contexts) sent as raw bytes to the real server; after every request status, rendering, dropped-or-hung connection and the "
                "partitions are compared with the Lean Route model; distinct by (method, target, status) sequence",
        "samples": [{"name": c["name"], "requests": [(o.get("method"), o.get("target")) for o in c["ops"] if o.get("op") == "http"][:8]} for c in cases[:3]],
        "route_histogram": dict(hist), "status_histogram": dict(statuses),
        "disagreements_checked": len(internal) + len(violations), "known_findings_hit": [k["id"] for k in known_hit],
    }
    if tier == "thorough":
        okc, outc = C.leanchecker(aud["module"])
        cov["leanchecker"] = "ok" if okc else outc
    C.write_evidence(prop, tier, seed, cov, time.time() - t_start, len(violations), ["hyper delivers method, path, query, headers and body as sent"])
    for l in lines:
        print(l)
    print(f"{prop}: {'FAIL' if rc else 'ok'}  theorems {aud['discharged']}/{aud['obligations']}  cases {len(cases)}  requests {nreq}  {time.time() - t_start:.1f}s")
    return rc
