"""Checks of the handler serve-loop properties C14, C15, C16, C17 (and the serve-side parts of C06)."""
import collections, glob, json, os, time
from concurrent.futures import ThreadPoolExecutor

from . import common as C
from . import servelayer as L
from . import pulselayer as P

PROPS = ("C14", "C15", "C16", "C17", "C18", "C19")
PROFILES = {"C14": ["mixed", "history", "ttl"], "C15": ["mixed", "ttl", "history"], "C16": ["mixed", "restart", "history"],
            "C17": ["restart", "mixed", "services", "cmd"], "C18": ["gen", "gen", "services"], "C19": ["cmd", "cmd", "services"],
            "C06": ["services", "mixed", "cmd", "gen"], "C10": ["cmd", "services", "mixed", "gen"]}


def signature_of(sc, item):
    return {"layer": "serve", "case": sc["name"] if sc["name"].startswith("corpus-") else "generated",
            "kind": item["kind"], "why": item["why"]}


def load_corpus(prop):
    out = []
    for p in sorted(glob.glob(os.path.join(C.VERIF, "corpus", "serve", "*.json"))):
        c = json.load(open(p))
        if prop in c.get("props", [prop]):
            c["name"] = "corpus-" + os.path.basename(p)[:-5]
            out.append(c)
    return out


def run_all(scs, jobs=12):
    drv = L.Driver()
    try:
        with ThreadPoolExecutor(max_workers=jobs) as ex:
            ress = list(ex.map(L.run_impl, scs))
        out = []
        for sc, res in zip(scs, ress):
            if sc.get("pulse"):
                # pulse markers are not stored: these scenarios have their own oracle (vlib/pulselayer.py)
                fnd = [dict(f, kind="pulse", props=["C14"]) for f in P.analyse(sc, res, drv)]
            else:
                fnd = L.analyse(sc, res, drv)
            out.append({"sc": sc, "res": res, "fnd": fnd})
        return out
    finally:
        drv.close()


def shrink(prop, sc, budget_s=60):
    """drop steps (never the serve step) while a finding of this property remains"""
    t0 = time.time()
    cur = sc
    def fails(c):
        r = run_all([c], jobs=1)[0]
        return any(prop in f["props"] for f in r["fnd"])
    i = len(cur["steps"]) - 1
    while i >= 0 and time.time() - t0 < budget_s:
        st = cur["steps"][i]
        if st["k"] in ("append", "burst", "unregister", "settle") or (st["k"] == "register" and False):
            # references to step indices (resume after) must stay valid: replace by a settle instead of deleting
            cand = dict(cur, steps=cur["steps"][:i] + [{"k": "settle", "ms": 50}] + cur["steps"][i + 1:])
            if st["k"] != "settle" and fails(cand):
                cur = cand
        i -= 1
    return cur


def run(prop, tier, seed, replay=None):
    t_start = time.time()
    ok, out, dt = C.build_harness()
    if not ok:
        print("harness build against /repo failed:\n" + out[-3000:])
        return 2
    aud = C.audit(prop)
    theorem_broken = [f["theorem"] for f in aud["failures"]]
    if replay:
        scs = [json.load(open(replay))["case"]]
    else:
        scs = load_corpus(prop)
        n = 48 if tier == "quick" else 400
        profs = PROFILES[prop]
        for k in range(n):
            scs.append(L.gen_scenario(seed * 7919 + k, profs[k % len(profs)]))
        if prop == "C14":
            scs += [P.scenario(seed * 17 + k) for k in range(4 if tier == "quick" else 30)]
    results = run_all(scs)

    violations, known_hit = [], []
    hist = collections.Counter()
    n_inst = n_nontrivial = 0
    for r in results:
        for st in r["sc"]["steps"]:
            hist[st["k"]] += 1
        live_total = sum(len(e["tap"]) for e in r["res"]["epochs"])
        started = sum(1 for e in r["res"]["epochs"] for f in e["tap"] if L.unhx(f["topic"]).endswith(".registered"))
        n_inst += started
        n_inst += sum(1 for e in r["res"]["epochs"] for f in e["tap"]
                      if L.unhx(f["topic"]).endswith((".complete", ".start")) or (L.unhx(f["topic"]).endswith(".error") and "frame_id" in (f.get("meta") or "")))
        if live_total > 6:
            n_nontrivial += 1
        for it in r["fnd"]:
            if prop not in it["props"]:
                continue
            kf = C.finding_for(prop, signature_of(r["sc"], it))
            if kf:
                known_hit.append(kf)
            else:
                violations.append((r, it))

    # the serve loops run on real threads: a scenario that shows a finding is run again as it is, and the finding counts
    # when it shows again (see followcheck); what does not is recorded as unconfirmed
    unconfirmed = []
    if violations and not replay and len({r["sc"]["name"] for r, _ in violations}) < 2:
        # (two scenarios of one run that show a finding independently confirm each other)
        kept, seen = [], set()
        for r, it in violations:
            if r["sc"]["name"] in seen:
                continue
            seen.add(r["sc"]["name"])
            if len(seen) > 3 and kept:
                break
            again = False
            for _ in range(4):
                rr = run_all([r["sc"]], jobs=1)[0]
                if any(prop in x["props"] for x in rr["fnd"]):
                    again = True
                    break
            if again:
                kept.append((r, it))
            else:
                unconfirmed.append({"scenario": r["sc"]["name"], "kind": it.get("kind"), "why": it.get("why")})
        violations = kept

    rc, lines, replay_path = 0, [], None
    for kf in {json.dumps(k["signature"], sort_keys=True): k for k in known_hit}.values():
        lines.append(f"KNOWN-FINDING: property={prop} {kf['what']}")
    if violations:
        r, it = violations[0]
        sc = r["sc"] if (replay or r["sc"].get("pulse")) else shrink(prop, r["sc"])
        rr = run_all([sc], jobs=1)[0]
        its = [x for x in rr["fnd"] if prop in x["props"]]
        if not its:
            sc, rr, its = r["sc"], r, [x for x in r["fnd"] if prop in x["props"]]
        replay_path = C.write_replay(prop, {
            "property": prop, "tier": tier, "seed": seed, "layer": "serve", "case": sc,
            "scripts": rr["res"].get("scripts"), "findings": its[:5],
            "impl": {"epochs": [{"stored": [f["id"] for f in e["stored"]],
                                 "tap": [[L.unhx(f["topic"]), f["ctx"][-6:], f["id"][-6:], f.get("meta"), f.get("ttl"), f.get("content")] for f in e["tap"]][:400],
                                 "sync": e["sync"]} for e in rr["res"]["epochs"]], "crash": rr["res"].get("crash")},
            "broken": ("theorem:" + theorem_broken[0]) if theorem_broken else None})
        lines.append(f"VIOLATION property={prop} replay={replay_path}")
        rc = 1
    elif theorem_broken:
        replay_path = C.write_replay(prop, {"property": prop, "case": None, "broken": "theorem:" + theorem_broken[0],
                                            "findings": aud["failures"][:3],
                                            "note": "a theorem of this property no longer checks; no failing input found"})
        lines.append(f"VIOLATION property={prop} replay={replay_path} no-failing-input-found")
        rc = 1

    cov = {
        "obligations": aud["obligations"], "discharged": aud["discharged"],
        "checker_cmd": f"cd /verif/lean && lake build {aud['module']} && lake env lean .lake/audit_{prop}.lean  # #print axioms of every listed theorem",
        "trusted_base": C.TRUSTED_BASE + [
            "nushell evaluates the generated closures as their behaviour table says (the table -> script renderer and the "
            "table interpreter `evalRules` in the Lean driver are the two sides of the comparison; a disagreement shows up as a finding)",
            "the store delivers a context-scoped follow subscription as `subscription` says (C02/C03/C06, proved for the store model and "
            "checked by their own correspondence)",
            "the tap follower sees every frame in delivery order (a follow read from the start over all contexts)"],
        "theorems": aud["theorems"], "axioms": aud["axioms"], "theorem_failures": aud["failures"],
        "traces_validated_against_impl": len(results), "evaluations": n_inst, "distinct_nontrivial": n_nontrivial,
        "rule": "random scenarios (seeded) over 0-2 registered contexts: a pre-existing history, the three serve loops started as `xs serve` "
                "does, handlers registered from generated behaviour tables (0-3 explicit appends with --meta/--ttl/--context, every return "
                "type, failure at any position, counting environment, resume head / tail / after-id, custom suffix / ttl, invalid scripts), "
                "re-registration, unregistration, single and multi-writer bursts, kill + restart; every frame any follower was handed is "
                "recorded by a tap. Per started instance the Lean model (`subscription`, `run`) is run over what the instance was handed and "
                "its output compared with the frames stamped with its id; the serve loop's announcements are compared with "
                "`announcements` (start-up compaction + live registrations); the subscribe/announce order is read from the sync points. "
                "commands and generators: per call / per spawn the frames stamped with its id are compared with `cmdServe` / `genRun` + `lifecycle` / `duplexInput`. "
                "C14 also: handlers registered with `pulse: P` next to one without - the subscription (stored frames + pulse markers) is rebuilt from "
                "the instance's own stamps, checked for completeness, order and pulse rate, and `run` is compared over it. "
                "evaluations = handler instances + command calls + generator lifecycles replayed; non-trivial = a scenario whose followers were handed more than 6 frames",
        "step_histogram": dict(hist),
        "findings_checked": sum(len(r["fnd"]) for r in results),
        "known_findings_hit": [k["id"] for k in known_hit],
        "unconfirmed_findings": unconfirmed,
        "harness_build_s": round(dt, 1), "lake_s": aud.get("lake_s"),
    }
    if tier == "thorough":
        okc, outc = C.leanchecker(aud["module"])
        cov["leanchecker"] = "ok" if okc else outc
    C.write_evidence(prop, tier, seed, cov, time.time() - t_start, len(violations),
                     ["a scenario has settled when the tap has been quiet for 250 ms",
                      "frames evicted by a head:N / time TTL before a later handler scans history are not modelled: scenarios with "
                      "evicting TTLs register tail handlers only"])
    for l in lines:
        print(l)
    print(f"{prop}: {'FAIL' if rc else 'ok'}  theorems {aud['discharged']}/{aud['obligations']}  scenarios {len(results)}  "
          f"instances {n_inst}  {time.time() - t_start:.1f}s")
    return rc
