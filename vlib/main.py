"""Entry point of ./check."""
import argparse, json, os, sys, time

from . import common as C


def main(argv):
    ap = argparse.ArgumentParser()
    ap.add_argument("prop")
    ap.add_argument("--tier", default=os.environ.get("VERIF_TIER", "quick"), choices=["quick", "thorough"])
    ap.add_argument("--replay", default=None)
    ap.add_argument("--seed", type=int, default=None)
    a = ap.parse_args(argv)
    seed = a.seed if a.seed is not None else int(os.environ.get("VERIF_SEED", "1") or 1)
    from .registry import REGISTRY
    if a.prop not in REGISTRY:
        print(f"unknown property {a.prop}", file=sys.stderr)
        return 2
    return REGISTRY[a.prop](a.prop, a.tier, seed, a.replay)
