"""Checks of the store-core properties (C01, C05, C06, C07, C08, C09, C20):
Lean theorem audit + per-step correspondence against the real crate."""
import copy, glob, json, os, time, collections

from . import common as C
from . import storelayer as S

# which generator profiles feed which property (all share the same executor)
PROFILES_FOR = {
    "C01": ["general", "ttl", "import", "contexts"],
    "C05": ["general", "import", "ttl"],
    "C06": ["contexts", "general", "import"],
    "C07": ["contexts", "import", "general"],
    "C08": ["ttl", "general", "import_gc"],
    "C09": ["ttl", "general"],
    "C20": ["import", "general"],
}
N_QUICK = 240
N_THOROUGH = 4000

STORE_PROPS = ("C01", "C05", "C06", "C07", "C08", "C09", "C20")


def relevant_props(item, trace):
    """Which properties does a difference / oracle failure speak about."""
    if "props" in item:            # api oracle failure
        return set(item["props"])
    k = item["kind"]
    op = item.get("op")
    if k in ("crash", "model-missing"):
        return set(STORE_PROPS) | {"C12"}
    e = trace[item["i"]]
    if k == "obs":
        if op in ("read_sync", "read"):
            ps = {"C01"}
            if e["op"].get("ctx") is not None:
                ps.add("C06")
            now = 0
            for x in trace[: item["i"] + 1]:
                if x["op"]["op"] in ("open", "clock") and x["op"].get("now"):
                    now = x["op"]["now"]
            got = item["impl"].get("ok") or []
            if any(S.ttl_expired(f, now) or f.get("ttl") == "ephemeral" for f in got if isinstance(f, dict)):
                ps.add("C09")
            return ps
        if op in ("get", "head"):
            ps = {"C01", "C05"} if op == "get" else {"C05", "C06"}
            # a frame that came in by import and is now found where the model does not have it (or the other way round):
            # the import was not a plain copy (C20: same frames, same heads)
            imported = {x["op"]["frame"].get("id") for x in trace[: item["i"]]
                        if x["op"].get("op") == "import" and isinstance(x["op"].get("frame"), dict)}
            a, b = item["impl"].get("ok"), (item.get("model") or {}).get("ok")
            if a != b and any(isinstance(f, dict) and f.get("id") in imported for f in (a, b)):
                ps.add("C20")
            return ps
        if op == "append":
            ps = {"C07", "C05", "C01"}
            if any(x["op"].get("op") == "import" and isinstance(x["op"].get("frame"), dict)
                   and x["op"]["frame"].get("id") == e["op"].get("ctx") for x in trace[: item["i"]]):
                ps.add("C20")      # usability of a context that was registered by an import
            return ps
        if op == "import":
            return {"C20", "C05"}
        if op == "remove":
            return {"C01", "C08"}
        return {"C01"}
    if k == "state":
        ps = set()
        comps = item["comps"]
        if "stream" in comps:
            miss, extra = item.get("missing_in_impl"), item.get("extra_in_impl")
            if op == "append":
                ps |= {"C01"} if miss else set()
                ps |= {"C09", "C07", "C05"} if extra else set()
                ps |= {"C01", "C07"} if item.get("value_diff") else set()
            elif op == "import":
                ps |= {"C20", "C01"}
            elif op == "remove":
                ps |= {"C01"} | ({"C08"} if miss else set())
            elif op in ("gc", "drain"):
                # a frame the policy says is evicted / expired and collected, and that is still there: what the next read
                # returns is no longer "accepted and not since removed, expired or evicted" (C01)
                ps |= ({"C08"} if miss else set()) | ({"C09", "C01"} if extra else set())
                if item.get("value_diff"):
                    ps |= {"C08"}
                # frames the collector took although nothing the model knows of asked for it: if a head:N frame was
                # imported earlier, the import was not a silent copy (C20: import keeps frames as they are)
                if miss and any(x["op"].get("op") == "import" and isinstance(x["op"].get("frame"), dict)
                                and str(x["op"]["frame"].get("ttl") or "").startswith("head:") for x in trace[: item["i"]]):
                    ps.add("C20")
            elif op in ("read", "read_sync", "get", "head"):
                ps |= {"C01", "C08"}
            elif op == "open":
                ps |= {"C01", "C04", "C07"}
            else:
                ps |= {"C01"}
        if "idx_topic" in comps or "idx_context" in comps:
            ps |= {"C05"}
            if op == "import":
                ps |= {"C20"}
            if "idx_context" in comps:
                ps |= {"C06"}
        if "contexts" in comps:
            ps |= {"C07"}
            if op == "import":
                ps |= {"C20"}
        return ps
    return set()


def observable(item):
    """Is the difference visible through the public API (vs. internal layout only)?"""
    if "props" in item:
        return True
    if item["kind"] in ("obs", "crash"):
        return True
    if item["kind"] == "state":
        return "stream" in item["comps"]
    return False


def findings_for(prop, res):
    """(observable findings, internal-only findings) of one executed case for `prop`."""
    obs, internal = [], []
    for it in res["api"] + res["diffs"]:
        if prop in relevant_props(it, res["trace"]):
            (obs if observable(it) else internal).append(it)
    return obs, internal


def strip_nops(ops):
    """drop nop placeholders and renumber refs"""
    keep = [i for i, o in enumerate(ops) if o.get("op") != "nop"]
    remap = {old: new for new, old in enumerate(keep)}

    def fix(v):
        if isinstance(v, dict):
            v = {k: fix(x) for k, x in v.items()}
            for key in ("ref", "ts", "same_as"):
                if key in v and isinstance(v[key], int):
                    v[key] = remap.get(v[key], -1)
            return v
        if isinstance(v, list):
            return [fix(x) for x in v]
        return v
    return [fix(ops[i]) for i in keep]


def shrink(prop, case, want_observable, budget_s=40):
    """delta-debugging on the op list (ops become nops so references stay valid)"""
    t0 = time.time()
    ops = case["ops"]

    def fails(cand_ops):
        r = S.run_cases([{"name": case["name"], "ops": cand_ops}], jobs=1)[0]
        o, i = findings_for(prop, r)
        return bool(o) if want_observable else bool(o or i)

    idx = [i for i in range(1, len(ops)) if ops[i].get("op") != "nop"]
    n = 2
    cur = list(ops)
    while len(idx) >= 1 and time.time() - t0 < budget_s:
        chunk = max(1, len(idx) // n)
        reduced = False
        for start in range(0, len(idx), chunk):
            drop = set(idx[start:start + chunk])
            cand = [({"op": "nop"} if i in drop else o) for i, o in enumerate(cur)]
            if fails(cand):
                cur = cand
                idx = [i for i in idx if i not in drop]
                n = max(n - 1, 2)
                reduced = True
                break
            if time.time() - t0 > budget_s:
                break
        if not reduced:
            if chunk == 1:
                break
            n = min(len(idx), n * 2)
    return {"name": case["name"] + "-min", "ops": strip_nops(cur)}


def load_corpus(prop):
    out = []
    for p in sorted(glob.glob(os.path.join(C.VERIF, "corpus", "store", "*.json"))):
        c = json.load(open(p))
        if prop in c.get("props", [prop]):
            c["name"] = "corpus-" + os.path.basename(p)[:-5]
            out.append(c)
    return out


def nontrivial(res):
    """a case is non-trivial if it reached a state with >= 2 contexts holding frames, or a
    TTL-driven removal, or an import over an existing id, and issued at least one read"""
    ctxs, reads, gc_removed, reimport = set(), 0, False, False
    ids = set()
    prev_n = None
    for e in res["trace"]:
        op = e["op"]["op"]
        d = e.get("dump")
        if d:
            for _, f in d["stream"]:
                if isinstance(f, dict) and "ctx" in f:
                    ctxs.add(f["ctx"])
            if op in ("gc", "drain") and prev_n is not None and len(d["stream"]) < prev_n:
                gc_removed = True
            prev_n = len(d["stream"])
        if op in ("read", "read_sync"):
            reads += 1
        if op == "import":
            fid = e["op"]["frame"].get("id")
            if fid in ids:
                reimport = True
        if op == "append" and isinstance(e["obs"].get("ok"), dict):
            ids.add(e["obs"]["ok"]["id"])
        if op == "import" and "ok" in e["obs"]:
            ids.add(e["op"]["frame"]["id"])
    return reads > 0 and (len(ctxs) >= 2 or gc_removed or reimport)


def signature_of(prop, case, item):
    sig = {"layer": "store", "case": case["name"] if case["name"].startswith("corpus-") else "generated"}
    if "props" in item:
        sig.update({"kind": "api", "why": item["why"]})
    else:
        sig.update({"kind": item["kind"], "op": item.get("op"), "comps": item.get("comps")})
    return sig


def run(prop, tier, seed, replay=None):
    t_start = time.time()
    ok, out, dt = C.build_harness()
    if not ok:
        print("harness build against /repo failed:\n" + out[-3000:])
        return 2
    aud = C.audit(prop)
    theorem_broken = [f["theorem"] for f in aud["failures"]]
    if aud["failures"] and not os.path.exists(C.XSDRV):
        print("lean build failed and no driver available:\n" + json.dumps(aud["failures"])[:3000])
        return 2

    if replay:
        rp = json.load(open(replay))
        cases = [rp["case"]]
    else:
        cases = load_corpus(prop)
        n = N_QUICK if tier == "quick" else N_THOROUGH
        profs = PROFILES_FOR[prop]
        for k in range(n):
            cases.append(S.gen_case(seed * 1000003 + k, profs[k % len(profs)]))
    results = S.run_cases(cases)

    violations, known_hit, internal_only = [], [], []
    hist_ops = collections.Counter()
    n_nontrivial, distinct = 0, set()
    for r in results:
        for e in r["trace"]:
            hist_ops[e["op"]["op"]] += 1
        key = json.dumps([(e["op"].get("op"), json.dumps(e["obs"], sort_keys=True)[:80]) for e in r["trace"]])
        if nontrivial(r) and key not in distinct:
            distinct.add(key); n_nontrivial += 1
        obs, internal = findings_for(prop, r)
        # expectation written into corpus cases of known findings
        for it in obs:
            sig = signature_of(prop, r["case"], it)
            kf = C.finding_for(prop, sig)
            if kf:
                known_hit.append((kf, r, it))
            else:
                violations.append((r, it))
        if internal and not obs:
            internal_only.append((r, internal[0]))

    rc = 0
    lines = []
    for kf, r, it in {json.dumps(k[0]["signature"], sort_keys=True): k for k in known_hit}.values():
        lines.append(f"KNOWN-FINDING: property={prop} {kf['what']}")
    replay_path = None
    if violations:
        r, it = violations[0]
        small = shrink(prop, r["case"], True) if not replay else r["case"]
        rr = S.run_cases([small], jobs=1)[0]
        o, _ = findings_for(prop, rr)
        if not o:
            small, rr = r["case"], r
            o, _ = findings_for(prop, rr)
        replay_path = C.write_replay(prop, {
            "property": prop, "tier": tier, "seed": seed, "layer": "store", "case": small,
            "impl_trace": [{"op": e["op"], "obs": e["obs"]} for e in rr["trace"]],
            "model_trace": [m.get("model") for m in rr["model"]],
            "findings": o[:5], "broken": ("theorem:" + theorem_broken[0]) if theorem_broken else None,
            "signature": signature_of(prop, small, o[0]) if o else None})
        lines.append(f"VIOLATION property={prop} replay={replay_path}")
        rc = 1
    elif internal_only or theorem_broken:
        # search: look harder for an API-visible failing input behind the internal difference
        found = None
        for r, it in internal_only[:6]:
            probe = S.deep_probe_case(r["case"], r["trace"])
            pr = S.run_cases([probe], jobs=1)[0]
            o, _ = findings_for(prop, pr)
            o = [x for x in o if not C.finding_for(prop, signature_of(prop, pr["case"], x))]
            if o:
                found = (pr, o)
                break
        if found:
            pr, o = found
            small = shrink(prop, pr["case"], True)
            rr = S.run_cases([small], jobs=1)[0]
            o2, _ = findings_for(prop, rr)
            if not o2:
                small, rr, o2 = pr["case"], pr, o
            replay_path = C.write_replay(prop, {
                "property": prop, "tier": tier, "seed": seed, "layer": "store", "case": small,
                "impl_trace": [{"op": e["op"], "obs": e["obs"]} for e in rr["trace"]],
                "model_trace": [m.get("model") for m in rr["model"]],
                "findings": o2[:5], "broken": "correspondence:store (found by the probe search)",
                "signature": signature_of(prop, small, o2[0])})
            lines.append(f"VIOLATION property={prop} replay={replay_path}")
            violations.append((rr, o2[0]))
            rc = 1
    if rc == 0 and (internal_only or theorem_broken):
        if internal_only:
            r0, it0 = internal_only[0]
            broken = "correspondence:store/%s after %s" % ("+".join(it0.get("comps", [])), it0.get("op"))
            payload_case, tr, fnd = r0["case"], r0, findings_for(prop, r0)[1][:5]
        else:
            broken = "theorem:" + theorem_broken[0]
            payload_case, tr, fnd = None, None, aud["failures"][:3]
        replay_path = C.write_replay(prop, {
            "property": prop, "tier": tier, "seed": seed, "layer": "store", "case": payload_case,
            "impl_trace": [{"op": e["op"], "obs": e["obs"]} for e in tr["trace"]] if tr else None,
            "findings": fnd, "broken": broken,
            "note": "no input was found on which the property itself fails; the named theorem or "
                    "correspondence no longer checks, so the property is no longer shown to hold"})
        lines.append(f"VIOLATION property={prop} replay={replay_path} no-failing-input-found")
        rc = 1

    samples = []
    for r in results[:3]:
        samples.append({"name": r["case"]["name"],
                        "ops": [e["op"] for e in r["trace"]][:12], "n_ops": len(r["trace"])})
    cov = {
        "obligations": aud["obligations"], "discharged": aud["discharged"],
        "checker_cmd": f"cd /verif/lean && lake build {aud['module']} && lake env lean .lake/audit_{prop}.lean  # #print axioms of every listed theorem",
        "trusted_base": C.TRUSTED_BASE + [
            "fjall: a partition is a byte-ordered map; a batch is applied atomically (modelled as sorted association lists)",
            "scru128: ids are 128-bit and strictly increasing per process (checked on every trace, not proved)"],
        "theorems": aud["theorems"], "axioms": aud["axioms"], "theorem_failures": aud["failures"],
        "traces_validated_against_impl": len(results),
        "evaluations": sum(len(r["trace"]) for r in results),
        "distinct_nontrivial": n_nontrivial,
        "rule": "random histories over the profiles %s (seeded), each op executed on the real crate and on the Lean model "
                "from the implementation's dumped pre-state, observations and post-state compared; non-trivial = at least "
                "one read and (frames in >= 2 contexts, or a GC-driven removal, or an import over an existing id); distinct "
                "by the sequence of (op kind, observation)" % PROFILES_FOR[prop],
        "samples": samples,
        "op_histogram": dict(hist_ops),
        "disagreements_checked": sum(len(r["diffs"]) for r in results),
        "api_oracle_failures": sum(len(r["api"]) for r in results),
        "known_findings_hit": [k[0]["id"] for k in known_hit],
        "internal_only_differences": len(internal_only),
        "harness_build_s": round(dt, 1), "lake_s": aud.get("lake_s"),
    }
    if tier == "thorough":
        okc, outc = C.leanchecker(aud["module"])
        cov["leanchecker"] = "ok" if okc else outc
        if not okc:
            lines.append(f"VIOLATION property={prop} replay={C.write_replay(prop, {'property': prop, 'case': None, 'broken': 'theorem:leanchecker ' + aud['module'], 'log': outc})} no-failing-input-found")
            rc = 1
    C.write_evidence(prop, tier, seed, cov, time.time() - t_start, len(violations),
                     ["ids assigned by scru128 are < 2^128 and strictly increasing within a process lifetime",
                      "the hooks (clock override, gc gate, partition dump) report what the code does"])
    for l in lines:
        print(l)
    print(f"{prop}: {'FAIL' if rc else 'ok'}  theorems {aud['discharged']}/{aud['obligations']}  "
          f"cases {len(results)}  ops {cov['evaluations']}  nontrivial {n_nontrivial}  "
          f"{time.time() - t_start:.1f}s", file=sys.stderr if False else sys.stdout)
    return rc


import sys
