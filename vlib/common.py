"""Shared plumbing: paths, builds, Lean audit, evidence, known findings."""
import fcntl, hashlib, json, os, re, shutil, subprocess, sys, time

VERIF = os.path.dirname(os.path.dirname(os.path.abspath(__file__)))
REPO = os.environ.get("XS_REPO", "/repo")
TARGET = os.path.join(VERIF, "target")
LEAN = os.path.join(VERIF, "lean")
HARNESS = os.path.join(VERIF, "harness")
XSW = os.path.join(TARGET, "debug", "xsw")
XSDRV = os.path.join(LEAN, ".lake", "build", "bin", "xsdrv")
SCRATCH = os.environ.get("XS_SCRATCH", "/dev/shm/xsv")
ALLOWED_AXIOMS = {"propext", "Classical.choice", "Quot.sound"}
ENV = dict(os.environ, CARGO_NET_OFFLINE="true")


def log(*a):
    print(*a, file=sys.stderr, flush=True)


class Lock:
    def __init__(self, name):
        os.makedirs(os.path.join(VERIF, ".cache"), exist_ok=True)
        self.path = os.path.join(VERIF, ".cache", name + ".lock")

    def __enter__(self):
        self.f = open(self.path, "w")
        fcntl.flock(self.f, fcntl.LOCK_EX)

    def __exit__(self, *a):
        fcntl.flock(self.f, fcntl.LOCK_UN)
        self.f.close()


def build_harness():
    """Rebuild the worker against /repo's *current working tree* (hooks on)."""
    with Lock("cargo"):
        shutil.copyfile(os.path.join(REPO, "Cargo.lock"), os.path.join(HARNESS, "Cargo.lock"))
        t = time.time()
        p = subprocess.run(["cargo", "build", "--offline"], cwd=HARNESS, env=ENV,
                           stdout=subprocess.PIPE, stderr=subprocess.STDOUT, text=True)
        return p.returncode == 0, p.stdout, time.time() - t


def build_lean(targets):
    with Lock("lake"):
        t = time.time()
        p = subprocess.run(["lake", "build"] + targets, cwd=LEAN,
                           stdout=subprocess.PIPE, stderr=subprocess.STDOUT, text=True)
        return p.returncode == 0, p.stdout, time.time() - t


FORBIDDEN = re.compile(r"\bsorry\b|\badmit\b|^\s*axiom\s|native_decide|bv_decide|implemented_by|\bunsafe\s|maxHeartbeats\s+0")


def strip_comments(src):
    # remove /- ... -/ (nested) and -- comments
    out, i, depth = [], 0, 0
    while i < len(src):
        if src.startswith("/-", i):
            depth += 1; i += 2; continue
        if depth and src.startswith("-/", i):
            depth -= 1; i += 2; continue
        if depth:
            if src[i] == "\n": out.append("\n")
            i += 1; continue
        if src.startswith("--", i):
            while i < len(src) and src[i] != "\n": i += 1
            continue
        out.append(src[i]); i += 1
    return "".join(out)


def grep_forbidden():
    hits = []
    for root in ("XsModel", "XsProofs", "XsProps"):
        for dp, _, fns in os.walk(os.path.join(LEAN, root)):
            for fn in fns:
                if fn.endswith(".lean"):
                    p = os.path.join(dp, fn)
                    for n, line in enumerate(strip_comments(open(p).read()).split("\n"), 1):
                        if FORBIDDEN.search(line):
                            hits.append(f"{os.path.relpath(p, LEAN)}:{n}: {line.strip()}")
    return hits


def props_table():
    return json.load(open(os.path.join(LEAN, "props.json")))


def audit(prop):
    """Build the property's theorem module, then `#print axioms` every theorem
    listed for it in props.json. Returns dict(obligations, discharged, failures, axioms)."""
    entry = props_table()[prop]
    module = entry["module"]
    theorems = entry["theorems"]
    res = {"obligations": len(theorems), "discharged": 0, "failures": [], "axioms": {},
           "module": module, "theorems": theorems}
    ok, out, dt = build_lean([module, "xsdrv"])
    res["lake_s"] = round(dt, 1)
    if not ok:
        res["failures"].append({"theorem": module, "why": "lake build failed", "log": out[-3000:]})
        # which theorems are affected: all of the module
        return res
    hits = grep_forbidden()
    if hits:
        res["failures"].append({"theorem": module, "why": "forbidden token", "log": "\n".join(hits)})
        return res
    src = f"import {module}\n" + "".join(f"#print axioms {t}\n" for t in theorems)
    tmp = os.path.join(LEAN, ".lake", f"audit_{prop}.lean")
    open(tmp, "w").write(src)
    p = subprocess.run(["lake", "env", "lean", tmp], cwd=LEAN, stdout=subprocess.PIPE,
                       stderr=subprocess.STDOUT, text=True)
    text = p.stdout
    # parse: "'Name' depends on axioms: [a, b]" or "'Name' does not depend on any axioms"
    found = {}
    for m in re.finditer(r"'([^']+)' depends on axioms: \[([^\]]*)\]", text, re.S):
        found[m.group(1)] = {a.strip() for a in m.group(2).replace("\n", " ").split(",") if a.strip()}
    for m in re.finditer(r"'([^']+)' does not depend on any axioms", text):
        found[m.group(1)] = set()
    for t in theorems:
        if t not in found:
            res["failures"].append({"theorem": t, "why": "not found / does not elaborate", "log": text[-2000:]})
            continue
        extra = found[t] - ALLOWED_AXIOMS
        res["axioms"][t] = sorted(found[t])
        if extra:
            res["failures"].append({"theorem": t, "why": "axioms outside the allowed set: " + ", ".join(sorted(extra))})
        else:
            res["discharged"] += 1
    return res


def leanchecker(module):
    p = subprocess.run(["lake", "env", "leanchecker", module], cwd=LEAN, stdout=subprocess.PIPE,
                       stderr=subprocess.STDOUT, text=True)
    return p.returncode == 0, p.stdout[-2000:]


def known_findings():
    p = os.path.join(VERIF, "known_findings.json")
    if not os.path.exists(p):
        return []
    return json.load(open(p))


def finding_for(prop, signature):
    for f in known_findings():
        if f.get("status") == "known" and f.get("property") == prop and f.get("signature") == signature:
            return f
    return None


TRUSTED_BASE = [
    "Lean 4.33.0 kernel; axioms propext, Classical.choice, Quot.sound only (audited with #print axioms on every run)",
    "hand-written Lean model XsModel/* of the glue code; tied to /repo by the correspondence run of this check (differential execution, bounded)",
    "Rust worker /verif/harness (xsw), Python orchestrator /verif/vlib, JSON line protocol, canonicalisation",
    "hooks in /repo behind cargo feature `verif` (clock override, gc gate, partition dump, sync points) report the real control flow",
]


def write_evidence(prop, tier, seed, coverage, wall_s, violations, assumptions):
    os.makedirs(os.path.join(VERIF, "evidence"), exist_ok=True)
    ev = {"property_id": prop, "tier": tier, "seed": seed, "level": "proof", "coverage": coverage,
          "assumptions": assumptions, "wall_s": round(wall_s, 2), "violations": violations}
    with open(os.path.join(VERIF, "evidence", prop + ".json"), "w") as f:
        json.dump(ev, f, indent=1, sort_keys=True)
        f.write("\n")


def write_replay(prop, payload):
    os.makedirs(os.path.join(VERIF, "replays"), exist_ok=True)
    # a replay must always be written: whatever is not JSON (bytes in a generated request) goes in as hex / text
    enc = lambda o: o.hex() if isinstance(o, (bytes, bytearray)) else str(o)
    body = json.dumps(payload, indent=1, sort_keys=True, default=enc)
    h = hashlib.sha1(json.dumps(payload.get("case"), sort_keys=True, default=enc).encode()).hexdigest()[:12]
    path = os.path.join(VERIF, "replays", f"{prop}-{h}.json")
    open(path, "w").write(body + "\n")
    return path
