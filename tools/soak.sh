#!/bin/sh
# usage: tools/soak.sh <tier> <seed>...   - runs every claimed check at the given seeds; prints a line per failure
# (run from /verif; used with `vp run` as a false-alarm soak on the unchanged tree)
TIER="$1"; shift
cd /verif || exit 2
fail=0
for s in "$@"; do
  for p in C01 C02 C03 C04 C05 C06 C07 C08 C09 C10 C11 C12 C13 C14 C15 C16 C17 C18 C19 C20; do
    out=$(./check $p --tier "$TIER" --seed "$s" 2>&1); rc=$?
    echo "$out" | grep -E "^C[0-9]+: " | tail -1 | sed "s/^/seed $s  /"
    if [ $rc -ne 0 ] || echo "$out" | grep -q "^VIOLATION"; then
      fail=1; echo "ALARM seed=$s prop=$p rc=$rc"; echo "$out" | grep -E "VIOLATION|KNOWN|Error|error" | head -5
      for r in $(echo "$out" | grep -o "replay=[^ ]*" | cut -d= -f2); do cp "$r" "/verif/replays/soak-$p-$s.json" 2>/dev/null; done
    fi
  done
done
echo "soak done fail=$fail"
